(* Pushed authorization requests (C17). *)
From FositeModel Require Import Base.Str Model.Scope Model.Core Model.Flows Proofs.CoreInv Proofs.StepInv Proofs.Family Proofs.Decay Proofs.StepProps.

Arguments upd : simpl never.

(* ---- the push endpoint *)
Theorem push_ok_facts cfg s auth bc ru a :
  o_err (snd (push cfg s auth bc ru a)) = "" ->
  exists c cl, auth = Some c /\ clients s c = Some cl /\ ru = false /\
    (forall b, bc = Some b -> b = c) /\
    scopes_ok cfg cl (az_scopes a) = true /\ aud_ok cfg (cl_aud cl) (az_aud a) = true /\
    exists k, nth_error (log (fst (push cfg s auth bc ru a))) (List.length (log s)) =
                Some {| i_kind := KPar; i_key := k; i_rid := next_rid s; i_endpoint_token := false |} /\
      exists pr, par (st (fst (push cfg s auth bc ru a))) k = Some pr /\
        r_client pr = c /\ r_cl pr = cl /\ r_rscopes pr = az_scopes a /\ r_raud pr = az_aud a /\
        r_redirect pr = az_redirect a /\ r_challenge pr = az_challenge a /\ r_method pr = az_method a /\ r_at pr = now s.
Proof.
  unfold push.
  destruct auth as [c|]; [|discriminate]. destruct (clients s c) as [cl0|] eqn:Ec; [|discriminate].
  destruct ru; [discriminate|].
  destruct (clients s (match bc with Some b => b | None => c end)) as [cl|] eqn:Ecl; [|discriminate].
  destruct (negb (scopes_ok cfg cl (az_scopes a))) eqn:E1; [discriminate|].
  destruct (negb (aud_ok cfg (cl_aud cl) (az_aud a))) eqn:E2; [discriminate|].
  destruct (Nat.eqb_spec (match bc with Some b => b | None => c end) c) as [Heq|Hne]; cbn [negb]; [|discriminate].
  destruct (fresh_rid s) as [rid s1] eqn:F1. destruct (fresh_rid_spec _ _ _ F1) as [Hrid [_ [Hst1 [_ [_ [_ Hl1]]]]]].
  destruct (mint s1 KPar rid) as [k s2] eqn:F2. destruct (mint_spec _ _ _ _ _ F2) as [_ [_ [Hst2 [_ [_ [_ Hl2]]]]]].
  intros _. rewrite Heq in *. assert (cl = cl0) by congruence. subst cl0.
  exists c, cl. repeat split; try assumption.
  - intros b ->. assumption.
  - now apply negb_false_iff in E1.
  - now apply negb_false_iff in E2.
  - exists k. cbn. rewrite Hl2, Hl1, nth_error_app2 by lia. rewrite Nat.sub_diag. subst rid. split; [reflexivity|].
    rewrite upd_eq. eexists. split; [reflexivity|]. cbn. auto 10.
Qed.

(* ---- use of a request_uri *)
Theorem authorize_par_ok_facts cfg s cp uri a :
  o_err (snd (authorize_par cfg s cp uri a)) = "" ->
  exists k pr, key_of s uri = Some k /\ par (st s) k = Some pr /\
    cp = r_client pr /\ (now s <= r_at pr + cf_par_life cfg)%Z /\
    o_err (snd (authorize_core cfg (set_store s (delete_par (st s) k)) (r_cl pr)
      {| az_rtype := RCode; az_client := r_client pr; az_redirect := r_redirect pr; az_scopes := r_rscopes pr; az_granted := az_granted a;
         az_aud := r_raud pr; az_gaud := az_gaud a; az_subject := az_subject a;
         az_challenge := if String.eqb (r_challenge pr) "" then az_challenge a else r_challenge pr;
         az_method := if String.eqb (r_method pr) "" then az_method a else r_method pr; az_mode := r_mode pr |})) = "".
Proof.
  rewrite authorize_par_err. unfold authorize_par0.
  destruct (key_of s uri) as [k|]; [|discriminate].
  destruct (par (st s) k) as [pr|] eqn:Ep; [|discriminate].
  destruct (before _ _) eqn:Eb; [discriminate|].
  destruct (Nat.eqb_spec cp (r_client pr)) as [->|Hne]; cbn [negb]; [|discriminate].
  intros H. exists k, pr. repeat split; try assumption.
  unfold before in Eb. apply Z.ltb_ge in Eb. lia.
Qed.

(* whatever the outcome, a request_uri that was found is consumed *)
Theorem authorize_par_consumes cfg s cp uri a k pr :
  k < next_key s -> key_of s uri = Some k -> par (st s) k = Some pr -> par (st (fst (authorize_par cfg s cp uri a))) k = None.
Proof.
  intros Hk Hkey Hp. rewrite authorize_par_fst. unfold authorize_par0. rewrite Hkey, Hp.
  destruct (before _ _); [cbn; apply upd_eq|].
  destruct (negb (Nat.eqb cp (r_client pr))); [cbn; apply upd_eq|].
  match goal with |- context [authorize_core cfg ?s1 ?cl ?a'] => remember s1 as s1v eqn:Es1; remember a' as av eqn:Eav end.
  assert (G : par (st (fst (authorize_core cfg s1v (r_cl pr) av))) = par (st s1v)).
  { clear Es1 Eav. unfold authorize_core.
    destruct (negb (scopes_ok cfg (r_cl pr) (az_scopes av))); [reflexivity|].
    destruct (negb (aud_ok cfg (cl_aud (r_cl pr)) (az_aud av))); [reflexivity|].
    destruct (fresh_rid s1v) as [rid s1] eqn:E1. destruct (fresh_rid_spec _ _ _ E1) as [_ [_ [H1 _]]].
    destruct (mint s1 KCode rid) as [k0 s2] eqn:E2. destruct (mint_spec _ _ _ _ _ E2) as [_ [_ [H2 _]]].
    destruct (pkce_validate cfg (az_challenge av) (az_method av) (r_cl pr)); cbn [fst fail]; [cbn; congruence|].
    destruct (String.eqb (az_challenge av) "" && String.eqb (az_method av) ""); cbn; congruence. }
  rewrite G, Es1. cbn. apply upd_eq.
Qed.

(* a consumed (or never issued) request_uri key stays empty: par sessions are only created under fresh keys *)
Lemma par_gone_step cfg s o k : k < next_key s -> par (st s) k = None -> par (st (fst (step cfg s o))) k = None.
Proof.
  intros Hk Hn.
  assert (AC : forall s0 cl a, par (st s0) k = None -> k < next_key s0 -> par (st (fst (authorize_core cfg s0 cl a))) k = None).
  { intros s0 cl a H0 Hk0. unfold authorize_core.
    destruct (negb (scopes_ok cfg cl (az_scopes a))); [assumption|].
    destruct (negb (aud_ok cfg (cl_aud cl) (az_aud a))); [assumption|].
    destruct (fresh_rid s0) as [rid s1] eqn:E1. destruct (fresh_rid_spec _ _ _ E1) as [_ [_ [H1 _]]].
    destruct (mint s1 KCode rid) as [k0 s2] eqn:E2. destruct (mint_spec _ _ _ _ _ E2) as [_ [_ [H2 _]]].
    destruct (pkce_validate cfg (az_challenge a) (az_method a) cl); cbn [fst fail]; [cbn; congruence|].
    destruct (String.eqb (az_challenge a) "" && String.eqb (az_method a) ""); cbn; congruence. }
  assert (GT : forall s0 stored w, par (st (fst (grant_tokens s0 stored w))) = par (st s0)).
  { intros s0 stored w. unfold grant_tokens.
    destruct (mint s0 KAccess (r_id stored)) as [ka s2] eqn:E2. destruct (mint_spec _ _ _ _ _ E2) as [_ [_ [H2 _]]].
    destruct w.
    - destruct (mint s2 KRefresh (r_id stored)) as [kr s3] eqn:E3. destruct (mint_spec _ _ _ _ _ E3) as [_ [_ [H3 _]]]. cbn. congruence.
    - cbn. congruence. }
  assert (FG : forall s0 mk w, par (st (fst (fresh_grant s0 mk w))) = par (st s0)).
  { intros s0 mk w. unfold fresh_grant. destruct (fresh_rid s0) as [rid s1] eqn:E1. destruct (fresh_rid_spec _ _ _ E1) as [_ [_ [H1 _]]].
    rewrite GT. congruence. }
  assert (RA : forall x X, par (revoke_access x X) = par x) by (intros x X; reflexivity).
  assert (RR : forall x X, par (fst (revoke_refresh x X)) = par x)
    by (intros x X; unfold revoke_refresh; destruct (rt_idx x X) as [k0|]; [destruct (refresh x k0) as [[? ?]|]|]; reflexivity).
  assert (IC : forall x k0, par (fst (invalidate_code x k0)) = par x)
    by (intros x k0; unfold invalidate_code; destruct (codes x k0) as [[? ?]|]; reflexivity).
  destruct o; cbn [step]; try assumption;
    try (new_flows_tac s FG ltac:(assumption); cbn in *; rewrite FGfact; assumption).
  - unfold authorize. destruct (cf_par_enforced cfg); [assumption|].
    destruct (clients s (az_client a)) as [cl|]; [|assumption].
    destruct (az_rtype a); [now apply AC| |].
    + destruct (authorize_implicit_effect cfg s cl a) as [_ [_ [_ [Hp _]]]]. now rewrite Hp.
    + destruct (authorize_hybrid_effect cfg s cl a) as [_ [_ [_ [Hp _]]]]. now rewrite Hp.
  - unfold redeem.
    destruct auth as [c|]; [|assumption]. destruct (clients s c) as [cl|]; [|assumption].
    destruct (negb (args_has (cl_grants cl) ["authorization_code"])); [assumption|].
    destruct (key_of s code) as [k0|]; [|assumption].
    destruct (codes (st s) k0) as [[[|] r]|] eqn:Ec; [| |assumption].
    + destruct (p_tampered code); [assumption|].
      destruct (negb (Nat.eqb (r_client r) c)); [assumption|].
      destruct (negb (String.eqb (r_redirect r) "") && negb (String.eqb (r_redirect r) redirect)); [assumption|].
      assert (H1 : par (st (fst (pkce_token cfg s cl (Some k0) verifier verifier_s256))) = par (st s))
        by (destruct (pkce_token_state cfg s cl (Some k0) verifier verifier_s256) as [->|[k1 ->]]; reflexivity).
      destruct (pkce_token cfg s cl (Some k0) verifier verifier_s256) as [s1 [e|]]; cbn [fst] in *; [cbn; congruence|].
      destruct (expired _ _ _ _); [cbn; congruence|].
      match goal with |- context [grant_tokens ?s2 ?stored ?w] =>
        pose proof (GT s2 stored w) as G; destruct (grant_tokens s2 stored w) as [s3 minted] end.
      cbn in *. rewrite G, IC. congruence.
    + cbn. rewrite RR, RA. assumption.
  - unfold refresh_flow.
    destruct auth as [c|]; [|assumption]. destruct (clients s c) as [cl|]; [|assumption].
    destruct (negb (args_has (cl_grants cl) ["refresh_token"])); [assumption|].
    destruct (key_of s tok) as [k0|]; cbn [find]; [|assumption].
    destruct (refresh (st s) k0) as [[[|] r]|] eqn:Er; [| |assumption].
    + repeat match goal with |- context [if ?c then _ else _] => destruct c; [assumption|] end.
      unfold rotate_refresh. pose proof (RR (st s) (r_id r)) as Tr.
      destruct (revoke_refresh (st s) (r_id r)) as [st1 [e|]]; cbn [fst] in *; [cbn; congruence|].
      match goal with |- context [grant_tokens ?s2 ?stored ?w] =>
        pose proof (GT s2 stored w) as G; destruct (grant_tokens s2 stored w) as [s3 minted] end.
      cbn in *. rewrite G, RA. congruence.
    + cbn. rewrite RA, RR. assumption.
  - unfold revoke.
    destruct auth as [c|]; [|assumption]. destruct (clients s c); [|assumption].
    destruct (revoke_lookup s (key_of s tok) h) as [r|]; [|assumption].
    destruct (negb (Nat.eqb (r_client r) c)); [assumption|]. cbn. rewrite RA, RR. assumption.
  - unfold push.
    destruct auth as [c|]; [|assumption]. destruct (clients s c); [|assumption].
    destruct has_request_uri; [assumption|].
    destruct (clients s _) as [cl|]; [|assumption].
    repeat match goal with |- context [if ?c then fail s _ else _] => destruct c; [assumption|] end.
    destruct (fresh_rid s) as [rid s1] eqn:E1. destruct (fresh_rid_spec _ _ _ E1) as [_ [_ [H1 [_ [Hk1 _]]]]].
    destruct (mint s1 KPar rid) as [k0 s2] eqn:E2. destruct (mint_spec _ _ _ _ _ E2) as [Hk0 [_ [H2 _]]].
    cbn. rewrite upd_neq by lia. congruence.
  - rewrite authorize_par_fst. unfold authorize_par0.
    destruct (key_of s uri) as [k0|]; [|assumption].
    destruct (par (st s) k0) as [pr|]; [|assumption].
    assert (Hd : upd (par (st s)) k0 None k = None) by (upd_case k k0; [reflexivity|assumption]).
    repeat match goal with |- context [if ?c then fail _ _ else _] => destruct c; [cbn; assumption|] end.
    apply AC; cbn; assumption.
  - match goal with |- context [device_authorize cfg s ?x1 ?x2 ?x3 ?x4] => unfold device_authorize end.
    destruct auth as [c|]; [|assumption]. destruct (clients s c) as [cl|]; [|assumption].
    repeat match goal with |- context [if ?c then fail s _ else _] => destruct c; [assumption|] end.
    destruct (fresh_rid s) as [rid s1] eqn:E1. destruct (fresh_rid_spec _ _ _ E1) as [_ [_ [H1 _]]].
    destruct (mint s1 KDevice rid) as [kd s2] eqn:E2. destruct (mint_spec _ _ _ _ _ E2) as [_ [_ [H2 _]]].
    destruct (mint s2 KUser rid) as [ku s3] eqn:E3. destruct (mint_spec _ _ _ _ _ E3) as [_ [_ [H3 _]]].
    cbn. congruence.
  - unfold decide.
    destruct (key_of s dev) as [k0|]; [|assumption].
    destruct (device (st s) k0) as [[b r]|]; [|assumption].
    destruct (expired _ _ _ _); assumption.
  - unfold device_poll.
    destruct auth as [c|]; [|assumption]. destruct (clients s c) as [cl|]; [|assumption].
    destruct (negb (args_has (cl_grants cl) _)); [assumption|].
    destruct (key_of s dev) as [k0|]; [|assumption].
    destruct (used_device cfg (st s) k0) as [rid|]; [cbn; rewrite RR, RA; assumption|].
    destruct (device (st s) k0) as [[stt r]|]; [|assumption].
    repeat match goal with |- context [if ?c then fail s _ else _] => destruct c; [assumption|] end.
    match goal with |- context [grant_tokens ?s2 ?stored ?w] =>
      pose proof (GT s2 stored w) as G; destruct (grant_tokens s2 stored w) as [s3 minted] end.
    cbn in *. rewrite G. assumption.
Qed.

Lemma par_gone_run cfg h : forall s k, k < next_key s -> par (st s) k = None -> par (st (run cfg s h)) k = None.
Proof.
  unfold run. induction h as [|o h IH]; intros s k Hk Hn; cbn [fold_left]; [assumption|].
  apply IH; [pose proof (next_key_step cfg s o); lia|now apply par_gone_step].
Qed.

(* one-time: once a request_uri has been presented (whatever the outcome), no later authorization starts from it *)
Theorem request_uri_one_time cfg cls h1 cp uri a h2 cp' uri' a' k pr :
  let s1 := run cfg (state0 cls) h1 in
  key_of s1 uri = Some k -> par (st s1) k = Some pr ->
  let s2 := run cfg (fst (authorize_par cfg s1 cp uri a)) h2 in
  key_of s2 uri' = Some k ->
  authorize_par cfg s2 cp' uri' a' = (s2, err_obs "invalid_request_uri").
Proof.
  intros s1 Hk Hp s2 Hk'.
  assert (I1 : Inv s1) by apply Inv_reachable.
  assert (Hlt : k < next_key s1).
  { unfold key_of in Hk. destruct (p_ref uri) as [i|]; [|discriminate].
    destruct (nth_error (log s1) i) as [e|] eqn:En; [|discriminate]. injection Hk as <-.
    exact (proj1 (inv_owner_fresh s1 I1 _ _ _ (inv_log_owner s1 I1 e (nth_error_In _ _ En)))). }
  assert (Hgone : par (st s2) k = None).
  { apply par_gone_run.
    - pose proof (next_key_step cfg s1 (OAuthorizePAR cp uri a)) as Hn. cbn [step] in Hn. lia.
    - eapply authorize_par_consumes; eassumption. }
  unfold authorize_par, authorize_par0. now rewrite Hk', Hgone.
Qed.

(* when pushing is enforced, an authorization request without a request_uri of the configured prefix is refused *)
Theorem enforced_par_refuses_plain_authorize cfg s a :
  cf_par_enforced cfg = true -> authorize cfg s a = (s, err_obs "invalid_request").
Proof. intros H. unfold authorize. now rewrite H. Qed.

(* authoritative: the authorization proceeds with the pushed redirect URI, scopes, audience and client, and with
   the pushed PKCE parameters whenever the pushed form carried them; the query only contributes the resource
   owner's decision (and PKCE parameters the pushed form did not contain) *)
Lemma pushed_parameters_authoritative0 cfg s cp uri a a' :
  az_granted a = az_granted a' -> az_gaud a = az_gaud a' -> az_subject a = az_subject a' ->
  (forall k pr, key_of s uri = Some k -> par (st s) k = Some pr ->
     (r_challenge pr = "" -> az_challenge a = az_challenge a') /\ (r_method pr = "" -> az_method a = az_method a')) ->
  authorize_par0 cfg s cp uri a = authorize_par0 cfg s cp uri a'.
Proof.
  intros Hg Hga Hs Hp. unfold authorize_par0.
  destruct (key_of s uri) as [k|] eqn:Ek; [|reflexivity].
  destruct (par (st s) k) as [pr|] eqn:Ep; [|reflexivity].
  destruct (Hp k pr eq_refl Ep) as [Hc Hm].
  destruct (before _ _); [reflexivity|].
  destruct (negb (Nat.eqb cp (r_client pr))); [reflexivity|].
  rewrite Hg, Hga, Hs.
  destruct (String.eqb_spec (r_challenge pr) ""); destruct (String.eqb_spec (r_method pr) "");
    rewrite ?Hc, ?Hm by assumption; reflexivity.
Qed.

(* whatever else the query carries - response_mode, redirect_uri, scope, audience, client-chosen values - is ignored *)
Theorem pushed_parameters_authoritative cfg s cp uri a a' :
  az_granted a = az_granted a' -> az_gaud a = az_gaud a' -> az_subject a = az_subject a' ->
  (forall k pr, key_of s uri = Some k -> par (st s) k = Some pr ->
     (r_challenge pr = "" -> az_challenge a = az_challenge a') /\ (r_method pr = "" -> az_method a = az_method a')) ->
  authorize_par cfg s cp uri a = authorize_par cfg s cp uri a'.
Proof.
  intros Hg Hga Hs Hp. unfold authorize_par.
  rewrite (pushed_parameters_authoritative0 cfg s cp uri a a' Hg Hga Hs Hp). reflexivity.
Qed.

(* the answer is written in the pushed response mode, whatever the query says *)
Theorem pushed_response_mode_authoritative cfg s cp uri a k pr :
  key_of s uri = Some k -> par (st s) k = Some pr -> r_mode pr <> "" -> r_mode pr <> "query" ->
  o_err (snd (authorize_par cfg s cp uri a)) = "" -> o_scopes (snd (authorize_par cfg s cp uri a)) = [r_mode pr].
Proof.
  intros Hk Hp Hm Hq. unfold authorize_par. rewrite Hk, Hp. unfold with_mode, reported_mode.
  destruct (String.eqb_spec (r_mode pr) "query"); [contradiction|].
  destruct (String.eqb_spec (o_err (snd (authorize_par0 cfg s cp uri a))) "") as [He|He]; cbn [andb].
  - destruct (String.eqb_spec (r_mode pr) ""); [contradiction|]. cbn. reflexivity.
  - intros H. contradiction.
Qed.
