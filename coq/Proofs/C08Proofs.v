(* Revocation (C08), history level. *)
From FositeModel Require Import Base.Str Model.Scope Model.Core Model.Flows Proofs.CoreInv Proofs.StepInv Proofs.Family Proofs.Implicit Proofs.Decay.

Arguments upd : simpl never.

Lemma revoke_is_step cfg s auth tok h : revoke cfg s auth tok h = step cfg s (ORevoke auth tok h).
Proof. reflexivity. Qed.

(* accepted revocation of a live token by its owner: the whole grant is inactive from then on *)
Theorem revoke_effective cfg cls h1 c cl tok hint0 r h2 i e tampered hint scopes :
  let s1 := run cfg (state0 cls) h1 in
  clients s1 c = Some cl -> revoke_lookup s1 (key_of s1 tok) hint0 = Some r -> r_client r = c ->
  endpoint_token s1 tok ->
  let res := revoke cfg s1 (Some c) tok hint0 in
  o_err (snd res) = "" /\
  (let s2 := run cfg (fst res) h2 in
   nth_error (log s2) i = Some e -> i_rid e = r_id r ->
   introspect cfg s2 {| p_ref := CRef i; p_tampered := tampered |} hint scopes = None).
Proof.
  intros s1 Hc Hl Hcl Hep res.
  assert (I1 : Inv s1) by apply Inv_reachable.
  destruct (revoke_kills_all cfg s1 c cl tok hint0 r I1 Hc Hl Hcl Hep) as [He Hd].
  split; [exact He|]. intros s2 Hn Hrid.
  assert (I2 : Inv (fst res)) by (unfold res; rewrite revoke_is_step; now apply Inv_step).
  assert (Hlt : r_id r < next_rid (fst res)).
  { pose proof (next_rid_step cfg s1 (ORevoke (Some c) tok hint0)) as Hm. cbn [step] in Hm.
    destruct (revoke_lookup_live _ _ _ _ Hl) as [k [_ [Ha|[[_ Hi]|Hr]]]].
    - pose proof (proj2 (inv_access_fresh s1 _ _ I1 Ha)). unfold res. lia.
    - pose proof (proj2 (inv_owner_fresh s1 I1 _ _ _ (inv_owner_implicit s1 I1 _ _ Hi))). unfold res. lia.
    - pose proof (proj2 (inv_refresh_fresh s1 _ _ _ I1 Hr)). unfold res. lia. }
  eapply dead_all_credential_inactive; [apply Inv_run; exact I2|apply dead_all_run; [exact Hd|exact Hlt]|exact Hn|exact Hrid].
Qed.

(* a different authenticated client: unauthorized_client, nothing changes *)
Theorem revoke_foreign_refused cfg s c cl tok h r :
  clients s c = Some cl -> revoke_lookup s (key_of s tok) h = Some r -> r_client r <> c ->
  revoke cfg s (Some c) tok h = (s, err_obs "unauthorized_client").
Proof.
  intros Hc Hl Hne. unfold revoke. rewrite Hc, Hl.
  destruct (Nat.eqb_spec (r_client r) c); [contradiction|reflexivity].
Qed.

(* no valid client authentication: invalid_client, nothing changes *)
Theorem revoke_unauthenticated cfg s tok h : revoke cfg s None tok h = (s, err_obs "invalid_client").
Proof. reflexivity. Qed.

(* unknown or already-invalid tokens (no live record: never issued, rotated away, revoked, deleted):
   success and nothing changes *)
Theorem revoke_invalid_token_noop cfg s c cl tok h :
  clients s c = Some cl -> revoke_lookup s (key_of s tok) h = None ->
  revoke cfg s (Some c) tok h = (s, ok_obs [] 0%Z []).
Proof. intros Hc Hl. unfold revoke. now rewrite Hc, Hl. Qed.

(* in a reachable state a key lives in at most one table, so the hint only orders the lookup *)
Theorem revoke_hint_irrelevant cfg cls hs auth tok h h' :
  let s := run cfg (state0 cls) hs in
  revoke cfg s auth tok h = revoke cfg s auth tok h'.
Proof.
  intros s. assert (I : Inv s) by apply Inv_reachable.
  assert (L : revoke_lookup s (key_of s tok) h = revoke_lookup s (key_of s tok) h').
  { unfold revoke_lookup, lookup_access. destruct (key_of s tok) as [k|]; cbn [find]; [|destruct h, h'; reflexivity].
    destruct (refresh (st s) k) as [[[|] rr]|] eqn:Er; destruct (access (st s) k) as [ra|] eqn:Ea;
      destruct (implicit (st s) k) as [ri|] eqn:Ei; try (destruct h, h'; reflexivity);
      exfalso; first [ pose proof (inv_access_not_refresh s k ra I Ea); congruence
                     | pose proof (inv_owner_implicit s I _ _ Ei) as H1; pose proof (inv_owner_refresh s I _ _ _ Er) as H2; congruence ]. }
  unfold revoke. destruct auth as [c|]; [|reflexivity]. destruct (clients s c); [|reflexivity]. now rewrite L.
Qed.

(* the revoked grant's death does not touch other grants *)
Theorem revoke_spares_other_grants cfg cls h1 c cl tok hint0 r i e tampered hint scopes :
  let s1 := run cfg (state0 cls) h1 in
  clients s1 c = Some cl -> revoke_lookup s1 (key_of s1 tok) hint0 = Some r -> r_client r = c ->
  nth_error (log s1) i = Some e -> i_rid e <> r_id r ->
  introspect cfg (fst (revoke cfg s1 (Some c) tok hint0)) {| p_ref := CRef i; p_tampered := tampered |} hint scopes
  = introspect cfg s1 {| p_ref := CRef i; p_tampered := tampered |} hint scopes.
Proof.
  intros s1 Hc Hl Hcl Hn Hne.
  assert (I : Inv s1) by apply Inv_reachable.
  unfold revoke. rewrite Hc, Hl, Hcl, Nat.eqb_refl. cbn [negb fst].
  apply introspect_ext; [reflexivity|reflexivity|].
  intros k0 Hk0. unfold key_of in Hk0. cbn in Hk0. rewrite Hn in Hk0. injection Hk0 as <-.
  assert (Ho : owner s1 (i_key e) = Some (i_kind e, i_rid e)) by (apply (inv_log_owner s1 I); eapply nth_error_In; eassumption).
  cbn [st set_store].
  pose proof (Inv_revoke_refresh s1 (r_id r) I) as I1.
  destruct (revoke_access_tables (fst (revoke_refresh (st s1) (r_id r))) (r_id r)) as [_ [Tr _]].
  destruct (revoke_refresh_tables (st s1) (r_id r)) as [_ [Ta _]].
  assert (Hno : forall kd, owner s1 (i_key e) <> Some (kd, r_id r)) by (intros kd; rewrite Ho; congruence).
  assert (Ti : implicit (fst (revoke_refresh (st s1) (r_id r))) = implicit (st s1)).
  { unfold revoke_refresh. destruct (rt_idx _ _) as [k1|]; [destruct (refresh _ k1) as [[? ?]|]|]; reflexivity. }
  destruct (revoke_access_frame (set_store s1 (fst (revoke_refresh (st s1) (r_id r)))) (r_id r) (i_key e) I1 Hno) as [Fa Fi].
  cbn in Fa, Fi.
  split; [rewrite Fa, Ta; reflexivity|]. split; [rewrite Fi, Ti; reflexivity|].
  rewrite Tr. apply revoke_refresh_frame; [assumption|]. rewrite Ho. congruence.
Qed.

(* the authorization endpoint's token of a hybrid / implicit grant, over reachable states *)
Theorem revoked_implicit_token_reachable cfg cls h1 c cl tok hnt r h2 i e tampered h scopes :
  let s := run cfg (state0 cls) h1 in
  clients s c = Some cl -> revoke_lookup s (key_of s tok) hnt = Some r -> r_client r = c ->
  let s' := fst (revoke cfg s (Some c) tok hnt) in
  nth_error (log (run cfg s' h2)) i = Some e -> i_rid e = r_id r -> i_kind e = KImplicit ->
  introspect cfg (run cfg s' h2) {| p_ref := CRef i; p_tampered := tampered |} h scopes = None.
Proof.
  intros s Hc Hl Hcl s'. apply (revoked_implicit_token_stays_inactive cfg s c cl tok hnt r h2 i e tampered h scopes); try assumption.
  apply Inv_reachable.
Qed.
