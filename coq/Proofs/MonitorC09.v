(* C09: the clause of the history monitor (Cases/Monitors.v judge_C09 / rt_silent) "with refresh-token introspection
   disabled no refresh token is ever reported active, under any hint" holds of the model's probe vector in every state. *)
From FositeModel Require Import Base.Str Model.Scope Model.Core Model.Flows Cases.Common Cases.CasesHist Cases.Monitors
     Proofs.CoreInv Proofs.StepInv Proofs.StepProps.

Lemma introspect_without_rt cfg s tok h scopes p :
  cf_introspect_rt cfg = false -> introspect cfg s tok h scopes = Some p -> pl_use p = KAccess.
Proof.
  intros Hc. unfold introspect. rewrite Hc. cbn [negb]. intros H.
  apply introspect_access_truth in H as [k [r [_ [_ [_ [_ [_ ->]]]]]]]. reflexivity.
Qed.

Theorem rt_silent_model cfg s : rt_silent cfg (probes cfg s) = true.
Proof.
  unfold rt_silent. destruct (cf_introspect_rt cfg) eqn:Hc; [reflexivity|]. cbn [orb].
  unfold probes. generalize 0 as i. induction (log s) as [|e l IH]; intros i; cbn [probes_from forallb]; [reflexivity|].
  rewrite IH, Bool.andb_true_r. unfold probe_one.
  destruct (i_kind e); try reflexivity;
    match goal with |- context [introspect cfg s ?t ?h ?sc] =>
      destruct (introspect cfg s t h sc) as [p|] eqn:E; [rewrite (introspect_without_rt _ _ _ _ _ _ Hc E)|]; reflexivity end.
Qed.

