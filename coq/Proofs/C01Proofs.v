(* History-level statements for C01, assembled from the state-level lemmas. *)
From FositeModel Require Import Base.Str Model.Scope Model.Core Model.Flows Proofs.CoreInv Proofs.StepInv Proofs.Family Proofs.Implicit Proofs.Decay.

Lemma redeem_is_step cfg s auth code redirect v vh sm :
  redeem cfg s auth code redirect v vh = step cfg s (ORedeem auth code redirect v vh sm).
Proof. reflexivity. Qed.

Theorem code_single_use cfg cls h1 auth code redirect v vh h2 auth' code' redirect' v' vh' :
  let s1 := run cfg (state0 cls) h1 in
  let res1 := redeem cfg s1 auth code redirect v vh in
  o_err (snd res1) = "" ->
  let s2 := run cfg (fst res1) h2 in
  key_of s2 code' = key_of s1 code ->
  let res2 := redeem cfg s2 auth' code' redirect' v' vh' in
  o_err (snd res2) <> "" /\ o_minted (snd res2) = [] /\
  (forall c cl, auth' = Some c -> clients s2 c = Some cl ->
                args_has (cl_grants cl) ["authorization_code"] = true -> o_err (snd res2) = "invalid_grant").
Proof.
  intros s1 res1 Hok s2 Hkey res2.
  destruct (redeem_ok_consumes cfg s1 auth code redirect v vh Hok) as [k [r [Hk [Hact [r' [Hin Hr]]]]]].
  assert (I1 : Inv s1) by apply Inv_reachable.
  assert (I2 : Inv (fst res1)).
  { unfold res1. rewrite (redeem_is_step _ _ _ _ _ _ _ []). now apply Inv_step. }
  destruct (code_inactive_run cfg h2 (fst res1) k r' I2 Hin) as [r'' [Hin2 _]].
  apply (redeem_used_fails cfg s2 auth' code' redirect' v' vh' k r''); [congruence|exact Hin2].
Qed.

Theorem replay_kills_family cfg cls h1 c cl code redirect v vh k r h2 i e tampered hint scopes :
  let s1 := run cfg (state0 cls) h1 in
  clients s1 c = Some cl -> args_has (cl_grants cl) ["authorization_code"] = true ->
  key_of s1 code = Some k -> codes (st s1) k = Some (false, r) ->
  let res := redeem cfg s1 (Some c) code redirect v vh in
  o_err (snd res) = "invalid_grant" /\ o_minted (snd res) = [] /\
  (let s2 := run cfg (fst res) h2 in
   nth_error (log s2) i = Some e -> i_rid e = r_id r ->
   introspect cfg s2 {| p_ref := CRef i; p_tampered := tampered |} hint scopes = None).
Proof.
  intros s1 Hc Hg Hk Hcode res.
  assert (I1 : Inv s1) by apply Inv_reachable.
  destruct (replay_kills_all cfg s1 c cl code redirect v vh k r I1 Hc Hg Hk Hcode) as [He [Hm Hd]].
  split; [exact He|split; [exact Hm|]].
  intros s2 Hn Hrid.
  assert (I2 : Inv (fst res)).
  { unfold res. rewrite (redeem_is_step _ _ _ _ _ _ _ []). now apply Inv_step. }
  assert (Hlt : r_id r < next_rid (fst res)).
  { pose proof (next_rid_step cfg s1 (ORedeem (Some c) code redirect v vh [])) as Hm'.
    cbn [step] in Hm'. pose proof (proj2 (inv_code_fresh s1 _ _ _ I1 Hcode)). unfold res. lia. }
  eapply dead_all_credential_inactive; [apply Inv_run; exact I2|apply dead_all_run; [exact Hd|exact Hlt]|exact Hn|exact Hrid].
Qed.

Theorem replay_spares_other_grants cfg cls h1 c cl code redirect v vh k r i e tampered hint scopes :
  let s1 := run cfg (state0 cls) h1 in
  clients s1 c = Some cl -> args_has (cl_grants cl) ["authorization_code"] = true ->
  key_of s1 code = Some k -> codes (st s1) k = Some (false, r) ->
  nth_error (log s1) i = Some e -> i_rid e <> r_id r ->
  introspect cfg (fst (redeem cfg s1 (Some c) code redirect v vh)) {| p_ref := CRef i; p_tampered := tampered |} hint scopes
  = introspect cfg s1 {| p_ref := CRef i; p_tampered := tampered |} hint scopes.
Proof. intros s1. apply replay_frame. apply Inv_reachable. Qed.

(* ---- non-vacuity: a concrete history in which a code is redeemed, refreshed, and replayed ---- *)
Definition ex_cfg : config :=
  {| cf_scope := SWildcard; cf_aud_exact := false; cf_refresh_scopes := ["offline"]; cf_life_code := 600000%Z;
     cf_life_at := 3600000%Z; cf_life_rt := (-1)%Z; cf_pkce_enforce := false; cf_pkce_enforce_public := false;
     cf_pkce_plain := false; cf_introspect_rt := true; cf_life_dev := 600000%Z; cf_par_life := 300000%Z;
     cf_par_enforced := false; cf_dev_contract := false |}.
Definition ex_client : client :=
  {| cl_public := false; cl_grants := ["authorization_code"; "refresh_token"]; cl_scopes := ["offline"; "photos"]; cl_aud := []; cl_life := None |}.
Definition ex_authz : authz :=
  {| az_rtype := RCode; az_client := 0; az_redirect := ""; az_scopes := ["offline"; "photos"]; az_granted := ["offline"; "photos"];
     az_aud := []; az_gaud := []; az_subject := "alice"; az_challenge := ""; az_method := ""; az_mode := "" |}.
Definition cr i := {| p_ref := CRef i; p_tampered := false |}.
Definition ex_history : list op :=
  [OAuthorize ex_authz; ORedeem (Some 0) (cr 0) "" "" "" []; ORefresh (Some 0) (cr 2) []; OAdvance 1000%Z].

Example replay_example :
  let s1 := run ex_cfg (state0 (fun i => if Nat.eqb i 0 then Some ex_client else None)) ex_history in
  (exists r, codes (st s1) 0 = Some (false, r)) /\
  introspect ex_cfg s1 (cr 3) HAccess [] <> None /\ introspect ex_cfg s1 (cr 4) HRefresh [] <> None /\
  let res := redeem ex_cfg s1 (Some 0) (cr 0) "" "" "" in
  o_err (snd res) = "invalid_grant" /\
  introspect ex_cfg (fst res) (cr 3) HAccess [] = None /\ introspect ex_cfg (fst res) (cr 4) HRefresh [] = None.
Proof. vm_compute. repeat split; try discriminate; eauto. Qed.
