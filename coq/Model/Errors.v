(* errors.go: RFC6749Error, its builders and its three renderings (GetDescription, MarshalJSON in
   the new and the legacy format, ToValues), ErrorToRFC6749Error and errors.Is over a wrap chain.
   Model definitions only.  encoding/json, url.Values.Encode and html/template are not modelled:
   the renderings are abstract objects (field lists / multimaps) that the harness obtains back
   from the written bytes with the Go standard library decoders.
   The i18n catalogue is the identity (no catalogue configured). *)
From FositeModel Require Export Base.Str.

Definition dq : ascii := ascii_of_nat 34.   (* the double quote *)
Definition sq : ascii := ascii_of_nat 39.   (* the single quote *)

(* strings.ReplaceAll: every double quote becomes a single quote *)
Fixpoint replace_dq (s : string) : string :=
  match s with
  | EmptyString => EmptyString
  | String c r => String (if Ascii.eqb c dq then sq else c) (replace_dq r)
  end.

Definition nonempty (s : string) : bool := negb (String.eqb s "").

Record rfcerr := mkErr {
  e_name : string;     (* ErrorField *)
  e_desc : string;     (* DescriptionField *)
  e_hint : string;     (* HintField *)
  e_code : Z;          (* CodeField *)
  e_debug : string;    (* DebugField *)
  e_legacy : bool;     (* useLegacyFormat *)
  e_expose : bool      (* exposeDebug *)
}.

Definition with_hint (h : string) (e : rfcerr) :=
  mkErr (e_name e) (e_desc e) h (e_code e) (e_debug e) (e_legacy e) (e_expose e).
Definition with_debug (d : string) (e : rfcerr) :=
  mkErr (e_name e) (e_desc e) (e_hint e) (e_code e) d (e_legacy e) (e_expose e).
Definition with_description (d : string) (e : rfcerr) :=
  mkErr (e_name e) d (e_hint e) (e_code e) (e_debug e) (e_legacy e) (e_expose e).
Definition with_legacy (b : bool) (e : rfcerr) :=
  mkErr (e_name e) (e_desc e) (e_hint e) (e_code e) (e_debug e) b (e_expose e).
Definition with_expose (b : bool) (e : rfcerr) :=
  mkErr (e_name e) (e_desc e) (e_hint e) (e_code e) (e_debug e) (e_legacy e) b.
(* the deprecated RFC6749Error.Sanitize *)
Definition sanitize_err (e : rfcerr) := with_debug "" e.

(* GetDescription *)
Definition get_description (e : rfcerr) : string :=
  let d0 := e_desc e in
  let d1 := if nonempty (e_hint e) then d0 ++ " " ++ e_hint e else d0 in
  let d2 := if nonempty (e_debug e) && e_expose e then d1 ++ " " ++ e_debug e else d1 in
  replace_dq d2.

(* JSON values as far as the writers produce them *)
Inductive jval := JS (s : string) | JN (n : Z) | JB (b : bool) | JNull.
Definition jobj := list (string * jval).

Definition opt_str (k v : string) : jobj := if nonempty v then [(k, JS v)] else [].

(* MarshalJSON: RFC6749ErrorJson with its omitempty tags *)
Definition marshal_json (e : rfcerr) : jobj :=
  if negb (e_legacy e) then
    [("error", JS (e_name e)); ("error_description", JS (get_description e))]
  else
    let debug := if e_expose e then e_debug e else "" in
    ([("error", JS (e_name e)); ("error_description", JS (e_desc e))]
     ++ opt_str "error_hint" (e_hint e)
     ++ (if Z.eqb (e_code e) 0 then [] else [("status_code", JN (e_code e))])
     ++ opt_str "error_debug" debug)%list.

(* url.Values / http.Header: key -> list of values, keys unique *)
Definition values := list (string * list string).
Fixpoint vget (k : string) (m : values) : list string :=
  match m with
  | [] => []
  | (k', vs) :: r => if String.eqb k k' then vs else vget k r
  end.
Fixpoint vset (k v : string) (m : values) : values :=
  match m with
  | [] => [(k, [v])]
  | (k', vs) :: r => if String.eqb k k' then (k, [v]) :: r else (k', vs) :: vset k v r
  end.
Fixpoint vadd (k v : string) (m : values) : values :=
  match m with
  | [] => [(k, [v])]
  | (k', vs) :: r => if String.eqb k k' then (k, (vs ++ [v])%list) :: r else (k', vs) :: vadd k v r
  end.
Definition vfirst (k : string) (m : values) : string :=
  match vget k m with v :: _ => v | [] => "" end.

(* ToValues *)
Definition to_values (e : rfcerr) : values :=
  let v0 := vset "error_description" (get_description e) (vset "error" (e_name e) []) in
  if e_legacy e then
    let v1 := vset "error_description" (e_desc e) v0 in
    let v2 := if nonempty (e_hint e) then vset "error_hint" (e_hint e) v1 else v1 in
    if nonempty (e_debug e) && e_expose e then vset "error_debug" (e_debug e) v2 else v2
  else v0.

(* A Go error value as the writers see it: a chain of wrapped RFC6749Errors (outermost first,
   each wrapping the next through WithWrap) that may end in a foreign error (errors.New msg). *)
Record goerr := mkGo { g_rfcs : list rfcerr; g_tail : option string }.

(* ErrorToRFC6749Error: errors.As finds the outermost RFC6749Error; otherwise the catch-all *)
Definition unrecognizable (msg : string) : rfcerr :=
  mkErr "error" "The error is unrecognizable" "" 500 msg false false.
Definition as_rfc (g : goerr) : rfcerr :=
  match g_rfcs g with
  | e :: _ => e
  | [] => unrecognizable (match g_tail g with Some m => m | None => "" end)
  end.

(* errors.Is(err, target) for a target *RFC6749Error: RFC6749Error.Is compares ErrorField and CodeField *)
Definition err_is (g : goerr) (name : string) (code : Z) : bool :=
  existsb (fun e => String.eqb (e_name e) name && Z.eqb (e_code e) code) (g_rfcs g).
