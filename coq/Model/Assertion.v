(* C15 - JWT assertions: model (executable, no proofs).

   Transliteration of
     client_authentication.go   DefaultClientAuthenticationStrategy, private_key_jwt branch,
                                findPublicKey, audienceMatchesTokenURL(s)
     token/jwt/map_claims.go    MapClaims.Valid / toInt64 / verifyExp / verifyIat / verifyNbf /
                                VerifyIssuer / VerifyAudience
     token/jwt/token.go         ParseWithClaims: order keyfunc -> signature -> claims.Valid and the
                                error wrapping that decides which error class leaves the function
     handler/rfc7523/handler.go HandleTokenEndpointRequest, CheckRequest, validateTokenPreRequisites,
                                findPublicKeyForToken, validateTokenClaims
     access_request_handler.go  the part of NewAccessRequest around AuthenticateClient / CanSkipClientAuth
     storage/memory.go          ClientAssertionJWTValid, SetClientAssertionJWT (with its purge),
                                IsJWTUsed, MarkJWTUsedForTime

   NOT modelled (computed by the harness with Go / go-jose and passed in as fields):
     * compact-JWS parsing and JSON decoding of the header and the claim set ([ca_parse], [ba_parse],
       [ba_claims_ok], the typed claim values);
     * signature verification: [ca_ver] / [ba_ver] list the key pairs (numbers of the harness' key
       pool) under which go-jose verifies the token with the algorithm its header names;
     * float64 -> int64 conversion of numeric claims (Go's conversion; the int64 is passed).
   Time: [now] is the clock in milliseconds; claim times are whole seconds. *)
From FositeModel Require Export Base.Str Model.Scope.

(* ------------------------------------------------------------------ replay memory (storage/memory.go) *)
Definition jstore := list (string * Z).      (* jti -> exp (seconds); BlacklistedJTIs *)

Fixpoint jget (s : jstore) (j : string) : option Z :=
  match s with
  | [] => None
  | (k, e) :: r => if String.eqb k j then Some e else jget r j
  end.

(* time.Unix(e,0).After(now) / .Before(now) with now in ms *)
Definition after_now (now e : Z) : bool := Z.ltb now (e * 1000).
Definition before_now (now e : Z) : bool := Z.ltb (e * 1000) now.

(* ClientAssertionJWTValid(jti) == nil      (IsJWTUsed = negation) *)
Definition jti_valid (now : Z) (s : jstore) (j : string) : bool :=
  match jget s j with
  | Some e => negb (after_now now e)
  | None => true
  end.

(* "delete expired jtis" *)
Definition purge (now : Z) (s : jstore) : jstore :=
  filter (fun p => negb (before_now now (snd p))) s.

(* SetClientAssertionJWT / MarkJWTUsedForTime: the purge happens also when the call fails *)
Definition jti_set (now : Z) (s : jstore) (j : string) (e : Z) : jstore * bool :=
  let s1 := purge now s in
  match jget s1 j with
  | Some _ => (s1, false)            (* ErrJTIKnown *)
  | None => ((j, e) :: s1, true)
  end.

(* ------------------------------------------------------------------ errors and results *)
Inductive err :=
| EInvalidRequest | EInvalidClient | EJtiKnown | EMisconfig | EPlain
| EInvalidGrant | EInvalidScope | EUnauthorizedClient | EServerError.

(* name and status as ErrorToRFC6749Error reports them; EPlain is an error value that is not an
   RFC6749Error (the Inner of a jwt.ValidationError) and renders as "error"/500 *)
Definition err_name (e : err) : string :=
  match e with
  | EInvalidRequest => "invalid_request" | EInvalidClient => "invalid_client"
  | EJtiKnown => "jti_known" | EMisconfig => "misconfiguration" | EPlain => "error"
  | EInvalidGrant => "invalid_grant" | EInvalidScope => "invalid_scope"
  | EUnauthorizedClient => "unauthorized_client" | EServerError => "server_error"
  end.
Definition err_code (e : err) : Z :=
  match e with
  | EInvalidRequest => 400 | EInvalidClient => 401 | EJtiKnown => 400 | EMisconfig => 500
  | EPlain => 500 | EInvalidGrant => 400 | EInvalidScope => 400
  | EUnauthorizedClient => 400 | EServerError => 500
  end%Z.

(* Acc client subject: client = id of the authenticated client ("" = none), subject = session subject *)
Inductive res := Acc (client subject : string) | Rej (e : err).

(* ------------------------------------------------------------------ one request as a program over the jti store
   Both the client-assertion check and the JWT-bearer grant have the shape
     pure checks ; [jti valid?] ; pure checks ; [test-and-set jti] ; pure checks
   [f_pre]  = error, or the jti to look up (None: the bearer grant without jti skips both calls)
   [f_mid]  = error, or the exp handed to the test-and-set
   [f_kerr] = error class reported when the test-and-set answers ErrJTIKnown
   [f_post] = the final verdict *)
Record jflow := {
  f_pre : err + option string;
  f_mid : err + Z;
  f_kerr : err;
  f_post : res }.

Definition run_flow (now : Z) (st : jstore) (f : jflow) : jstore * res :=
  match f_pre f with
  | inl e => (st, Rej e)
  | inr None => (st, match f_mid f with inl e => Rej e | inr _ => f_post f end)
  | inr (Some j) =>
      if negb (jti_valid now st j) then (st, Rej EJtiKnown)
      else match f_mid f with
           | inl e => (st, Rej e)
           | inr x =>
               let (st', ok) := jti_set now st j x in
               if ok then (st', f_post f) else (st', Rej (f_kerr f))
           end
  end.

(* ------------------------------------------------------------------ claim values of a MapClaims *)
Inductive jval :=
| JAbsent | JNull
| JStr (s : string)
| JInt (z : Z)                       (* int64 *)
| JFloat (z : Z)                     (* float64; z = Go's int64(f) *)
| JBool (b : bool)
| JList (l : list (option string))   (* Some s = string element, None = element of another type *)
| JObj.

(* MapClaims.toInt64 (json.Number does not occur: the decoder is set to UnmarshalIntOrFloat) *)
Definition to_int64 (v : jval) : option Z :=
  match v with JInt z => Some z | JFloat z => Some z | _ => None end.

Definition unix (now : Z) : Z := Z.div now 1000.

(* verifyExp / verifyIat / verifyNbf with required = false, as MapClaims.Valid calls them *)
Definition verify_exp (v : jval) (now_s : Z) : bool :=
  match to_int64 v with Some e => if Z.eqb e 0 then true else Z.leb now_s e | None => true end.
Definition verify_notafter (v : jval) (now_s : Z) : bool :=      (* iat and nbf: now >= claim *)
  match to_int64 v with Some t => if Z.eqb t 0 then true else Z.leb t now_s | None => true end.
Definition claims_valid (now : Z) (exp iat nbf : jval) : bool :=
  verify_exp exp (unix now) && verify_notafter iat (unix now) && verify_notafter nbf (unix now).

(* audienceMatchesTokenURL *)
Definition aud_match1 (aud : jval) (tu : string) : bool :=
  match aud with
  | JList l => existsb (fun it => match it with Some a => String.eqb a tu | None => false end) l
  | JStr s => String.eqb s tu
  | _ => false
  end.
Definition aud_matches (aud : jval) (tus : list string) : bool := existsb (aud_match1 aud) tus.

(* ------------------------------------------------------------------ registrations *)
Inductive kty := KRsa | KEc | KOther.
Definition kty_eqb (a b : kty) : bool :=
  match a, b with KRsa, KRsa | KEc, KEc | KOther, KOther => true | _, _ => false end.
Record jwk := { k_kid : string; k_use : string; k_kty : kty; k_kp : nat }.

Record client := {
  c_id : string;
  c_oidc : bool;                 (* implements OpenIDConnectClient *)
  c_method : string;             (* token_endpoint_auth_method *)
  c_alg : string;                (* token_endpoint_auth_signing_alg *)
  c_jwks : option (list jwk);    (* JSONWebKeys; None: no set and no jwks_uri *)
  c_grants : list string }.

Fixpoint find_client (cs : list client) (id : string) : option client :=
  match cs with
  | [] => None
  | c :: r => if String.eqb (c_id c) id then Some c else find_client r id
  end.

Inductive alg_class := ARsa | AEc | AHs | AOtherAlg.
Definition alg_class_of (a : string) : alg_class :=
  if mem a ["RS256"; "RS384"; "RS512"; "PS256"; "PS384"; "PS512"] then ARsa
  else if mem a ["ES256"; "ES384"; "ES512"] then AEc
  else if mem a ["HS256"; "HS384"; "HS512"] then AHs
  else AOtherAlg.

(* findPublicKey: kid "" = the header carries no kid *)
Definition key_eligible (rsa : bool) (k : jwk) : bool :=
  String.eqb (k_use k) "sig" && kty_eqb (k_kty k) (if rsa then KRsa else KEc).
Definition find_public_key (keys : list jwk) (kid : string) (rsa : bool) : option jwk :=
  match keys with
  | [] => None
  | _ =>
    let ks := if String.eqb kid "" then keys else filter (fun k => String.eqb (k_kid k) kid) keys in
    find (key_eligible rsa) ks
  end.

(* ------------------------------------------------------------------ private_key_jwt *)
Definition assertion_type : string := "urn:ietf:params:oauth:client-assertion-type:jwt-bearer".

Record cassert := {
  ca_type : string;        (* form client_assertion_type *)
  ca_empty : bool;         (* form client_assertion is empty *)
  ca_form_cid : string;    (* form client_id *)
  ca_parse : bool;         (* go-jose parses the compact JWS and the payload is a JSON object *)
  ca_alg : string;         (* header alg *)
  ca_kid : string;         (* header kid, "" = none *)
  ca_ver : list nat;       (* key pairs under which the signature verifies *)
  ca_iss : jval; ca_sub : jval; ca_aud : jval; ca_exp : jval; ca_iat : jval; ca_nbf : jval; ca_jti : jval }.

Definition jstr_is (v : jval) (s : string) : bool :=
  match v with JStr x => String.eqb x s | _ => false end.

(* everything up to, not including, ClientAssertionJWTValid *)
Definition ca_pre (tus : list string) (clients : list client) (now : Z) (a : cassert) : err + (string * string) :=
  if negb (String.eqb (ca_type a) assertion_type) then inl EInvalidRequest
  else if ca_empty a then inl EInvalidRequest
  else if negb (ca_parse a) then inl EInvalidClient
  else
    match (if String.eqb (ca_form_cid a) "" then match ca_sub a with JStr s => Some s | _ => None end
           else Some (ca_form_cid a)) with
    | None => inl EInvalidClient
    | Some cid =>
      match find_client clients cid with
      | None => inl EInvalidClient
      | Some c =>
        if negb (c_oidc c) then inl EInvalidRequest
        else if negb (String.eqb (c_method c) "private_key_jwt") then inl EInvalidClient
        else if negb (String.eqb (c_alg c) (ca_alg a)) then inl EInvalidClient
        else
          match alg_class_of (ca_alg a) with
          | AHs | AOtherAlg => inl EInvalidClient
          | cls =>
            match c_jwks c with
            | None => inl EInvalidClient
            | Some keys =>
              match find_public_key keys (ca_kid a) (match cls with ARsa => true | _ => false end) with
              | None => inl EInvalidRequest
              | Some k =>
                if negb (existsb (Nat.eqb (k_kp k)) (ca_ver a)) then inl EInvalidClient
                else if negb (claims_valid now (ca_exp a) (ca_iat a) (ca_nbf a)) then inl EInvalidClient
                else if negb (jstr_is (ca_iss a) cid && negb (String.eqb cid "")) then inl EInvalidClient
                else match tus with [] => inl EMisconfig | _ =>
                  if negb (jstr_is (ca_sub a) cid) then inl EInvalidClient
                  else match ca_jti a with
                       | JStr j => if String.eqb j "" then inl EInvalidClient else inr (cid, j)
                       | _ => inl EInvalidClient
                       end
                  end
              end
            end
          end
      end
    end.

Definition ca_flow (tus : list string) (clients : list client) (now : Z) (a : cassert) : jflow :=
  match ca_pre tus clients now a with
  | inl e => {| f_pre := inl e; f_mid := inl e; f_kerr := EJtiKnown; f_post := Rej e |}
  | inr (cid, j) =>
      {| f_pre := inr (Some j);
         (* the exp type switch, then (fix 3e32ae1) the expiry instant judged as the replay memory judges
            it: time.Unix(expiry, 0).Before(time.Now()) => invalid_client, before the test-and-set *)
         f_mid := match to_int64 (ca_exp a) with
                  | Some e => if before_now now e then inl EInvalidClient else inr e
                  | None => inl EInvalidClient
                  end;
         f_kerr := EJtiKnown;
         f_post := if aud_matches (ca_aud a) tus then Acc cid "" else Rej EInvalidClient |}
  end.

Definition client_auth (tus : list string) (clients : list client) (now : Z) (st : jstore) (a : cassert)
  : jstore * res := run_flow now st (ca_flow tus clients now a).

(* ------------------------------------------------------------------ JWT-bearer grant *)
Definition grant_jwt_bearer : string := "urn:ietf:params:oauth:grant-type:jwt-bearer".

Record bassert := {
  ba_empty : bool;            (* form assertion is empty *)
  ba_parse : bool;            (* jwt.ParseSigned succeeds *)
  ba_claims_ok : bool;        (* the payload decodes into go-jose's jwt.Claims *)
  ba_kid : string;            (* header kid, "" = none *)
  ba_ver : list nat;
  ba_iss : string; ba_sub : string; ba_aud : list string;
  ba_exp : option Z; ba_nbf : option Z; ba_iat : option Z;
  ba_jti : string;
  ba_scopes : list string }.  (* requested scopes *)

(* one entry of IssuerPublicKeys: issuer, subject, kid -> key, scopes *)
Record ikey := { ik_iss : string; ik_sub : string; ik_kid : string; ik_kp : nat; ik_scopes : list string }.

Record bcfg := {
  b_skip_auth : bool;         (* GrantTypeJWTBearerCanSkipClientAuth *)
  b_id_optional : bool;       (* GrantTypeJWTBearerIDOptional *)
  b_iat_optional : bool;      (* GrantTypeJWTBearerIssuedDateOptional *)
  b_max_ms : Z;               (* GrantTypeJWTBearerMaxDuration in ms; 0 = default one day *)
  b_strategy : scope_strategy }.

Definition max_duration (c : bcfg) : Z := if Z.eqb (b_max_ms c) 0 then 86400000%Z else b_max_ms c.

Definition ik_for (iss sub : string) (k : ikey) : bool :=
  String.eqb (ik_iss k) iss && String.eqb (ik_sub k) sub.

(* findPublicKeyForToken *)
Definition find_issuer_key (iks : list ikey) (b : bassert) : option ikey :=
  let mine := filter (ik_for (ba_iss b) (ba_sub b)) iks in
  if String.eqb (ba_kid b) "" then find (fun k => existsb (Nat.eqb (ik_kp k)) (ba_ver b)) mine
  else find (fun k => String.eqb (ik_kid k) (ba_kid b)) mine.

Definition any_in (xs ys : list string) : bool := existsb (fun x => mem x ys) xs.

(* validateTokenClaims up to, not including, IsJWTUsed *)
Definition ba_claims_check (cfg : bcfg) (tus : list string) (now : Z) (b : bassert) : option err :=
  match ba_aud b with [] => Some EInvalidGrant | _ =>
  if negb (any_in tus (ba_aud b)) then Some EInvalidGrant
  else match ba_exp b with
  | None => Some EInvalidGrant
  | Some e =>
    if before_now now e then Some EInvalidGrant
    else if (match ba_nbf b with Some n => negb (before_now now n) | None => false end) then Some EInvalidGrant
    else if negb (b_iat_optional cfg) && (match ba_iat b with None => true | Some _ => false end) then Some EInvalidGrant
    else
      let issued := match ba_iat b with Some i => (i * 1000)%Z | None => now end in
      if Z.ltb (max_duration cfg) (e * 1000 - issued) then Some EInvalidGrant
      else if negb (b_id_optional cfg) && String.eqb (ba_jti b) "" then Some EInvalidGrant
      else None
  end end.

(* [cl]: the client set on the access request: its id and grant types ("" / [] when none) *)
Definition ba_flow (cfg : bcfg) (tus : list string) (iks : list ikey) (now : Z)
           (cl_id : string) (cl_grants : list string) (b : bassert) : jflow :=
  let fail e := {| f_pre := inl e; f_mid := inl e; f_kerr := EServerError; f_post := Rej e |} in
  if negb (b_skip_auth cfg) && negb (args_has cl_grants [grant_jwt_bearer]) then fail EUnauthorizedClient
  else if ba_empty b then fail EInvalidRequest
  else if negb (ba_parse b) then fail EInvalidGrant
  else if negb (ba_claims_ok b) then fail EInvalidGrant
  else if String.eqb (ba_iss b) "" then fail EInvalidGrant
  else if String.eqb (ba_sub b) "" then fail EInvalidGrant
  else match find_issuer_key iks b with
  | None => fail EInvalidGrant
  | Some k =>
    if negb (existsb (Nat.eqb (ik_kp k)) (ba_ver b)) then fail EInvalidGrant
    else match ba_claims_check cfg tus now b with
    | Some e => fail e
    | None =>
      {| f_pre := inr (if String.eqb (ba_jti b) "" then None else Some (ba_jti b));
         f_mid := if forallb (scope_match (b_strategy cfg) (ik_scopes k)) (ba_scopes b)
                  then inr (match ba_exp b with Some e => e | None => 0%Z end)
                  else inl EInvalidScope;
         f_kerr := EServerError;
         f_post := Acc cl_id (ba_sub b) |}
    end
  end.

(* ------------------------------------------------------------------ histories *)
Record world := {
  w_tus : list string;          (* GetTokenURLs *)
  w_clients : list client;
  w_ikeys : list ikey;
  w_bcfg : bcfg }.

Inductive op :=
| OTick (ms : Z)                                  (* the clock advances by max 0 ms *)
| OAuth (a : cassert)                             (* AuthenticateClient with a client assertion *)
| OGrant (ca : option cassert) (b : bassert).     (* NewAccessRequest, grant_type = jwt-bearer, optional private_key_jwt *)

Record state := { now : Z; jt : jstore }.

(* the NewAccessRequest part: authenticate, then the handler unless client authentication is
   required and failed.  Without a client assertion the request carries no credentials at all:
   AuthenticateClient answers invalid_request. *)
Definition grant_request (w : world) (nw : Z) (st : jstore) (ca : option cassert) (b : bassert) : jstore * res :=
  let '(st1, cres) := match ca with
                      | Some a => client_auth (w_tus w) (w_clients w) nw st a
                      | None => (st, Rej EInvalidRequest)
                      end in
  match cres with
  | Rej e =>
      if negb (b_skip_auth (w_bcfg w)) then (st1, Rej e)
      else run_flow nw st1 (ba_flow (w_bcfg w) (w_tus w) (w_ikeys w) nw "" [] b)
  | Acc cid _ =>
      let grants := match find_client (w_clients w) cid with Some c => c_grants c | None => [] end in
      run_flow nw st1 (ba_flow (w_bcfg w) (w_tus w) (w_ikeys w) nw cid grants b)
  end.

Definition step (w : world) (s : state) (o : op) : state * res :=
  match o with
  | OTick d => ({| now := now s + Z.max 0 d; jt := jt s |}, Acc "" "")
  | OAuth a =>
      let (st', r) := client_auth (w_tus w) (w_clients w) (now s) (jt s) a in
      ({| now := now s; jt := st' |}, r)
  | OGrant ca b =>
      let (st', r) := grant_request w (now s) (jt s) ca b in
      ({| now := now s; jt := st' |}, r)
  end.

Fixpoint run (w : world) (s : state) (ops : list op) : state * list res :=
  match ops with
  | [] => (s, [])
  | o :: r =>
      let (s1, x) := step w s o in
      let (s2, xs) := run w s1 r in
      (s2, x :: xs)
  end.

Definition state0 : state := {| now := 0; jt := [] |}.

(* ------------------------------------------------------------------ interleavings
   Each thread executes one [jflow]; the two storage calls are the atomic steps (the atomicity of a
   single store method is property C19).  The clock does not move during a race. *)
Inductive tstate :=
| TStart
| TChecked (j : string)
| TDone (r : res) (won : bool).     (* won: this thread's test-and-set succeeded *)

Definition thread := (jflow * tstate)%type.

Definition tstep (nw : Z) (st : jstore) (t : thread) : jstore * thread :=
  let (f, ts) := t in
  match ts with
  | TStart =>
      match f_pre f with
      | inl e => (st, (f, TDone (Rej e) false))
      | inr None => (st, (f, TDone (match f_mid f with inl e => Rej e | inr _ => f_post f end) false))
      | inr (Some j) =>
          if negb (jti_valid nw st j) then (st, (f, TDone (Rej EJtiKnown) false))
          else (st, (f, TChecked j))
      end
  | TChecked j =>
      match f_mid f with
      | inl e => (st, (f, TDone (Rej e) false))
      | inr x =>
          let (st', ok) := jti_set nw st j x in
          if ok then (st', (f, TDone (f_post f) true)) else (st', (f, TDone (Rej (f_kerr f)) false))
      end
  | TDone _ _ => (st, t)
  end.

Fixpoint upd_nth {A} (l : list A) (i : nat) (v : A) : list A :=
  match l, i with
  | [], _ => []
  | _ :: r, O => v :: r
  | x :: r, S k => x :: upd_nth r k v
  end.

(* one scheduling decision: thread i performs its next atomic step (out of range: nothing happens) *)
Definition sched_step (nw : Z) (cfg : jstore * list thread) (i : nat) : jstore * list thread :=
  let (st, ts) := cfg in
  match nth_error ts i with
  | None => cfg
  | Some t => let (st', t') := tstep nw st t in (st', upd_nth ts i t')
  end.

Definition run_sched (nw : Z) (cfg : jstore * list thread) (sched : list nat) : jstore * list thread :=
  fold_left (sched_step nw) sched cfg.

Definition thread_jti (t : thread) : option string :=
  match f_pre (fst t) with inr (Some j) => Some j | _ => None end.
Definition thread_won (j : string) (t : thread) : bool :=
  match snd t, thread_jti t with
  | TDone _ true, Some k => String.eqb k j
  | _, _ => false
  end.
Definition wins (j : string) (ts : list thread) : nat := List.length (filter (thread_won j) ts).

Definition thread_result (t : thread) : option res :=
  match snd t with TDone r _ => Some r | _ => None end.
