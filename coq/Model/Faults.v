(* Fault model on top of the history model (Core.v, Flows.v): the token-issuing and revoking flows as
   sequences of storage calls, each of which may be answered by an injected error, against a store that is
   either the plain reference store or a transactional one (BeginTX snapshots the tables, Rollback
   restores the snapshot, Commit drops it; storage.MaybeBeginTx / MaybeCommitTx / MaybeRollbackTx do
   nothing for a store that is not storage.Transactional).

   A fault plan answers, for the position of a storage call inside the request (0, 1, 2, ...), whether
   the call fails and how.  Every flow returns the new state, the observation and the log of storage
   calls with their result classes; the begin/commit/rollback trace is the projection of that log.

   Each definition follows the Go code named next to it: which error class a failing call produces,
   where the transaction starts and where it is rolled back.  Executable definitions only. *)
From FositeModel Require Export Model.Flows.

(* the error a store may answer unexpectedly: a generic error, fosite.ErrNotFound,
   fosite.ErrInactiveToken, fosite.ErrSerializationFailure.  A fault at the position of BeginTX /
   Commit / Rollback is a begin / commit / rollback failure. *)
Inductive fault := FGen | FNotFound | FInactive | FSerial.

Inductive meth :=
| MGetCode | MGetPkce | MInvalidateCode | MCreateAT | MCreateRT | MGetOidc | MDeletePkce
| MGetRT | MGetAT | MDeleteRT | MRevokeRT | MRevokeAT | MRotateRT
| MGetDevice | MInvalidateDevice | MAuthenticate
| MBegin | MCommit | MRollback.

(* result class of one storage call: the store's own answers, or an injected fault *)
Inductive rclass := ROk | RNotFound | RInactive | RInvalidated | RInj (f : fault).
Definition call := (meth * rclass)%type.

Record fenv := { fe_tx : bool; fe_plan : nat -> option fault }.

Record fstate := {
  f_s : state;
  f_n : nat;                  (* storage calls made so far in this request *)
  f_calls : list call;        (* the log *)
  f_snap : option store       (* tables as they were at BeginTX, while a transaction is open *)
}.
Definition finit (s : state) : fstate := {| f_s := s; f_n := 0; f_calls := []; f_snap := None |}.
Definition with_s (x : fstate) (s : state) : fstate :=
  {| f_s := s; f_n := f_n x; f_calls := f_calls x; f_snap := f_snap x |}.
Definition with_store (x : fstate) (v : store) : fstate := with_s x (set_store (f_s x) v).
Definition set_snap (x : fstate) (v : option store) : fstate :=
  {| f_s := f_s x; f_n := f_n x; f_calls := f_calls x; f_snap := v |}.
Definition logc (x : fstate) (m : meth) (r : rclass) : fstate :=
  {| f_s := f_s x; f_n := S (f_n x); f_calls := (f_calls x ++ [(m, r)])%list; f_snap := f_snap x |}.
Definition planned (e : fenv) (x : fstate) : option fault := fe_plan e (f_n x).
Definition ffail (x : fstate) (err : string) : fstate * obs := (x, err_obs err).

(* an injected answer that is the answer the store gives anyway is no fault *)
Definition coincides (f : fault) (c : rclass) : bool :=
  match f, c with FNotFound, RNotFound => true | FInactive, RInactive => true | _, _ => false end.

(* a lookup: [natc] is the store's own answer *)
Definition rd (e : fenv) (x : fstate) (m : meth) (natc : rclass) : option fault * fstate :=
  match planned e x with
  | Some f => if coincides f natc then (None, logc x m natc) else (Some f, logc x m (RInj f))
  | None => (None, logc x m natc)
  end.
(* a write: a planned fault replaces the operation *)
Definition wr (e : fenv) (x : fstate) (m : meth) (natc : rclass) : option fault * fstate :=
  match planned e x with
  | Some f => (Some f, logc x m (RInj f))
  | None => (None, logc x m natc)
  end.

(* storage/transactional.go *)
Definition begin_tx (e : fenv) (x : fstate) : option fault * fstate :=
  if fe_tx e then
    match planned e x with
    | Some f => (Some f, logc x MBegin (RInj f))
    | None => (None, set_snap (logc x MBegin ROk) (Some (st (f_s x))))
    end
  else (None, x).
Definition commit_tx (e : fenv) (x : fstate) : option fault * fstate :=
  if fe_tx e then
    match planned e x with
    | Some f => (Some f, logc x MCommit (RInj f))          (* the transaction stays open *)
    | None => (None, set_snap (logc x MCommit ROk) None)
    end
  else (None, x).
(* true = the rollback itself failed (what was written stays) *)
Definition rollback_tx (e : fenv) (x : fstate) : bool * fstate :=
  if fe_tx e then
    match planned e x with
    | Some f => (true, set_snap (logc x MRollback (RInj f)) None)
    | None =>
        match f_snap x with
        | Some sn => (false, set_snap (logc (with_store x sn) MRollback ROk) None)
        | None => (false, logc x MRollback ROk)
        end
    end
  else (false, x).

(* error classes *)
Definition srv (_ : fault) : string := "server_error".
Definition nf_grant (f : fault) : string := match f with FNotFound => "invalid_grant" | _ => "server_error" end.
(* flow_refresh.go handleRefreshTokenEndpointStorageError *)
Definition refresh_err (f : fault) : string := match f with FGen => "server_error" | _ => "invalid_request" end.
(* a storage error handed through unwrapped (helper.go IssueAccessToken): the error's own name *)
Definition raw_err (f : fault) : string :=
  match f with FNotFound => "not_found" | FInactive => "token_inactive" | _ => "error" end.
Definition serr_class (o : option serr) : rclass :=
  match o with None => ROk | Some SNotFound => RNotFound | Some SInactive => RInactive end.

(* deferred MaybeRollbackTx: a failing rollback turns the error into server_error *)
Definition abort (e : fenv) (x : fstate) (err : string) : fstate * option string :=
  let (rbfail, x') := rollback_tx e x in (x', Some (if rbfail then "server_error" else err)).
Definition commit_part (e : fenv) (x : fstate) (errf : fault -> string) : fstate * option string :=
  match commit_tx e x with
  | (Some f, x') => abort e x' (errf f)
  | (None, x') => (x', None)
  end.

(* keys are generated by the token strategies (no storage call) *)
Definition mint_pair (s : state) (rid : nat) (with_rt : bool) : nat * option nat * state :=
  let (ka, s1) := mint s KAccess rid in
  if with_rt then let (kr, s2) := mint s1 KRefresh rid in (ka, Some kr, s2) else (ka, None, s1).

(* the issuing transaction shared by the authorization-code, refresh and device handlers:
   MaybeBeginTx; first write (invalidate the code / rotate the refresh token / invalidate the device
   code); CreateAccessTokenSession; CreateRefreshTokenSession; MaybeCommitTx; rollback on any error.
   The result is the error class, or the signatures under which the new sessions were stored.
   (The Go handlers generate the token strings before MaybeBeginTx; generation touches no table, the
   model draws the fresh keys where the history model does, after the first write.) *)
Definition tx_block (e : fenv) (x : fstate) (m1 : meth) (w1 : store -> store * rclass)
           (rid : nat) (with_rt : bool) (stored : req) (errf : fault -> string)
  : fstate * (string + (nat * option nat)) :=
  let fin (r : fstate * option string) (ks : nat * option nat) : fstate * (string + (nat * option nat)) :=
    match r with (y, Some err) => (y, inl err) | (y, None) => (y, inr ks) end in
  match begin_tx e x with
  | (Some _, x1) => (x1, inl "server_error")
  | (None, x1) =>
    let (st1, c1) := w1 (st (f_s x1)) in
    match wr e x1 m1 c1 with
    | (Some f, x2) => fin (abort e x2 (errf f)) (0, None)
    | (None, x2) =>
      match c1 with
      | ROk =>
        let '(ka, kr, s3) := mint_pair (f_s (with_store x2 st1)) rid with_rt in
        let x3 := with_s x2 s3 in
        match wr e x3 MCreateAT ROk with
        | (Some f, x4) => fin (abort e x4 (errf f)) (ka, kr)
        | (None, x4) =>
          let x5 := with_store x4 (create_access (st (f_s x4)) ka stored) in
          match kr with
          | None => fin (commit_part e x5 errf) (ka, kr)
          | Some kr' =>
            match wr e x5 MCreateRT ROk with
            | (Some f, x6) => fin (abort e x6 (errf f)) (ka, kr)
            | (None, x6) => fin (commit_part e (with_store x6 (create_refresh (st (f_s x6)) kr' stored)) errf) (ka, kr)
            end
          end
        end
      | _ => fin (abort e (with_store x2 st1) (errf FNotFound)) (0, None)
      end
    end
  end.

Definition issued_of (ka : nat) (kr : option nat) (rid : nat) : list issued :=
  {| i_kind := KAccess; i_key := ka; i_rid := rid; i_endpoint_token := true |} ::
  match kr with
  | Some k => [{| i_kind := KRefresh; i_key := k; i_rid := rid; i_endpoint_token := true |}]
  | None => []
  end.
Definition kinds_of (kr : option nat) : list ckind :=
  match kr with Some _ => [KAccess; KRefresh] | None => [KAccess] end.

(* ------------------------------------------------------------------ authorization_code *)
Definition code_class (s : state) (key : option nat) : rclass :=
  match find (codes (st s)) key with
  | None => RNotFound
  | Some (false, _) => RInvalidated
  | Some (true, _) => ROk
  end.

(* pkce.Handler.HandleTokenEndpointRequest: ErrNotFound means "no PKCE session" *)
Definition fpkce_handle (e : fenv) (cfg : config) (x : fstate) (cl : client) (k : nat)
           (verifier verifier_s256 : string) : fstate * option string :=
  let s := f_s x in
  match rd e x MGetPkce (match pkce (st s) k with Some _ => ROk | None => RNotFound end) with
  | (Some FNotFound, x1) =>
      (x1, if Nat.eqb (String.length verifier) 0 then pkce_no_pkce cfg cl else Some "invalid_grant")
  | (Some _, x1) => (x1, Some "server_error")
  | (None, x1) => (x1, snd (pkce_token cfg s cl (Some k) verifier verifier_s256))
  end.

Definition inval_code (k : nat) (v : store) : store * rclass :=
  let (v', b) := invalidate_code v k in (v', if b then ROk else RNotFound).

Definition fredeem (e : fenv) (cfg : config) (x : fstate) (auth : option nat) (code : pres) (redirect : string)
           (verifier verifier_s256 : string) : fstate * obs :=
  let s := f_s x in
  match auth with
  | None => ffail x "invalid_client"
  | Some c =>
  match clients s c with
  | None => ffail x "invalid_client"
  | Some cl =>
      if negb (args_has (cl_grants cl) ["authorization_code"]) then ffail x "unauthorized_client"
      else
      (* AuthorizeExplicitGrantHandler.HandleTokenEndpointRequest: GetAuthorizeCodeSession *)
      match rd e x MGetCode (code_class s (key_of s code)) with
      | (Some f, x1) => ffail x1 (nf_grant f)
      | (None, x1) =>
      match key_of s code with
      | None => ffail x1 "invalid_grant"
      | Some k =>
      match codes (st s) k with
      | None => ffail x1 "invalid_grant"
      | Some (false, r) =>
          (* replay: RevokeAccessToken, RevokeRefreshToken; their errors only go into the debug text *)
          let x2 := match wr e x1 MRevokeAT ROk with
                    | (Some _, y) => y
                    | (None, y) => with_store y (revoke_access (st (f_s y)) (r_id r))
                    end in
          let (st2, oe) := revoke_refresh (st (f_s x2)) (r_id r) in
          let x3 := match wr e x2 MRevokeRT (serr_class oe) with
                    | (Some _, y) => y
                    | (None, y) => with_store y st2
                    end in
          ffail x3 "invalid_grant"
      | Some (true, r) =>
          if p_tampered code then ffail x1 "invalid_grant"
          else if negb (Nat.eqb (r_client r) c) then ffail x1 "invalid_grant"
          else if negb (String.eqb (r_redirect r) "") && negb (String.eqb (r_redirect r) redirect) then ffail x1 "invalid_grant"
          else
            let se := set_token_expiries (eff_cfg cfg cl LAuthCode) (now s) (r_sess r) in
            match fpkce_handle e cfg x1 cl k verifier verifier_s256 with
            | (x2, Some err) => ffail x2 err
            | (x2, None) =>
                (* PopulateTokenEndpointResponse: GetAuthorizeCodeSession once more *)
                match rd e x2 MGetCode ROk with
                | (Some _, x3) => ffail x3 "server_error"
                | (None, x3) =>
                if expired (s_exp_code se) (now s) (cf_life_code cfg) (now s) then ffail x3 "invalid_request"
                else
                  let stored := {| r_id := r_id r; r_client := c; r_cl := cl; r_rscopes := r_rscopes r; r_gscopes := r_gscopes r;
                                   r_raud := r_raud r; r_gaud := r_gaud r; r_sess := se; r_redirect := "";
                                   r_challenge := ""; r_method := ""; r_mode := ""; r_at := now s |} in
                  match tx_block e x3 MInvalidateCode (inval_code k) (r_id r) (can_refresh cfg (r_gscopes r) (r_cl r)) stored srv with
                  | (x5, inl err) => ffail x5 err
                  | (x5, inr (ka, kr)) =>
                      (* OpenIDConnectExplicitHandler: GetOpenIDConnectSession (no session: openid flows are not modelled) *)
                      match rd e x5 MGetOidc RNotFound with
                      | (Some _, x6) => ffail x6 "server_error"
                      | (None, x6) =>
                      (* pkce.Handler.PopulateTokenEndpointResponse: DeletePKCERequestSession *)
                      match wr e x6 MDeletePkce ROk with
                      | (Some _, x7) => ffail x7 "server_error"
                      | (None, x7) =>
                          let x8 := with_store x7 (delete_pkce (st (f_s x7)) k) in
                          (with_s x8 (log_add (f_s x8) (issued_of ka kr (r_id r))),
                           ok_obs (kinds_of kr) (expires_in se cfg (now s)) (r_gscopes r))
                      end end
                  end
                end
            end
      end end end
  end end.

(* ------------------------------------------------------------------ refresh_token *)
Definition rt_class (s : state) (key : option nat) : rclass :=
  match find (refresh (st s)) key with
  | None => RNotFound
  | Some (false, _) => RInactive
  | Some (true, _) => ROk
  end.

(* handleRefreshTokenReuse: its own transaction; ErrNotFound of the two revocations is tolerated *)
Definition freuse (e : fenv) (x : fstate) (k : nat) (rid : nat) : fstate * option string :=
  match begin_tx e x with
  | (Some _, x1) => (x1, Some "server_error")
  | (None, x1) =>
    match wr e x1 MDeleteRT ROk with
    | (Some f, x2) => abort e x2 (refresh_err f)
    | (None, x2) =>
      let x3 := with_store x2 (delete_refresh (st (f_s x2)) k) in
      let (st4, oe) := revoke_refresh (st (f_s x3)) rid in
      let cont (x5 : fstate) :=
        match wr e x5 MRevokeAT ROk with
        | (Some FNotFound, x6) => commit_part e x6 refresh_err
        | (Some f, x6) => abort e x6 (refresh_err f)
        | (None, x6) => commit_part e (with_store x6 (revoke_access (st (f_s x6)) rid)) refresh_err
        end in
      match wr e x3 MRevokeRT (serr_class oe) with
      | (Some FNotFound, x4) => cont x4
      | (Some f, x4) => abort e x4 (refresh_err f)
      | (None, x4) => cont (with_store x4 st4)
      end
    end
  end.

Definition frefresh (e : fenv) (cfg : config) (x : fstate) (auth : option nat) (tok : pres) : fstate * obs :=
  let s := f_s x in
  match auth with
  | None => ffail x "invalid_client"
  | Some c =>
  match clients s c with
  | None => ffail x "invalid_client"
  | Some cl =>
      if negb (args_has (cl_grants cl) ["refresh_token"]) then ffail x "unauthorized_client"
      else
      let key := key_of s tok in
      let reuse (x1 : fstate) (k rid : nat) :=
        match freuse e x1 k rid with
        | (x2, Some err) => ffail x2 err
        | (x2, None) => ffail x2 "invalid_grant"
        end in
      match rd e x MGetRT (rt_class s key) with
      | (Some FNotFound, x1) => ffail x1 "invalid_grant"
      | (Some FInactive, x1) =>
          (* the store answers "inactive" for a live token: handled as a reuse of that token.  When it answers
             "inactive" without handing back the stored request (here: for a token it has no record of) the
             request is refused before any write or BeginTX (the nil check added by 8ec4c3a) *)
          match find (refresh (st s)) key, key with
          | Some (_, r), Some k => reuse x1 k (r_id r)
          | _, _ => ffail x1 "server_error"
          end
      | (Some _, x1) => ffail x1 "server_error"
      | (None, x1) =>
      match find (refresh (st s)) key, key with
      | Some (false, r), Some k => reuse x1 k (r_id r)
      | Some (true, r), Some k =>
          if expired_rt (s_exp_rt (r_sess r)) (now s) then ffail x1 "invalid_grant"
          else if p_tampered tok then ffail x1 "invalid_request"
          else if negb (match cf_refresh_scopes cfg with [] => true | sc => args_has_one_of (r_gscopes r) sc end)
               then ffail x1 "scope_not_granted"
          else if negb (Nat.eqb (r_client r) c) then ffail x1 "invalid_grant"
          else if negb (scopes_ok cfg cl (r_gscopes r)) then ffail x1 "invalid_scope"
          else if negb (aud_ok cfg (cl_aud cl) (r_gaud r)) then ffail x1 "invalid_request"
          else
            let se := set_token_expiries (eff_cfg cfg cl LRefresh) (now s) (r_sess r) in
            let stored := {| r_id := r_id r; r_client := c; r_cl := cl; r_rscopes := r_rscopes r; r_gscopes := r_gscopes r;
                             r_raud := r_raud r; r_gaud := r_gaud r; r_sess := se; r_redirect := "";
                             r_challenge := ""; r_method := ""; r_mode := ""; r_at := now s |} in
            match tx_block e x1 MRotateRT (fun v => let (v', oe) := rotate_refresh v (r_id r) in (v', serr_class oe))
                           (r_id r) true stored refresh_err with
            | (x5, inl err) => ffail x5 err
            | (x5, inr (ka, kr)) =>
                (with_s x5 (log_add (f_s x5) (issued_of ka kr (r_id r))),
                 ok_obs (kinds_of kr) (expires_in se cfg (now s)) (r_gscopes r))
            end
      | _, _ => ffail x1 "invalid_grant"
      end
      end
  end end.

(* ------------------------------------------------------------------ device_code (rfc8628/token_handler.go) *)
Definition fdevice (e : fenv) (cfg : config) (x : fstate) (auth : option nat) (dev : pres) : fstate * obs :=
  let s := f_s x in
  match auth with
  | None => ffail x "invalid_client"
  | Some c =>
  match clients s c with
  | None => ffail x "invalid_client"
  | Some cl =>
      if negb (args_has (cl_grants cl) ["urn:ietf:params:oauth:grant-type:device_code"]) then ffail x "unauthorized_client"
      else
      let key := key_of s dev in
      match rd e x MGetDevice (match find (device (st s)) key with Some _ => ROk | None => RNotFound end) with
      | (Some f, x1) => ffail x1 (nf_grant f)
      | (None, x1) =>
      match key with
      | None => ffail x1 "invalid_grant"
      | Some k =>
      match device (st s) k with
      | None => ffail x1 "invalid_grant"
      | Some (stt, r) =>
          if Nat.eqb stt 0 then ffail x1 "authorization_pending"
          else if Nat.eqb stt 2 then ffail x1 "access_denied"
          else if expired (s_exp_dev (r_sess r)) (r_at r) (cf_life_dev cfg) (now s) then ffail x1 "expired_token"
          else if p_tampered dev then ffail x1 "token_signature_mismatch"
          else if negb (Nat.eqb (r_client r) c) then ffail x1 "invalid_grant"
          else
            let se := set_token_expiries cfg (now s) (r_sess r) in
            let stored := {| r_id := r_id r; r_client := c; r_cl := cl; r_rscopes := r_rscopes r; r_gscopes := r_gscopes r;
                             r_raud := r_raud r; r_gaud := r_gaud r; r_sess := se; r_redirect := "";
                             r_challenge := ""; r_method := ""; r_mode := ""; r_at := now s |} in
            (* PopulateTokenEndpointResponse: GetDeviceCodeSession once more; every error is wrapped as server_error *)
            match rd e x1 MGetDevice ROk with
            | (Some _, x2) => ffail x2 "server_error"
            | (None, x2) =>
                match tx_block e x2 MInvalidateDevice (fun v => (invalidate_device v k (r_id r), ROk)) (r_id r) (can_refresh cfg (r_gscopes r) cl) stored srv with
                | (x5, inl err) => ffail x5 err
                | (x5, inr (ka, kr)) =>
                    (* OpenIDConnectDeviceHandler: GetOpenIDConnectSession (no session) *)
                    match rd e x5 MGetOidc RNotFound with
                    | (Some _, x6) => ffail x6 "server_error"
                    | (None, x6) =>
                        (with_s x6 (log_add (f_s x6) (issued_of ka kr (r_id r))),
                         ok_obs (kinds_of kr) (expires_in se cfg (now s)) (r_gscopes r))
                    end
                end
            end
      end end
      end
  end end.

(* ------------------------------------------------------------------ password, client_credentials *)
(* flow_resource_owner.go: Authenticate in the handle phase; helper.go IssueAccessToken hands the storage
   error through unwrapped; CreateRefreshTokenSession afterwards; no transaction *)
Definition fpassword (e : fenv) (cfg : config) (x : fstate) (auth : option nat) (creds_ok : bool)
           (scopes : list string) (aud : list aurl) (granted : list string) (gaud : list aurl) : fstate * obs :=
  let s := f_s x in
  match auth with
  | None => ffail x "invalid_client"
  | Some c =>
  match clients s c with
  | None => ffail x "invalid_client"
  | Some cl =>
      if negb (args_has (cl_grants cl) ["password"]) then ffail x "unauthorized_client"
      else if negb (scopes_ok cfg cl scopes) then ffail x "invalid_scope"
      else if negb (aud_ok cfg (cl_aud cl) aud) then ffail x "invalid_request"
      else
      match rd e x MAuthenticate (if creds_ok then ROk else RNotFound) with
      | (Some f, x1) => ffail x1 (nf_grant f)
      | (None, x1) =>
      if negb creds_ok then ffail x1 "invalid_grant"
      else
        let se := fresh_session (eff_cfg cfg cl LPassword) s "uuid" true true in
        let w := match cf_refresh_scopes cfg with [] => true | sc => args_has_one_of granted sc end in
        let (rid, s1) := fresh_rid (f_s x1) in
        let stored := {| r_id := rid; r_client := c; r_cl := cl; r_rscopes := scopes; r_gscopes := granted;
                         r_raud := aud; r_gaud := gaud; r_sess := se; r_redirect := "";
                         r_challenge := ""; r_method := ""; r_mode := ""; r_at := now s |} in
        let '(ka, kr, s2) := mint_pair s1 rid w in
        match wr e (with_s x1 s2) MCreateAT ROk with
        | (Some f, x2) => ffail x2 (raw_err f)
        | (None, x2) =>
            let x3 := with_store x2 (create_access (st (f_s x2)) ka stored) in
            let fin (x4 : fstate) :=
              (with_s x4 (log_add (f_s x4) (issued_of ka kr rid)),
               ok_obs (kinds_of kr) (expires_in se cfg (now s)) granted) in
            match kr with
            | None => fin x3
            | Some kr' =>
                match wr e x3 MCreateRT ROk with
                | (Some _, x4) => ffail x4 "server_error"
                | (None, x4) => fin (with_store x4 (create_refresh (st (f_s x4)) kr' stored))
                end
            end
        end
      end
  end end.

Definition fclient_credentials (e : fenv) (cfg : config) (x : fstate) (auth : option nat)
           (scopes : list string) (aud : list aurl) (granted : list string) (gaud : list aurl) : fstate * obs :=
  let s := f_s x in
  match auth with
  | None => ffail x "invalid_client"
  | Some c =>
  match clients s c with
  | None => ffail x "invalid_client"
  | Some cl =>
      if negb (scopes_ok cfg cl scopes) then ffail x "invalid_scope"
      else if negb (aud_ok cfg (cl_aud cl) aud) then ffail x "invalid_request"
      else if cl_public cl then ffail x "invalid_grant"
      else if negb (args_has (cl_grants cl) ["client_credentials"]) then ffail x "unauthorized_client"
      else
        let se := fresh_session (eff_cfg cfg cl LClientCreds) s "" false false in
        let (rid, s1) := fresh_rid (f_s x) in
        let stored := {| r_id := rid; r_client := c; r_cl := cl; r_rscopes := scopes; r_gscopes := granted;
                         r_raud := aud; r_gaud := gaud; r_sess := se; r_redirect := "";
                         r_challenge := ""; r_method := ""; r_mode := ""; r_at := now s |} in
        let '(ka, kr, s2) := mint_pair s1 rid false in
        match wr e (with_s x s2) MCreateAT ROk with
        | (Some f, x2) => ffail x2 (raw_err f)
        | (None, x2) =>
            let x3 := with_store x2 (create_access (st (f_s x2)) ka stored) in
            (with_s x3 (log_add (f_s x3) (issued_of ka kr rid)),
             ok_obs (kinds_of kr) (expires_in se cfg (now s)) granted)
        end
  end end.

(* ------------------------------------------------------------------ revocation (revocation.go) *)
(* one discovery function: the record, or the class of the error *)
Definition lookup_rt (e : fenv) (x : fstate) (key : option nat) : fstate * (req + rclass) :=
  let s := f_s x in
  match rd e x MGetRT (rt_class s key) with
  | (Some f, x1) => (x1, inr (RInj f))
  | (None, x1) =>
      match find (refresh (st s)) key with
      | Some (true, r) => (x1, inl r)
      | Some (false, _) => (x1, inr RInactive)
      | None => (x1, inr RNotFound)
      end
  end.
Definition lookup_at (e : fenv) (x : fstate) (key : option nat) : fstate * (req + rclass) :=
  let s := f_s x in
  match rd e x MGetAT (match lookup_access (st s) key with Some _ => ROk | None => RNotFound end) with
  | (Some f, x1) => (x1, inr (RInj f))
  | (None, x1) =>
      match lookup_access (st s) key with
      | Some r => (x1, inl r)
      | None => (x1, inr RNotFound)
      end
  end.
(* storeErrorsToRevocationError: not-found and inactive mean "already revoked" *)
Definition benign (c : rclass) : bool :=
  match c with
  | ROk | RNotFound | RInactive | RInj FNotFound | RInj FInactive => true
  | _ => false
  end.

Definition frevoke (e : fenv) (cfg : config) (x : fstate) (auth : option nat) (tok : pres) (h : hint) : fstate * obs :=
  let s := f_s x in
  match auth with
  | None => ffail x "invalid_client"
  | Some c =>
  match clients s c with
  | None => ffail x "invalid_client"
  | Some _ =>
      let key := key_of s tok in
      let first := match h with HAccess => lookup_at | _ => lookup_rt end in
      let second := match h with HAccess => lookup_rt | _ => lookup_at end in
      let proceed (x2 : fstate) (r : req) :=
        if negb (Nat.eqb (r_client r) c) then ffail x2 "unauthorized_client"
        else
          let (st3, oe) := revoke_refresh (st (f_s x2)) (r_id r) in
          let (c3, x3) := match wr e x2 MRevokeRT (serr_class oe) with
                          | (Some f, y) => (RInj f, y)
                          | (None, y) => (serr_class oe, with_store y st3)
                          end in
          let (c4, x4) := match wr e x3 MRevokeAT ROk with
                          | (Some f, y) => (RInj f, y)
                          | (None, y) => (ROk, with_store y (revoke_access (st (f_s y)) (r_id r)))
                          end in
          if benign c3 && benign c4 then (x4, ok_obs [] 0%Z []) else ffail x4 "temporarily_unavailable" in
      match first e x key with
      | (x1, inl r) => proceed x1 r
      | (x1, inr c1) =>
          match second e x1 key with
          | (x2, inl r) => proceed x2 r
          | (x2, inr c2) =>
              if benign c1 && benign c2 then (x2, ok_obs [] 0%Z []) else ffail x2 "temporarily_unavailable"
          end
      end
  end end.

(* ------------------------------------------------------------------ one request under a fault plan *)
Definition fstep (e : fenv) (cfg : config) (s : state) (o : op) : state * obs * list call :=
  let out (r : fstate * obs) := (f_s (fst r), snd r, f_calls (fst r)) in
  match o with
  | ORedeem auth code redirect v vh _ => out (fredeem e cfg (finit s) auth code redirect v vh)
  | ORefresh auth tok _ => out (frefresh e cfg (finit s) auth tok)
  | ORevoke auth tok h => out (frevoke e cfg (finit s) auth tok h)
  | OPassword auth ok sc au g ga => out (fpassword e cfg (finit s) auth ok sc au g ga)
  | OClientCreds auth sc au g ga => out (fclient_credentials e cfg (finit s) auth sc au g ga)
  | ODevicePoll auth dev => out (fdevice e cfg (finit s) auth dev)
  | _ => let (s', ob) := step cfg s o in (s', ob, [])
  end.

(* ------------------------------------------------------------------ the transaction trace *)
Inductive txev := EvBegin | EvCommitOk | EvCommitFail | EvRollback | EvFail | EvNone.
Definition tolerated (m : meth) (r : rclass) : bool :=
  match m, r with
  | MRevokeRT, RNotFound | MRevokeRT, RInj FNotFound | MRevokeAT, RNotFound | MRevokeAT, RInj FNotFound => true
  | _, _ => false
  end.
Definition ev_of (c : call) : txev :=
  match c with
  | (MBegin, ROk) => EvBegin
  | (MBegin, _) => EvNone
  | (MCommit, ROk) => EvCommitOk
  | (MCommit, _) => EvCommitFail
  | (MRollback, _) => EvRollback
  | (_, ROk) => EvNone
  | (m, r) => if tolerated m r then EvNone else EvFail
  end.
(* Idle: no transaction; Open: begun, nothing failed; Failed: begun, a call or the commit failed *)
Inductive txq := QIdle | QOpen | QFailed.
Definition tx_step (q : txq) (ev : txev) : option txq :=
  match q, ev with
  | q, EvNone => Some q
  | QIdle, EvBegin => Some QOpen
  | QIdle, EvFail => Some QIdle
  | QOpen, EvFail => Some QFailed
  | QOpen, EvCommitOk => Some QIdle
  | QOpen, EvCommitFail => Some QFailed
  | QOpen, EvRollback => Some QIdle
  | QFailed, EvRollback => Some QIdle
  | _, _ => None
  end.
Fixpoint tx_run (q : txq) (l : list call) : option txq :=
  match l with
  | [] => Some q
  | c :: r => match tx_step q (ev_of c) with Some q' => tx_run q' r | None => None end
  end.
(* every begin is matched by exactly one commit-ok, or commit-failed then rollback, or (after a failed
   call) rollback; no commit after a failed call; nothing is left open *)
Definition tx_wf (l : list call) : bool :=
  match tx_run QIdle l with Some QIdle => true | _ => false end.
