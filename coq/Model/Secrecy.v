(* What the handlers hand to the storage interface: request.go Sanitize with the white-lists, and
   one entry per storage call site saying which kind of key is passed and which form travels with
   the stored request.  Model definitions only.
   The table follows the code that exists: the OpenID Connect session is keyed by the complete
   authorization code (handler/openid/flow_explicit_auth.go, flow_hybrid.go, flow_explicit_token.go),
   the device variant deletes under the complete device code (handler/openid/flow_device_token.go)
   and the PAR handler stores the request unsanitised (handler/par/flow_pushed_authorize.go). *)
From FositeModel Require Export Model.Errors.

(* the request that is being served when the storage call happens *)
Inductive endpoint :=
| EAuthorize | ETokenCode | ETokenRefresh | ETokenPassword | ETokenClientCreds | ETokenDevice
| ETokenJwtBearer | EPar | EDeviceAuth | ERevoke | EIntrospect.

Definition endpoint_eqb (a b : endpoint) : bool :=
  match a, b with
  | EAuthorize, EAuthorize | ETokenCode, ETokenCode | ETokenRefresh, ETokenRefresh
  | ETokenPassword, ETokenPassword | ETokenClientCreds, ETokenClientCreds | ETokenDevice, ETokenDevice
  | ETokenJwtBearer, ETokenJwtBearer | EPar, EPar | EDeviceAuth, EDeviceAuth | ERevoke, ERevoke
  | EIntrospect, EIntrospect => true
  | _, _ => false
  end.

Definition is_token_endpoint (e : endpoint) : bool :=
  match e with
  | ETokenCode | ETokenRefresh | ETokenPassword | ETokenClientCreds | ETokenDevice | ETokenJwtBearer => true
  | _ => false
  end.

(* request parameters whose value is a usable secret.  "code" is the authorization code only at
   the token endpoint (at the authorization endpoint no code exists yet). *)
Definition secret_names : list string :=
  ["client_secret"; "password"; "code_verifier"; "client_assertion"; "refresh_token"; "device_code";
   "token"; "access_token"; "assertion"].
Definition secret_param (src : endpoint) (k : string) : bool :=
  mem k secret_names || (is_token_endpoint src && String.eqb k "code").

(* request.go *)
Definition default_allowed : list string := ["grant_type"; "response_type"; "scope"; "client_id"].
(* Request.Sanitize: keep exactly the keys in allowedParameters ++ defaultAllowedParameters *)
Definition sanitize_form (allowed : list string) (form : values) : values :=
  filter (fun kv => mem (fst kv) allowed) form.

(* the white-lists passed at the call sites *)
Definition wl_authcode : list string := ["code"; "redirect_uri"].   (* GetSanitationWhiteList default *)
Definition wl_pkce : list string := ["code_challenge"; "code_challenge_method"].
Definition wl_oidc : list string := ["grant_type"; "max_age"; "prompt"; "acr_values"; "id_token_hint"; "nonce"].

Inductive key_rule := KeyOpaque | KeyComplete (kind : string).
Inductive form_rule := NoForm | Sanitized (wl : list string) | RawForm.
Record site := mkSite { st_method : string; st_src : list endpoint; st_key : key_rule; st_form : form_rule }.

Definition all_token : list endpoint :=
  [ETokenCode; ETokenRefresh; ETokenPassword; ETokenClientCreds; ETokenDevice; ETokenJwtBearer].
Definition everywhere : list endpoint := (EAuthorize :: EPar :: EDeviceAuth :: ERevoke :: EIntrospect :: all_token)%list.

Definition plain (m : string) : site := mkSite m everywhere KeyOpaque NoForm.

Definition site_table : list site := [
  mkSite "CreateAuthorizeCodeSession" [EAuthorize] KeyOpaque (Sanitized wl_authcode);
  mkSite "CreatePKCERequestSession" [EAuthorize] KeyOpaque (Sanitized wl_pkce);
  mkSite "CreateOpenIDConnectSession" [EAuthorize] (KeyComplete "authorization_code") (Sanitized wl_oidc);
  mkSite "CreateAccessTokenSession" (EAuthorize :: all_token) KeyOpaque (Sanitized []);
  mkSite "CreateRefreshTokenSession" all_token KeyOpaque (Sanitized []);
  mkSite "CreateDeviceAuthSession" [EDeviceAuth] KeyOpaque (Sanitized []);
  mkSite "CreatePARSession" [EPar] KeyOpaque RawForm;
  mkSite "GetOpenIDConnectSession" [ETokenCode] (KeyComplete "authorization_code") NoForm;
  mkSite "DeleteOpenIDConnectSession" [ETokenCode] (KeyComplete "authorization_code") NoForm;
  mkSite "GetOpenIDConnectSession" [ETokenDevice] KeyOpaque NoForm;
  mkSite "DeleteOpenIDConnectSession" [ETokenDevice] KeyOpaque NoForm;
  plain "GetAuthorizeCodeSession"; plain "InvalidateAuthorizeCodeSession";
  plain "GetPKCERequestSession"; plain "DeletePKCERequestSession";
  plain "GetAccessTokenSession"; plain "DeleteAccessTokenSession";
  plain "GetRefreshTokenSession"; plain "DeleteRefreshTokenSession"; plain "RotateRefreshToken";
  plain "RevokeRefreshToken"; plain "RevokeRefreshTokenMaybeGracePeriod"; plain "RevokeAccessToken";
  plain "GetClient"; plain "ClientAssertionJWTValid"; plain "SetClientAssertionJWT";
  plain "GetPublicKey"; plain "GetPublicKeys"; plain "GetPublicKeyScopes"; plain "IsJWTUsed"; plain "MarkJWTUsedForTime";
  plain "GetPARSession"; plain "DeletePARSession";
  plain "GetDeviceCodeSession"; plain "InvalidateDeviceCodeSession";
  plain "Authenticate" ].

Definition site_matches (m : string) (src : endpoint) (s : site) : bool :=
  String.eqb (st_method s) m && existsb (endpoint_eqb src) (st_src s).
Definition site_of (m : string) (src : endpoint) : option site :=
  find (site_matches m src) site_table.

(* the form stored with the request at a site, given the form of the request being served *)
Definition expected_form (s : site) (input : values) : option values :=
  match st_form s with
  | NoForm => None
  | Sanitized wl => Some (sanitize_form (wl ++ default_allowed) input)
  | RawForm => Some input
  end.

(* what the model says leaks at a site: the kind of complete credential used as key, and the
   secret-bearing parameters that reach the stored form *)
Definition model_key_leak (s : site) : option string :=
  match st_key s with KeyComplete k => Some k | KeyOpaque => None end.
Definition model_form_leak (src : endpoint) (s : site) (input : values) : list string :=
  match expected_form s input with
  | None => []
  | Some f => filter (secret_param src) (map fst f)
  end.
