(* The Write* functions (access_error.go, access_write.go, authorize_error.go, authorize_write.go,
   introspection_response_writer.go, revoke_handler.go, pushed_authorize_response_writer.go,
   device_write.go) as functions to an abstract HTTP response: status, the header map after the
   writer's sequence of Set/Add operations, the Location target split into base / query
   parameters / fragment, and the body as an abstract JSON object or form.  Model definitions only.
   Not modelled (decoded back by the harness with the Go standard library): the byte encodings of
   encoding/json, url.Values.Encode, url.URL.String and html/template. *)
From FositeModel Require Export Model.Errors.

Record wcfg := mkCfg {
  c_legacy : bool;                 (* Config.GetUseLegacyErrorFormat *)
  c_expose : bool;                 (* Config.GetSendDebugMessagesToClients *)
  c_custom_modes : list string     (* ResponseModes() of the configured ResponseModeHandler extension *)
}.

(* redirect URI of the authorize request, pre-parsed by Go's net/url *)
Record ruri := mkUri {
  u_base : string;      (* String() without query and fragment *)
  u_query : values;     (* URL.Query() *)
  u_frag : string       (* escaped fragment, "" if none *)
}.

Record areq := mkAr {
  a_mode : string;            (* GetResponseMode(): "", query, fragment, form_post, or anything else *)
  a_valid : bool;             (* IsRedirectURIValid() *)
  a_uri : ruri;
  a_state : string
}.

(* header operations *)
Inductive hop := HSet (k v : string) | HAdd (k v : string).
Definition hrun1 (h : values) (o : hop) : values :=
  match o with HSet k v => vset k v h | HAdd k v => vadd k v h end.
Definition hrun (ops : list hop) : values := fold_left hrun1 ops [].

(* "for k := range rh { wh.Set(k, rh.Get(k)) }": every custom header, first value *)
Definition copy_custom (custom : values) : list hop :=
  map (fun kv => HSet (fst kv) (match snd kv with v :: _ => v | [] => "" end)) custom.

Definition h_cc := "Cache-Control".
Definition h_pragma := "Pragma".
Definition h_ct := "Content-Type".
Definition ct_json := "application/json;charset=UTF-8".
Definition ct_html := "text/html;charset=UTF-8".
Definition cache_ops : list hop := [HSet h_cc "no-store"; HSet h_pragma "no-cache"].

Inductive lfrag := FNone | FRaw (s : string) | FParams (v : values).
Record location := mkLoc { l_base : string; l_query : values; l_frag : lfrag }.

Inductive body :=
| BEmpty
| BJson (o : jobj)
| BForm (action : location) (fields : values)
| BDelegated.          (* written by the integrator's ResponseModeHandler *)

Record response := mkResp {
  r_status : Z;
  r_headers : values;
  r_loc : option location;
  r_body : body
}.

Definition raw_frag (s : string) : lfrag := if nonempty s then FRaw s else FNone.

(* writeJsonError / WriteAccessError / the JSON branch of the other error writers *)
Definition cfg_err (cfg : wcfg) (g : goerr) : rfcerr :=
  with_expose (c_expose cfg) (with_legacy (c_legacy cfg) (as_rfc g)).

Definition write_json_error (cfg : wcfg) (g : goerr) : response :=
  let e := cfg_err cfg g in
  mkResp (e_code e) (hrun ([HSet h_ct ct_json] ++ cache_ops)) None (BJson (marshal_json e)).

(* for key, values := range redirectURI.Query() { for ... { errors.Add(key, value) } } *)
Definition add_all (q : values) (m : values) : values :=
  fold_left (fun acc kv => fold_left (fun a v => vadd (fst kv) v a) (snd kv) acc) q m.

(* q.Set(k, rq.Get(k)) for every k of the response parameters *)
Definition set_firsts (params : values) (q : values) : values :=
  fold_left (fun acc kv => vset (fst kv) (match snd kv with v :: _ => v | [] => "" end) acc) params q.

Definition write_authorize_error (cfg : wcfg) (ar : areq) (g : goerr) : response :=
  if mem (a_mode ar) (c_custom_modes cfg) then
    mkResp 200 (hrun cache_ops) None BDelegated
  else
    let e := cfg_err cfg g in
    if negb (a_valid ar) then
      mkResp (e_code e) (hrun (cache_ops ++ [HSet h_ct ct_json])) None (BJson (marshal_json e))
    else
      let u := a_uri ar in
      let errors := vset "state" (a_state ar) (to_values e) in
      if String.eqb (a_mode ar) "form_post" then
        mkResp 200 (hrun (cache_ops ++ [HSet h_ct ct_html])) None
               (BForm (mkLoc (u_base u) (u_query u) FNone) errors)
      else if String.eqb (a_mode ar) "fragment" then
        mkResp 303 (hrun cache_ops) (Some (mkLoc (u_base u) (u_query u) (FParams errors))) BEmpty
      else
        mkResp 303 (hrun cache_ops) (Some (mkLoc (u_base u) (add_all (u_query u) errors) FNone)) BEmpty.

Definition write_authorize_response (cfg : wcfg) (ar : areq) (custom params : values) : response :=
  let hs := (copy_custom custom ++ cache_ops)%list in
  let u := a_uri ar in
  let m := a_mode ar in
  if String.eqb m "form_post" then
    mkResp 200 (hrun (hs ++ [HAdd h_ct ct_html])) None
           (BForm (mkLoc (u_base u) (u_query u) (raw_frag (u_frag u))) params)
  else if String.eqb m "query" || String.eqb m "" then
    mkResp 303 (hrun hs) (Some (mkLoc (u_base u) (set_firsts params (u_query u)) (raw_frag (u_frag u)))) BEmpty
  else if String.eqb m "fragment" then
    mkResp 303 (hrun hs)
           (Some (mkLoc (u_base u) (u_query u) (match params with [] => FNone | _ => FParams params end))) BEmpty
  else if mem m (c_custom_modes cfg) then
    mkResp 200 (hrun hs) None BDelegated
  else
    mkResp 200 (hrun hs) None BEmpty.

Definition write_access_response (fields : jobj) : response :=
  mkResp 200 (hrun (cache_ops ++ [HSet h_ct ct_json])) None (BJson fields).

Definition inactive_body : body := BJson [("active", JB false)].

(* WriteIntrospectionError: err == nil writes nothing at all *)
Definition write_introspection_error (cfg : wcfg) (og : option goerr) : option response :=
  match og with
  | None => None
  | Some g =>
      if negb (err_is g "token_inactive" 401) && (err_is g "invalid_request" 400 || err_is g "request_unauthorized" 401)
      then Some (write_json_error cfg g)
      else Some (mkResp 200 (hrun ([HSet h_ct ct_json] ++ cache_ops)) None inactive_body)
  end.

(* WriteIntrospectionResponse: only the "active" member is modelled *)
Definition write_introspection_response (active : bool) : response :=
  mkResp 200 (hrun ([HSet h_ct ct_json] ++ cache_ops)) None (BJson [("active", JB active)]).

(* WriteRevocationResponse; sir / sic are the package-level ErrInvalidRequest / ErrInvalidClient values *)
Definition static_err (e : rfcerr) : rfcerr := with_expose false (with_legacy false e).
Definition write_revocation_response (sir sic : rfcerr) (og : option goerr) : response :=
  match og with
  | None => mkResp 200 (hrun cache_ops) None BEmpty
  | Some g =>
      if err_is g (e_name sir) (e_code sir) then
        mkResp (e_code sir) (hrun (cache_ops ++ [HSet h_ct ct_json])) None (BJson (marshal_json (static_err sir)))
      else if err_is g (e_name sic) (e_code sic) then
        mkResp (e_code sic) (hrun (cache_ops ++ [HSet h_ct ct_json])) None (BJson (marshal_json (static_err sic)))
      else
        mkResp 200 (hrun cache_ops) None BEmpty
  end.

Definition write_par_response (custom : values) (fields : jobj) : response :=
  mkResp 201 (hrun (copy_custom custom ++ cache_ops ++ [HSet h_ct ct_json; HSet h_ct ct_json])) None (BJson fields).

Definition write_par_error (cfg : wcfg) (g : goerr) : response :=
  let e := cfg_err cfg g in
  mkResp (e_code e) (hrun (cache_ops ++ [HSet h_ct ct_json])) None (BJson (marshal_json e)).

(* DeviceResponse with its omitempty tags *)
Definition device_fields (dc uc vu vuc : string) (exp ivl : Z) : jobj :=
  ([("Header", JNull);   (* the exported, untagged Header field of the DeviceResponse that is marshalled *)
    ("device_code", JS dc); ("user_code", JS uc); ("verification_uri", JS vu)]
   ++ opt_str "verification_uri_complete" vuc
   ++ [("expires_in", JN exp)]
   ++ (if Z.eqb ivl 0 then [] else [("interval", JN ivl)]))%list.
Definition write_device_response (custom : values) (dc uc vu vuc : string) (exp ivl : Z) : response :=
  mkResp 200 (hrun (copy_custom custom ++ [HSet h_ct ct_json] ++ cache_ops)) None
         (BJson (device_fields dc uc vu vuc exp ivl)).

(* one invocation of a writer *)
Inductive wcall :=
| WAccessError (g : goerr)
| WAccessResponse (fields : jobj)
| WAuthorizeError (ar : areq) (g : goerr)
| WAuthorizeResponse (ar : areq) (custom params : values)
| WIntrospectionError (g : option goerr)
| WIntrospectionResponse (active : bool)
| WRevocationResponse (sir sic : rfcerr) (g : option goerr)
| WParResponse (custom : values) (fields : jobj)
| WParError (g : goerr)
| WDeviceResponse (custom : values) (dc uc vu vuc : string) (exp ivl : Z).

(* None = the writer returned without touching the response *)
Definition write (cfg : wcfg) (c : wcall) : option response :=
  match c with
  | WAccessError g => Some (write_json_error cfg g)
  | WAccessResponse f => Some (write_access_response f)
  | WAuthorizeError ar g => Some (write_authorize_error cfg ar g)
  | WAuthorizeResponse ar cu p => Some (write_authorize_response cfg ar cu p)
  | WIntrospectionError g => write_introspection_error cfg g
  | WIntrospectionResponse a => Some (write_introspection_response a)
  | WRevocationResponse sir sic g => Some (write_revocation_response sir sic g)
  | WParResponse cu f => Some (write_par_response cu f)
  | WParError g => Some (write_par_error cfg g)
  | WDeviceResponse cu dc uc vu vuc ex iv => Some (write_device_response cu dc uc vu vuc ex iv)
  end.
