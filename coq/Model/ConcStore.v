(* The reference store as a sequential machine over storage calls, for the schedule cases of C19.

   A concurrent execution at storage-call granularity is a list of calls in the order in which
   they took effect; each store method is one atomic step (that the real methods are atomic with
   respect to each other is what the lock-discipline theorem is about; RotateRefreshToken is, as
   in storage/memory.go, RevokeRefreshToken followed by RevokeAccessToken).  Keys (token
   signatures, codes, request_uris), request ids and client ids are small numbers assigned by the
   harness in order of first appearance.  Executable definitions only. *)
From FositeModel Require Export Base.Str.

(* finite tables: association lists kept sorted by key, so that equal contents are equal lists *)
Definition tab (A : Type) := list (nat * A).

Fixpoint tget {A} (k : nat) (t : tab A) : option A :=
  match t with
  | [] => None
  | (k', v) :: r => if Nat.eqb k' k then Some v else tget k r
  end.

Fixpoint tset {A} (k : nat) (v : A) (t : tab A) : tab A :=
  match t with
  | [] => [(k, v)]
  | (k', v') :: r =>
      if Nat.eqb k' k then (k, v) :: r
      else if Nat.ltb k k' then (k, v) :: t
      else (k', v') :: tset k v r
  end.

Fixpoint tdel {A} (k : nat) (t : tab A) : tab A :=
  match t with
  | [] => []
  | (k', v') :: r => if Nat.eqb k' k then r else (k', v') :: tdel k r
  end.

Record cstore := CS {
  c_codes : tab (bool * nat);      (* AuthorizeCodes: signature -> (active, request id) *)
  c_at : tab nat;                  (* AccessTokens: signature -> request id *)
  c_rt : tab (bool * nat);         (* RefreshTokens *)
  c_atidx : tab nat;               (* AccessTokenRequestIDs: request id -> signature *)
  c_rtidx : tab nat;               (* RefreshTokenRequestIDs *)
  c_pkce : tab nat;                (* PKCES *)
  c_oidc : tab nat;                (* IDSessions *)
  c_par : tab nat;                 (* PARSessions *)
  c_dev : tab nat;                 (* DeviceAuths: device-code and user-code signatures *)
  c_devidx : tab (nat * nat)       (* DeviceCodesRequestIDs *)
}.

Definition cs0 : cstore := CS [] [] [] [] [] [] [] [] [] [].

(* storage calls (arguments: keys k, request ids r, client ids c) *)
Inductive scall :=
| GCl (c : nat)                                   (* GetClient *)
| CCo (k r : nat) | GCo (k : nat) | ICo (k : nat) (* Create/Get/Invalidate AuthorizeCodeSession *)
| CPk (k r : nat) | GPk (k : nat) | DPk (k : nat) (* PKCE request session *)
| COi (k r : nat) | GOi (k : nat) | DOi (k : nat) (* OpenID Connect session *)
| CAt (k r : nat) | GAt (k : nat) | DAt (k : nat) (* access token session *)
| CRt (k a r : nat) | GRt (k : nat) | DRt (k : nat) (* refresh token session (a = access signature) *)
| VRt (r : nat) | VAt (r : nat)                   (* RevokeRefreshToken / RevokeAccessToken by request id *)
| Rot (r k : nat)                                 (* RotateRefreshToken *)
| CPa (k r : nat) | GPa (k : nat) | DPa (k : nat) (* PAR session *)
| CDv (d u r : nat) | GDv (k : nat) | IDv (k : nat) (* device auth session *)
| Oth (name : string).                            (* a call the model does not track *)

Inductive cres :=
| K                     (* nil error, no record *)
| Rq (r : nat)          (* a record of request r *)
| NF                    (* fosite.ErrNotFound *)
| Ina (r : nat)         (* ErrInactiveToken, with the record *)
| Ivd (r : nat)         (* ErrInvalidatedAuthorizeCode, with the record *)
| Unk.                  (* anything else / not compared *)

Definition set_codes s v := CS v (c_at s) (c_rt s) (c_atidx s) (c_rtidx s) (c_pkce s) (c_oidc s) (c_par s) (c_dev s) (c_devidx s).
Definition set_at s v := CS (c_codes s) v (c_rt s) (c_atidx s) (c_rtidx s) (c_pkce s) (c_oidc s) (c_par s) (c_dev s) (c_devidx s).
Definition set_rt s v := CS (c_codes s) (c_at s) v (c_atidx s) (c_rtidx s) (c_pkce s) (c_oidc s) (c_par s) (c_dev s) (c_devidx s).
Definition set_atidx s v := CS (c_codes s) (c_at s) (c_rt s) v (c_rtidx s) (c_pkce s) (c_oidc s) (c_par s) (c_dev s) (c_devidx s).
Definition set_rtidx s v := CS (c_codes s) (c_at s) (c_rt s) (c_atidx s) v (c_pkce s) (c_oidc s) (c_par s) (c_dev s) (c_devidx s).
Definition set_pkce s v := CS (c_codes s) (c_at s) (c_rt s) (c_atidx s) (c_rtidx s) v (c_oidc s) (c_par s) (c_dev s) (c_devidx s).
Definition set_oidc s v := CS (c_codes s) (c_at s) (c_rt s) (c_atidx s) (c_rtidx s) (c_pkce s) v (c_par s) (c_dev s) (c_devidx s).
Definition set_par s v := CS (c_codes s) (c_at s) (c_rt s) (c_atidx s) (c_rtidx s) (c_pkce s) (c_oidc s) v (c_dev s) (c_devidx s).
Definition set_dev s v := CS (c_codes s) (c_at s) (c_rt s) (c_atidx s) (c_rtidx s) (c_pkce s) (c_oidc s) (c_par s) v (c_devidx s).
Definition set_devidx s v := CS (c_codes s) (c_at s) (c_rt s) (c_atidx s) (c_rtidx s) (c_pkce s) (c_oidc s) (c_par s) (c_dev s) v.

Definition get_plain (t : tab nat) (k : nat) : cres := match tget k t with Some r => Rq r | None => NF end.

(* RevokeRefreshToken: marks the record the index points to inactive; ErrNotFound when the index
   points to a deleted record; nothing when there is no index entry *)
Definition revoke_rt (s : cstore) (r : nat) : cstore * cres :=
  match tget r (c_rtidx s) with
  | None => (s, K)
  | Some k =>
      match tget k (c_rt s) with
      | None => (s, NF)
      | Some (_, r') => (set_rt s (tset k (false, r') (c_rt s)), K)
      end
  end.
(* RevokeAccessToken (repaired, commit 208b00a): deletes EVERY access-token record whose request
   id is r (a loop over AccessTokens); the index AccessTokenRequestIDs is neither consulted nor
   changed.  (Before the repair only the record the index pointed to was deleted.) *)
Definition tdrop_rid (r : nat) (t : tab nat) : tab nat := filter (fun kv => negb (Nat.eqb (snd kv) r)) t.
Definition revoke_at (s : cstore) (r : nat) : cstore * cres := (set_at s (tdrop_rid r (c_at s)), K).

Definition sstep (clients : list nat) (s : cstore) (c : scall) : cstore * cres :=
  match c with
  | GCl c => (s, if existsb (Nat.eqb c) clients then K else NF)
  | CCo k r => (set_codes s (tset k (true, r) (c_codes s)), K)
  | GCo k => (s, match tget k (c_codes s) with None => NF | Some (true, r) => Rq r | Some (false, r) => Ivd r end)
  | ICo k => match tget k (c_codes s) with
             | None => (s, NF)
             | Some (_, r) => (set_codes s (tset k (false, r) (c_codes s)), K)
             end
  | CPk k r => (set_pkce s (tset k r (c_pkce s)), K)
  | GPk k => (s, get_plain (c_pkce s) k)
  | DPk k => (set_pkce s (tdel k (c_pkce s)), K)
  | COi k r => (set_oidc s (tset k r (c_oidc s)), K)
  | GOi k => (s, get_plain (c_oidc s) k)
  | DOi k => (set_oidc s (tdel k (c_oidc s)), K)
  | CAt k r => (set_atidx (set_at s (tset k r (c_at s))) (tset r k (c_atidx s)), K)
  | GAt k => (s, get_plain (c_at s) k)
  | DAt k => (set_at s (tdel k (c_at s)), K)
  | CRt k _ r => (set_rtidx (set_rt s (tset k (true, r) (c_rt s))) (tset r k (c_rtidx s)), K)
  | GRt k => (s, match tget k (c_rt s) with None => NF | Some (true, r) => Rq r | Some (false, r) => Ina r end)
  | DRt k => (set_rt s (tdel k (c_rt s)), K)
  | VRt r => revoke_rt s r
  | VAt r => revoke_at s r
  | Rot r _ => match revoke_rt s r with
               | (s', K) => revoke_at s' r
               | (s', e) => (s', e)
               end
  | CPa k r => (set_par s (tset k r (c_par s)), K)
  | GPa k => (s, get_plain (c_par s) k)
  | DPa k => (set_par s (tdel k (c_par s)), K)
  | CDv d u r => (set_devidx (set_dev s (tset u r (tset d r (c_dev s)))) (tset r (d, u) (c_devidx s)), K)
  | GDv k => (s, get_plain (c_dev s) k)
  | IDv k => (set_dev s (tdel k (c_dev s)), K)
  | Oth _ => (s, Unk)
  end.

Fixpoint replay (clients : list nat) (s : cstore) (cs : list scall) : cstore :=
  match cs with
  | [] => s
  | c :: r => replay clients (fst (sstep clients s c)) r
  end.

(* credentials handed to callers *)
Inductive tkind := TAccess | TRefresh | TCode.
Definition live (s : cstore) (kd : tkind) (k : nat) : bool :=
  match kd with
  | TAccess => match tget k (c_at s) with Some _ => true | None => false end
  | TRefresh => match tget k (c_rt s) with Some (true, _) => true | _ => false end
  | TCode => match tget k (c_codes s) with Some (true, _) => true | _ => false end
  end.
