(* Core of the history model: configuration, clients, stored requests, the reference store
   (storage/memory.go) as finite maps with one function per store method, server state.
   Executable definitions only. *)
From FositeModel Require Export Base.Str Model.Scope.

(* ------------------------------------------------------------------ finite maps keyed by nat *)
Definition fmap (A : Type) := nat -> option A.
Definition fempty {A} : fmap A := fun _ => None.
Definition upd {A} (m : fmap A) (k : nat) (v : option A) : fmap A :=
  fun k' => if Nat.eqb k' k then v else m k'.
(* a presented credential may be unknown to the server: lookups with [None] fail *)
Definition find {A} (m : fmap A) (k : option nat) : option A :=
  match k with Some k => m k | None => None end.

(* ------------------------------------------------------------------ time: Z milliseconds *)
Definition round_s (t : Z) : Z := ((t + 500) / 1000 * 1000)%Z.   (* time.Round(time.Second), t >= 0 *)
Definition secs (d : Z) : Z := Z.quot d 1000.                    (* int64(d / time.Second) *)

(* ------------------------------------------------------------------ configuration *)
Record config := {
  cf_scope : scope_strategy;
  cf_aud_exact : bool;
  cf_refresh_scopes : list string;
  cf_life_code : Z;            (* ms *)
  cf_life_at : Z;
  cf_life_rt : Z;              (* ms; negative = refresh tokens do not expire (-1) *)
  cf_pkce_enforce : bool;
  cf_pkce_enforce_public : bool;
  cf_pkce_plain : bool;
  cf_introspect_rt : bool;     (* false = DisableRefreshTokenValidation *)
  cf_life_dev : Z;             (* device and user code lifespan *)
  cf_par_life : Z;             (* pushed authorization context lifespan *)
  cf_par_enforced : bool;
  cf_dev_contract : bool       (* the device-code table follows the storage contract (handler/rfc8628/storage.go): an
                                  invalidated code is answered with its request and ErrInvalidatedDeviceCode; false = the
                                  reference store, which deletes the record *)
}.

(* client_with_custom_token_lifespans.go: per-client overrides of the server's lifetimes, one per
   (grant, token type) pair; None = not set. Only the pairs of flows that exist in this model. *)
Record lifespans := {
  lf_ac_at : option Z; lf_ac_rt : option Z;      (* authorization_code grant: access / refresh token *)
  lf_cc_at : option Z;                            (* client_credentials grant *)
  lf_im_at : option Z;                            (* implicit grant (the hybrid flow inherits it) *)
  lf_pw_at : option Z; lf_pw_rt : option Z;      (* password grant *)
  lf_rt_at : option Z; lf_rt_rt : option Z       (* refresh_token grant *)
}.
Inductive lgrant := LAuthCode | LClientCreds | LImplicit | LPassword | LRefresh | LDevice.

Record client := {
  cl_public : bool;
  cl_grants : list string;
  cl_scopes : list string;
  cl_aud : list aurl;
  cl_life : option lifespans          (* TokenLifespans; None = nil *)
}.

(* DefaultClientWithCustomTokenLifespans.GetEffectiveLifespan: the override of exactly this pair, else the fallback.
   The device grant has no entry in the table. *)
Definition override (cl : client) (g : lgrant) (refresh : bool) : option Z :=
  match cl_life cl with
  | None => None
  | Some l =>
      match g, refresh with
      | LAuthCode, false => lf_ac_at l | LAuthCode, true => lf_ac_rt l
      | LClientCreds, false => lf_cc_at l
      | LImplicit, false => lf_im_at l
      | LPassword, false => lf_pw_at l | LPassword, true => lf_pw_rt l
      | LRefresh, false => lf_rt_at l | LRefresh, true => lf_rt_rt l
      | _, _ => None
      end
  end.
Definition eff (o : option Z) (fallback : Z) : Z := match o with Some v => v | None => fallback end.

(* the configuration a grant of kind [g] to client [cl] mints with: only the two token lifetimes can differ *)
Definition eff_cfg (cfg : config) (cl : client) (g : lgrant) : config :=
  {| cf_scope := cf_scope cfg; cf_aud_exact := cf_aud_exact cfg; cf_refresh_scopes := cf_refresh_scopes cfg;
     cf_life_code := cf_life_code cfg;
     cf_life_at := eff (override cl g false) (cf_life_at cfg);
     cf_life_rt := eff (override cl g true) (cf_life_rt cfg);
     cf_pkce_enforce := cf_pkce_enforce cfg; cf_pkce_enforce_public := cf_pkce_enforce_public cfg; cf_pkce_plain := cf_pkce_plain cfg;
     cf_introspect_rt := cf_introspect_rt cfg; cf_life_dev := cf_life_dev cfg; cf_par_life := cf_par_life cfg;
     cf_par_enforced := cf_par_enforced cfg; cf_dev_contract := cf_dev_contract cfg |}.

Definition aud_ok (cfg : config) (hs ns : list aurl) : bool :=
  if cf_aud_exact cfg then exact_audience (map a_raw hs) (map a_raw ns) else default_audience hs ns.

(* ------------------------------------------------------------------ stored requests *)
Record sess := {
  s_subject : string;
  s_exp_code : option Z;
  s_exp_at : option Z;
  s_exp_rt : option Z;
  s_exp_dev : option Z         (* device code and user code (same instant) *)
}.

Record req := {
  r_id : nat;                 (* fosite request id: shared by every record of one grant *)
  r_client : nat;
  r_cl : client;              (* the client object the stored request points to: the registration
                                 as it was when the record was written (MemoryStore keeps the pointer) *)
  r_rscopes : list string;
  r_gscopes : list string;
  r_raud : list aurl;
  r_gaud : list aurl;
  r_sess : sess;
  r_redirect : string;        (* form value kept by Sanitize in the code record *)
  r_challenge : string;       (* only meaningful in PKCE records *)
  r_method : string;
  r_mode : string;            (* pushed authorization requests: the pushed response_mode ("" = none) *)
  r_at : Z                    (* RequestedAt *)
}.

Definition with_sess (r : req) (s : sess) : req :=
  {| r_id := r_id r; r_client := r_client r; r_cl := r_cl r; r_rscopes := r_rscopes r; r_gscopes := r_gscopes r;
     r_raud := r_raud r; r_gaud := r_gaud r; r_sess := s; r_redirect := r_redirect r;
     r_challenge := r_challenge r; r_method := r_method r; r_mode := ""; r_at := r_at r |}.

(* ------------------------------------------------------------------ the reference store *)
Record store := {
  codes : fmap (bool * req);        (* AuthorizeCodes: active flag *)
  access : fmap req;                (* AccessTokens minted by the token endpoint *)
  implicit : fmap req;              (* AccessTokens minted by the authorization endpoint (implicit / hybrid); the
                                       reference store keeps both kinds in one map, signatures never collide *)
  refresh : fmap (bool * req);      (* RefreshTokens: active flag *)
  at_idx : fmap nat;                (* AccessTokenRequestIDs: request id -> signature *)
  rt_idx : fmap nat;                (* RefreshTokenRequestIDs *)
  pkce : fmap req;                  (* PKCES *)
  oidc : fmap req;                  (* IDSessions, keyed by the authorization code *)
  device : fmap (nat * req);        (* DeviceAuths under the device-code signature: user-code state (0 unused, 1 accepted, 2 rejected) *)
  par : fmap req;                   (* PARSessions *)
  dev_used : fmap nat               (* invalidated device codes: signature -> request id. Written by every invalidation,
                                       read only when cf_dev_contract is set (the reference store forgets them) *)
}.

Definition store0 : store :=
  {| codes := fempty; access := fempty; implicit := fempty; refresh := fempty; at_idx := fempty; rt_idx := fempty; pkce := fempty;
     oidc := fempty; device := fempty; par := fempty; dev_used := fempty |}.

Definition set_codes st v := {| codes := v; access := access st; implicit := implicit st; refresh := refresh st; at_idx := at_idx st; rt_idx := rt_idx st; pkce := pkce st; oidc := oidc st; device := device st; par := par st; dev_used := dev_used st |}.
Definition set_access st v := {| codes := codes st; access := v; implicit := implicit st; refresh := refresh st; at_idx := at_idx st; rt_idx := rt_idx st; pkce := pkce st; oidc := oidc st; device := device st; par := par st; dev_used := dev_used st |}.
Definition set_implicit st v := {| codes := codes st; access := access st; implicit := v; refresh := refresh st; at_idx := at_idx st; rt_idx := rt_idx st; pkce := pkce st; oidc := oidc st; device := device st; par := par st; dev_used := dev_used st |}.
Definition set_refresh st v := {| codes := codes st; access := access st; implicit := implicit st; refresh := v; at_idx := at_idx st; rt_idx := rt_idx st; pkce := pkce st; oidc := oidc st; device := device st; par := par st; dev_used := dev_used st |}.
Definition set_at_idx st v := {| codes := codes st; access := access st; implicit := implicit st; refresh := refresh st; at_idx := v; rt_idx := rt_idx st; pkce := pkce st; oidc := oidc st; device := device st; par := par st; dev_used := dev_used st |}.
Definition set_rt_idx st v := {| codes := codes st; access := access st; implicit := implicit st; refresh := refresh st; at_idx := at_idx st; rt_idx := v; pkce := pkce st; oidc := oidc st; device := device st; par := par st; dev_used := dev_used st |}.
Definition set_oidc st v := {| codes := codes st; access := access st; implicit := implicit st; refresh := refresh st; at_idx := at_idx st; rt_idx := rt_idx st; pkce := pkce st; oidc := v; device := device st; par := par st; dev_used := dev_used st |}.
Definition set_device st v := {| codes := codes st; access := access st; implicit := implicit st; refresh := refresh st; at_idx := at_idx st; rt_idx := rt_idx st; pkce := pkce st; oidc := oidc st; device := v; par := par st; dev_used := dev_used st |}.
Definition set_par st v := {| codes := codes st; access := access st; implicit := implicit st; refresh := refresh st; at_idx := at_idx st; rt_idx := rt_idx st; pkce := pkce st; oidc := oidc st; device := device st; par := v; dev_used := dev_used st |}.
Definition set_dev_used st v := {| codes := codes st; access := access st; implicit := implicit st; refresh := refresh st; at_idx := at_idx st; rt_idx := rt_idx st; pkce := pkce st; oidc := oidc st; device := device st; par := par st; dev_used := v |}.
Definition set_pkce st v := {| codes := codes st; access := access st; implicit := implicit st; refresh := refresh st; at_idx := at_idx st; rt_idx := rt_idx st; pkce := v; oidc := oidc st; device := device st; par := par st; dev_used := dev_used st |}.

(* store methods; the result type says which error the method returned *)
Inductive serr := SNotFound | SInactive.

Definition create_code st k r := set_codes st (upd (codes st) k (Some (true, r))).
Definition invalidate_code st k : store * bool :=
  match codes st k with
  | None => (st, false)
  | Some (_, r) => (set_codes st (upd (codes st) k (Some (false, r))), true)
  end.
Definition create_pkce st k r := set_pkce st (upd (pkce st) k (Some r)).
Definition delete_pkce st k := set_pkce st (upd (pkce st) k None).
Definition create_access st k (r : req) :=
  set_at_idx (set_access st (upd (access st) k (Some r))) (upd (at_idx st) (r_id r) (Some k)).
(* DeleteAccessTokenSession(signature): whichever endpoint minted it *)
Definition delete_access st k := set_implicit (set_access st (upd (access st) k None)) (upd (implicit st) k None).
Definition create_implicit st k (r : req) :=
  set_at_idx (set_implicit st (upd (implicit st) k (Some r))) (upd (at_idx st) (r_id r) (Some k)).
(* GetAccessTokenSession(signature) *)
Definition lookup_access st (k : option nat) : option req :=
  match k with
  | None => None
  | Some k => match access st k with Some r => Some r | None => implicit st k end
  end.
Definition create_refresh st k (r : req) :=
  set_rt_idx (set_refresh st (upd (refresh st) k (Some (true, r)))) (upd (rt_idx st) (r_id r) (Some k)).
Definition delete_refresh st k := set_refresh st (upd (refresh st) k None).

(* device authorizations (under the device-code signature; the user-code entry points to the same request) *)
Definition put_device st k (v : nat * req) := set_device st (upd (device st) k (Some v)).
Definition delete_device st k := set_device st (upd (device st) k None).
(* InvalidateDeviceCodeSession: the record leaves the table of pending codes; its request id is remembered *)
Definition invalidate_device st k (rid : nat) := set_dev_used (delete_device st k) (upd (dev_used st) k (Some rid)).
(* what GetDeviceCodeSession finds among the invalidated codes *)
Definition used_device (cfg : config) st k : option nat := if cf_dev_contract cfg then dev_used st k else None.
(* pushed authorization requests *)
Definition create_par st k (r : req) := set_par st (upd (par st) k (Some r)).
Definition delete_par st k := set_par st (upd (par st) k None).

(* RevokeRefreshToken(requestID): marks the record the index points to inactive;
   ErrNotFound when the index points to a deleted record; nothing when there is no index entry *)
Definition revoke_refresh st rid : store * option serr :=
  match rt_idx st rid with
  | None => (st, None)
  | Some k =>
      match refresh st k with
      | None => (st, Some SNotFound)
      | Some (_, r) => (set_refresh st (upd (refresh st) k (Some (false, r))), None)
      end
  end.
(* RevokeAccessToken(requestID): deletes the record the index points to *)
(* RevokeAccessToken(requestID): every access token of the request is deleted (the hybrid flow stores two under one
   request id: one minted by the authorization endpoint, one by the token endpoint); the index is left as it is *)
Definition drop_rid (t : fmap req) (rid : nat) : fmap req :=
  fun k => match t k with Some r => if Nat.eqb (r_id r) rid then None else Some r | None => None end.
Definition revoke_access st rid : store :=
  set_implicit (set_access st (drop_rid (access st) rid)) (drop_rid (implicit st) rid).
Arguments revoke_access : simpl never.
(* RotateRefreshToken(requestID, _) = RevokeRefreshToken; RevokeAccessToken *)
Definition rotate_refresh st rid : store * option serr :=
  match revoke_refresh st rid with
  | (st', Some e) => (st', Some e)
  | (st', None) => (revoke_access st' rid, None)
  end.

(* ------------------------------------------------------------------ credentials handed out *)
Inductive ckind := KCode | KAccess | KRefresh | KDevice | KUser | KPar | KImplicit.
Definition ckind_eqb a b :=
  match a, b with
  | KCode, KCode | KAccess, KAccess | KRefresh, KRefresh | KDevice, KDevice | KUser, KUser | KPar, KPar | KImplicit, KImplicit => true
  | _, _ => false
  end.

Record issued := { i_kind : ckind; i_key : nat; i_rid : nat; i_endpoint_token : bool (* minted by the token endpoint *) }.

(* how a client presents a credential: a reference into the log of issued credentials (or an
   unknown, well-formed token), possibly with the random part altered (the signature part, by
   which the store is keyed, is kept) *)
Inductive cref := CRef (i : nat) | CUnknown.
Record pres := { p_ref : cref; p_tampered : bool }.

Record state := {
  st : store;
  clients : fmap client;
  now : Z;
  next_key : nat;
  next_rid : nat;
  log : list issued;
  owner : fmap (ckind * nat)     (* ghost: for which kind of credential and which request id a key was minted *)
}.

Definition state0 (cls : fmap client) : state :=
  {| st := store0; clients := cls; now := 0%Z; next_key := 0; next_rid := 0; log := []; owner := fempty |}.

Definition key_of (s : state) (p : pres) : option nat :=
  match p_ref p with
  | CRef i => option_map i_key (nth_error (log s) i)
  | CUnknown => None
  end.

Definition set_store (s : state) (x : store) : state :=
  {| st := x; clients := clients s; now := now s; next_key := next_key s; next_rid := next_rid s; log := log s; owner := owner s |}.
Definition set_clients (s : state) (c : fmap client) : state :=
  {| st := st s; clients := c; now := now s; next_key := next_key s; next_rid := next_rid s; log := log s; owner := owner s |}.
Definition set_now (s : state) (t : Z) : state :=
  {| st := st s; clients := clients s; now := t; next_key := next_key s; next_rid := next_rid s; log := log s; owner := owner s |}.
(* token generation: a fresh signature, never handed out before *)
Definition mint (s : state) (kd : ckind) (rid : nat) : nat * state :=
  (next_key s, {| st := st s; clients := clients s; now := now s; next_key := S (next_key s); next_rid := next_rid s;
                  log := log s; owner := upd (owner s) (next_key s) (Some (kd, rid)) |}).
Definition fresh_rid (s : state) : nat * state :=
  (next_rid s, {| st := st s; clients := clients s; now := now s; next_key := next_key s; next_rid := S (next_rid s); log := log s; owner := owner s |}).
Definition log_add (s : state) (l : list issued) : state :=
  {| st := st s; clients := clients s; now := now s; next_key := next_key s; next_rid := next_rid s; log := (log s ++ l)%list; owner := owner s |}.
