(* The endpoints and handlers of the core flows as functions on the server state:
   authorization endpoint (code flow, PKCE), token endpoint (authorization_code, refresh_token),
   revocation endpoint, introspection.  Each definition follows the order of checks of the Go
   code named next to it; the handler order is that of compose.ComposeAllEnabled. *)
From FositeModel Require Export Model.Core.

Record obs := {
  o_err : string;               (* "" = success, otherwise the RFC error name *)
  o_minted : list ckind;        (* credentials in the response, in the order they enter the log *)
  o_expires_in : Z;             (* expires_in of a token response (seconds) *)
  o_scopes : list string        (* scope of a token response *)
}.
Definition ok_obs minted ein sc := {| o_err := ""; o_minted := minted; o_expires_in := ein; o_scopes := sc |}.
Definition err_obs e := {| o_err := e; o_minted := []; o_expires_in := 0%Z; o_scopes := [] |}.
Definition fail (s : state) (e : string) : state * obs := (s, err_obs e).

(* what introspection reports about an active token *)
Record payload := {
  pl_use : ckind;
  pl_client : nat;
  pl_subject : string;
  pl_scopes : list string;
  pl_aud : list string;
  pl_exp : option Z             (* expiry of the token in ms; None = none recorded *)
}.

Inductive hint := HAccess | HRefresh | HOther.

Inductive rtype := RCode | RToken | RCodeToken.   (* response_type: "code", "token", "code token" *)

Record authz := {
  az_rtype : rtype;
  az_client : nat;
  az_redirect : string;         (* "" = parameter not sent *)
  az_scopes : list string;      (* requested *)
  az_granted : list string;     (* granted by the resource owner (integrator) *)
  az_aud : list aurl;           (* requested audience *)
  az_gaud : list aurl;          (* audience granted by the integrator *)
  az_subject : string;
  az_challenge : string;
  az_method : string;
  az_mode : string        (* response_mode parameter ("" = none); only pushed requests and their follow-up carry one in this model *)
}.

(* who calls the introspection endpoint: client credentials (Basic) or a bearer token *)
Inductive caller := CallerClient (auth : option nat) | CallerBearer (tok : pres).

Inductive op :=
| OAuthorize (a : authz)
| ORedeem (auth : option nat) (code : pres) (redirect : string) (verifier verifier_s256 : string) (smuggled : list string)
| ORefresh (auth : option nat) (tok : pres) (smuggled : list string)
| ORevoke (auth : option nat) (tok : pres) (h : hint)
| OIntrospect (tok : pres) (h : hint) (scopes : list string)
| OAdvance (ms : Z)
| OSetClient (id : nat) (c : client)
| OPassword (auth : option nat) (creds_ok : bool) (scopes : list string) (aud : list aurl)
            (granted : list string) (gaud : list aurl)
| OClientCreds (auth : option nat) (scopes : list string) (aud : list aurl) (granted : list string) (gaud : list aurl)
| OIntrospectEP (caller : caller) (tok : pres) (h : hint) (scopes : list string)
| OPush (auth : option nat) (body_client : option nat) (has_request_uri : bool) (a : authz)
| OAuthorizePAR (client_param : nat) (uri : pres) (a : authz)
| ODeviceAuth (auth : option nat) (body_client : nat) (scopes : list string) (aud : list aurl)
| ODecide (dev : pres) (accept : bool) (granted : list string) (gaud : list aurl) (subject : string) (fresh_session : bool)
| ODevicePoll (auth : option nat) (dev : pres)
(* a token request whose grant_type is not exactly one of the registered grant types (e.g. another letter case):
   no handler is responsible (access_request_handler.go / access_response_writer.go) *)
| OTokenOther (auth : option nat).

(* ------------------------------------------------------------------ small helpers *)
Definition scopes_ok (cfg : config) (cl : client) (scopes : list string) : bool :=
  forallb (scope_match (cf_scope cfg) (cl_scopes cl)) scopes.

Definition before (a b : Z) : bool := Z.ltb a b.    (* time.Before *)

(* strategy_hmacsha_plain.go: Validate{AuthorizeCode,AccessToken}: expiry from the session, else RequestedAt + lifespan *)
Definition expired (exp : option Z) (requested_at life now_ : Z) : bool :=
  match exp with
  | None => before (requested_at + life)%Z now_
  | Some e => before e now_
  end.
(* ValidateRefreshToken: no expiry recorded = never expires *)
Definition expired_rt (exp : option Z) (now_ : Z) : bool :=
  match exp with None => false | Some e => before e now_ end.

Definition set_token_expiries (cfg : config) (now_ : Z) (se : sess) : sess :=
  {| s_subject := s_subject se; s_exp_code := s_exp_code se;
     s_exp_at := Some (round_s (now_ + cf_life_at cfg));
     s_exp_rt := if Z.leb 0 (cf_life_rt cfg) then Some (round_s (now_ + cf_life_rt cfg)) else s_exp_rt se;
     s_exp_dev := s_exp_dev se |}.

Definition expires_in (se : sess) (cfg : config) (now_ : Z) : Z :=
  match s_exp_at se with
  | None => secs (cf_life_at cfg)
  | Some e => secs (e - now_)
  end.

(* flow_authorize_code_token.go canIssueRefreshToken / rfc8628 canIssueRefreshToken *)
Definition can_refresh (cfg : config) (granted : list string) (cl : client) : bool :=
  (match cf_refresh_scopes cfg with [] => true | sc => args_has_one_of granted sc end)
  && args_has (cl_grants cl) ["refresh_token"].

(* mint an access token (and a refresh token), store the sessions under their signatures and hand
   them out: GenerateAccessToken / GenerateRefreshToken / CreateAccessTokenSession /
   CreateRefreshTokenSession of the issuing handlers *)
Definition grant_tokens (s : state) (stored : req) (with_rt : bool) : state * list ckind :=
  let (ka, s2) := mint s KAccess (r_id stored) in
  if with_rt then
    let (kr, s3) := mint s2 KRefresh (r_id stored) in
    (log_add (set_store s3 (create_refresh (create_access (st s3) ka stored) kr stored))
       [{| i_kind := KAccess; i_key := ka; i_rid := r_id stored; i_endpoint_token := true |};
        {| i_kind := KRefresh; i_key := kr; i_rid := r_id stored; i_endpoint_token := true |}],
     [KAccess; KRefresh])
  else
    (log_add (set_store s2 (create_access (st s2) ka stored))
       [{| i_kind := KAccess; i_key := ka; i_rid := r_id stored; i_endpoint_token := true |}],
     [KAccess]).

(* a grant that starts at the token endpoint: a new request id, then the token sessions *)
Definition fresh_grant (s : state) (mk : nat -> req) (w : bool) : state * list ckind :=
  let (rid, s1) := fresh_rid s in grant_tokens s1 (mk rid) w.

(* ------------------------------------------------------------------ PKCE (handler/pkce/handler.go) *)
Definition pkce_no_pkce (cfg : config) (cl : client) : option string :=
  if cf_pkce_enforce cfg then Some "invalid_request"
  else if cf_pkce_enforce_public cfg && cl_public cl then Some "invalid_request"
  else None.

Definition pkce_validate (cfg : config) (challenge method : string) (cl : client) : option string :=
  if String.eqb challenge "" then pkce_no_pkce cfg cl
  else if String.eqb method "S256" then None
  else if String.eqb method "plain" || String.eqb method "" then
         (if cf_pkce_plain cfg then None else Some "invalid_request")
  else Some "invalid_request".

(* [^\w\.\-~] *)
Definition verifier_char_ok (c : ascii) : bool :=
  let n := nat_of_ascii c in
  (Nat.leb 48 n && Nat.leb n 57) || (Nat.leb 65 n && Nat.leb n 90) || (Nat.leb 97 n && Nat.leb n 122)
  || Nat.eqb n 95 || Nat.eqb n 46 || Nat.eqb n 45 || Nat.eqb n 126.
Fixpoint verifier_chars_ok (s : string) : bool :=
  match s with EmptyString => true | String c r => verifier_char_ok c && verifier_chars_ok r end.

(* HandleTokenEndpointRequest of the PKCE handler; [cl] is the authenticated client of the token
   request.  The handler only reads the session here; it is consumed in the populate phase, after the
   authorize-code handler has exchanged the code (see [redeem]). *)
Definition pkce_token (cfg : config) (s : state) (cl : client) (key : option nat)
           (verifier verifier_s256 : string) : state * option string :=
  match find (pkce (st s)) key, key with
  | Some pr, Some k =>
      let s1 := s in
      let challenge := r_challenge pr in
      let method := r_method pr in
          match pkce_validate cfg challenge method (r_cl pr) with
          | Some e => (s1, Some e)
          | None =>
              let nv := String.length verifier in
              let nc := String.length challenge in
              if negb (cf_pkce_enforce cfg) && Nat.eqb nc 0 && Nat.eqb nv 0 then (s1, None)
              else if Nat.ltb nv 43 then (s1, Some "invalid_grant")
              else if Nat.ltb 128 nv then (s1, Some "invalid_grant")
              else if negb (verifier_chars_ok verifier) then (s1, Some "invalid_grant")
              else if Nat.eqb nc 0 then (s1, Some "invalid_grant")
              else if String.eqb method "S256" then
                     (if String.eqb verifier_s256 challenge then (s1, None) else (s1, Some "invalid_grant"))
              else (if String.eqb verifier challenge then (s1, None) else (s1, Some "invalid_grant"))
          end
  | _, _ =>
      if Nat.eqb (String.length verifier) 0 then (s, pkce_no_pkce cfg cl)
      else (s, Some "invalid_grant")
  end.

(* ------------------------------------------------------------------ authorization endpoint, code flow *)
(* AuthorizeExplicitGrantHandler.HandleAuthorizeEndpointRequest + IssueAuthorizeCode, then the PKCE handler,
   for the client object [cl] the request carries *)
Definition authorize_core (cfg : config) (s : state) (cl : client) (a : authz) : state * obs :=
  if negb (scopes_ok cfg cl (az_scopes a)) then fail s "invalid_scope"
  else if negb (aud_ok cfg (cl_aud cl) (az_aud a)) then fail s "invalid_request"
  else
    let (rid, s1) := fresh_rid s in
    let (k, s2) := mint s1 KCode rid in
    let se := {| s_subject := az_subject a; s_exp_code := Some (now s + cf_life_code cfg)%Z;
                 s_exp_at := None; s_exp_rt := None; s_exp_dev := None |} in
    let r := {| r_id := rid; r_client := az_client a; r_cl := cl; r_rscopes := az_scopes a; r_gscopes := az_granted a;
                r_raud := az_aud a; r_gaud := az_gaud a; r_sess := se; r_redirect := az_redirect a;
                r_challenge := ""; r_method := ""; r_mode := ""; r_at := now s |} in
    let s3 := set_store s2 (create_code (st s2) k r) in
    (* pkce.Handler.HandleAuthorizeEndpointRequest (runs last) *)
    match pkce_validate cfg (az_challenge a) (az_method a) cl with
    | Some e => fail s3 e
    | None =>
        let s4 :=
          if String.eqb (az_challenge a) "" && String.eqb (az_method a) "" then s3
          else set_store s3 (create_pkce (st s3) k
                 {| r_id := rid; r_client := az_client a; r_cl := cl; r_rscopes := az_scopes a; r_gscopes := az_granted a;
                    r_raud := az_aud a; r_gaud := az_gaud a; r_sess := se; r_redirect := "";
                    r_challenge := az_challenge a; r_method := az_method a; r_mode := ""; r_at := now s |}) in
        (log_add s4 [{| i_kind := KCode; i_key := k; i_rid := rid; i_endpoint_token := false |}],
         ok_obs [KCode] 0%Z [])
    end.

(* NewAuthorizeRequest without request_uri: refused when pushing is enforced; the client is looked up by the
   client_id parameter; scope and audience are validated against its registration (the same checks the
   handler repeats) *)
(* AuthorizeImplicitGrantTypeHandler (response_type=token): an access token minted by the authorization endpoint *)
Definition implicit_session (cfg : config) (s : state) (cl : client) (a : authz) (exp_code : option Z) : sess :=
  {| s_subject := az_subject a; s_exp_code := exp_code; s_exp_at := Some (round_s (now s + cf_life_at (eff_cfg cfg cl LImplicit)));
     s_exp_rt := None; s_exp_dev := None |}.

Definition store_implicit (cfg : config) (s : state) (cl : client) (a : authz) (rid : nat) (exp_code : option Z) : state * nat :=
  let (ka, s1) := mint s KImplicit rid in
  let se := implicit_session cfg s cl a exp_code in
  let r := {| r_id := rid; r_client := az_client a; r_cl := cl; r_rscopes := az_scopes a; r_gscopes := az_granted a;
              r_raud := az_aud a; r_gaud := az_gaud a; r_sess := se; r_redirect := "";
              r_challenge := ""; r_method := ""; r_mode := ""; r_at := now s |} in
  (set_store s1 (create_implicit (st s1) ka r), ka).

(* the token reaches the caller (and the log of issued credentials) only when the whole request succeeds *)
Definition issue_implicit (cfg : config) (s : state) (cl : client) (a : authz) (rid : nat) (exp_code : option Z) : state * Z :=
  let (s2, ka) := store_implicit cfg s cl a rid exp_code in
  (log_add s2 [{| i_kind := KImplicit; i_key := ka; i_rid := rid; i_endpoint_token := false |}],
   expires_in (implicit_session cfg s cl a exp_code) cfg (now s)).

Definition authorize_implicit (cfg : config) (s : state) (cl : client) (a : authz) : state * obs :=
  if negb (scopes_ok cfg cl (az_scopes a)) then fail s "invalid_scope"
  else if negb (aud_ok cfg (cl_aud cl) (az_aud a)) then fail s "invalid_request"
  else if negb (args_has (cl_grants cl) ["implicit"]) then fail s "invalid_grant"
  else
    let (rid, s1) := fresh_rid s in
    let (s2, ein) := issue_implicit cfg s1 cl a rid None in
    (s2, ok_obs [KImplicit] ein []).

(* OpenIDConnectHybridHandler for response_type "code token" (no id_token): a code and an access token that
   share the request id; the code's expiry is rounded here; the PKCE handler runs afterwards *)
Definition authorize_hybrid (cfg : config) (s : state) (cl : client) (a : authz) : state * obs :=
  if negb (scopes_ok cfg cl (az_scopes a)) then fail s "invalid_scope"
  else if negb (aud_ok cfg (cl_aud cl) (az_aud a)) then fail s "invalid_request"
  else if String.eqb (az_redirect a) "" then fail s "invalid_request"
  else if negb (args_has (cl_grants cl) ["authorization_code"]) then fail s "invalid_grant"
  else
    let (rid, s1) := fresh_rid s in
    let (k, s2) := mint s1 KCode rid in
    let exp_code := Some (round_s (now s + cf_life_code cfg)) in
    let se := {| s_subject := az_subject a; s_exp_code := exp_code; s_exp_at := None; s_exp_rt := None; s_exp_dev := None |} in
    let r := {| r_id := rid; r_client := az_client a; r_cl := cl; r_rscopes := az_scopes a; r_gscopes := az_granted a;
                r_raud := az_aud a; r_gaud := az_gaud a; r_sess := se; r_redirect := az_redirect a;
                r_challenge := ""; r_method := ""; r_mode := ""; r_at := now s |} in
    let s3 := set_store s2 (create_code (st s2) k r) in
    if negb (args_has (cl_grants cl) ["implicit"]) then fail s3 "invalid_grant"
    else
      match pkce_validate cfg (az_challenge a) (az_method a) cl with
      | Some e => fail (fst (store_implicit cfg s3 cl a rid exp_code)) e   (* stored, never handed out *)
      | None =>
          let (s4, ein) := issue_implicit cfg s3 cl a rid exp_code in
          let s5 :=
            if String.eqb (az_challenge a) "" && String.eqb (az_method a) "" then s4
            else set_store s4 (create_pkce (st s4) k
                   {| r_id := rid; r_client := az_client a; r_cl := cl; r_rscopes := az_scopes a; r_gscopes := az_granted a;
                      r_raud := az_aud a; r_gaud := az_gaud a; r_sess := implicit_session cfg s cl a exp_code; r_redirect := "";
                      r_challenge := az_challenge a; r_method := az_method a; r_mode := ""; r_at := now s |}) in
          (log_add s5 [{| i_kind := KCode; i_key := k; i_rid := rid; i_endpoint_token := false |}],
           ok_obs [KImplicit; KCode] ein [])
      end.

Definition authorize (cfg : config) (s : state) (a : authz) : state * obs :=
  if cf_par_enforced cfg then fail s "invalid_request"
  else match clients s (az_client a) with
       | None => fail s "invalid_client"
       | Some cl =>
           match az_rtype a with
           | RCode => authorize_core cfg s cl a
           | RToken => authorize_implicit cfg s cl a
           | RCodeToken => authorize_hybrid cfg s cl a
           end
       end.

(* ------------------------------------------------------------------ pushed authorization requests *)
(* NewPushedAuthorizeRequest + PushedAuthorizeHandler: the caller authenticates as [auth]; the request is
   validated for the client named by the body's client_id (the authenticated client when absent) and
   refused unless that is the authenticated client *)
Definition push (cfg : config) (s : state) (auth : option nat) (body_client : option nat) (has_request_uri : bool)
           (a : authz) : state * obs :=
  match auth with
  | None => fail s "invalid_client"
  | Some c =>
  match clients s c with
  | None => fail s "invalid_client"
  | Some _ =>
      if has_request_uri then fail s "invalid_request"
      else
      let cid := match body_client with Some b => b | None => c end in
      match clients s cid with
      | None => fail s "invalid_client"
      | Some cl =>
          if negb (scopes_ok cfg cl (az_scopes a)) then fail s "invalid_scope"
          else if negb (aud_ok cfg (cl_aud cl) (az_aud a)) then fail s "invalid_request"
          (* the pushed request must belong to the authenticated client *)
          else if negb (Nat.eqb cid c) then fail s "invalid_request"
          else
            let (rid, s1) := fresh_rid s in
            let (k, s2) := mint s1 KPar rid in
            let r := {| r_id := rid; r_client := cid; r_cl := cl; r_rscopes := az_scopes a; r_gscopes := [];
                        r_raud := az_aud a; r_gaud := [];
                        r_sess := {| s_subject := ""; s_exp_code := None; s_exp_at := None; s_exp_rt := None; s_exp_dev := None |};
                        r_redirect := az_redirect a; r_challenge := az_challenge a; r_method := az_method a; r_mode := az_mode a; r_at := now s |} in
            (log_add (set_store s2 (create_par (st s2) k r))
               [{| i_kind := KPar; i_key := k; i_rid := rid; i_endpoint_token := false |}],
             ok_obs [KPar] (secs (cf_par_life cfg)) [])
      end
  end end.

(* authorization request carrying a request_uri with the configured prefix (authorizeRequestFromPAR): the
   session is looked up and deleted, the client_id parameter must name the pushing client, and the
   authorization proceeds with the pushed parameters; query parameters only supply keys the pushed form
   does not contain ([a] carries the query's PKCE parameters and the resource owner's decision) *)
(* "query" is the code flow's default response mode: it is what a request without response_mode ends up with, so only
   a mode that differs from it is reported *)
Definition reported_mode (m : string) : string := if String.eqb m "query" then "" else m.
Definition with_mode (m0 : string) (res : state * obs) : state * obs :=
  let m := reported_mode m0 in
  if String.eqb (o_err (snd res)) "" && negb (String.eqb m "")
  then (fst res, {| o_err := ""; o_minted := o_minted (snd res); o_expires_in := o_expires_in (snd res); o_scopes := [m] |})
  else res.

Definition authorize_par0 (cfg : config) (s : state) (client_param : nat) (uri : pres) (a : authz) : state * obs :=
  match key_of s uri with
  | None => fail s "invalid_request_uri"
  | Some k =>
  match par (st s) k with
  | None => fail s "invalid_request_uri"
  | Some pr =>
      let s1 := set_store s (delete_par (st s) k) in
      (* the pushed context is only valid for its advertised lifetime *)
      if before (r_at pr + cf_par_life cfg)%Z (now s) then fail s1 "invalid_request_uri"
      else if negb (Nat.eqb client_param (r_client pr)) then fail s1 "invalid_request"
      else
        (authorize_core cfg s1 (r_cl pr)
             {| az_rtype := RCode; az_client := r_client pr; az_redirect := r_redirect pr; az_scopes := r_rscopes pr; az_granted := az_granted a;
                az_aud := r_raud pr; az_gaud := az_gaud a; az_subject := az_subject a;
                az_challenge := if String.eqb (r_challenge pr) "" then az_challenge a else r_challenge pr;
                az_method := if String.eqb (r_method pr) "" then az_method a else r_method pr; az_mode := r_mode pr |})
  end end.

(* ... and the response is written in the pushed response mode (reported in the scope field of the observation) *)
Definition authorize_par (cfg : config) (s : state) (client_param : nat) (uri : pres) (a : authz) : state * obs :=
  match key_of s uri with
  | Some k => match par (st s) k with
              | Some pr => with_mode (r_mode pr) (authorize_par0 cfg s client_param uri a)
              | None => authorize_par0 cfg s client_param uri a
              end
  | None => authorize_par0 cfg s client_param uri a
  end.

(* ------------------------------------------------------------------ device authorization grant (RFC 8628) *)
(* NewDeviceRequest + DeviceAuthHandler *)
Definition device_authorize (cfg : config) (s : state) (auth : option nat) (body_client : nat)
           (scopes : list string) (aud : list aurl) : state * obs :=
  match auth with
  | None => fail s "invalid_client"
  | Some c =>
  match clients s c with
  | None => fail s "invalid_client"
  | Some cl =>
      if negb (Nat.eqb c body_client) then fail s "invalid_request"
      else if negb (args_has (cl_grants cl) ["urn:ietf:params:oauth:grant-type:device_code"]) then fail s "invalid_grant"
      else if negb (scopes_ok cfg cl scopes) then fail s "invalid_scope"
      else if negb (aud_ok cfg (cl_aud cl) aud) then fail s "invalid_request"
      else
        let (rid, s1) := fresh_rid s in
        let (kd, s2) := mint s1 KDevice rid in
        let (ku, s3) := mint s2 KUser rid in
        let exp := round_s (now s + cf_life_dev cfg) in
        let r := {| r_id := rid; r_client := c; r_cl := cl; r_rscopes := scopes; r_gscopes := [];
                    r_raud := aud; r_gaud := [];
                    r_sess := {| s_subject := ""; s_exp_code := None; s_exp_at := None; s_exp_rt := None; s_exp_dev := Some exp |};
                    r_redirect := ""; r_challenge := ""; r_method := ""; r_mode := ""; r_at := now s |} in
        (log_add (set_store s3 (put_device (st s3) kd (0, r)))
           [{| i_kind := KDevice; i_key := kd; i_rid := rid; i_endpoint_token := false |};
            {| i_kind := KUser; i_key := ku; i_rid := rid; i_endpoint_token := false |}],
         ok_obs [KDevice; KUser] (secs (exp - now s)) [])
  end end.

(* the embedding application's verification page: validates the user code (expiry) and records the
   decision, the granted scopes / audience and the subject on the stored request *)
(* [fresh_session]: the application replaces the stored request's session by its own (the signed-in user's), which
   carries no device/user-code expiry: validation then falls back to requested_at + the configured lifespan *)
Definition decide (cfg : config) (s : state) (dev : pres) (accept : bool) (granted : list string) (gaud : list aurl)
           (subject : string) (fresh_session : bool) : state * obs :=
  match key_of s dev with
  | None => fail s "not_found"
  | Some k =>
  match device (st s) k with
  | None => fail s "not_found"
  | Some (_, r) =>
      if expired (s_exp_dev (r_sess r)) (r_at r) (cf_life_dev cfg) (now s) then fail s "expired_token"
      else
        let se := r_sess r in
        let r' := {| r_id := r_id r; r_client := r_client r; r_cl := r_cl r; r_rscopes := r_rscopes r; r_gscopes := granted;
                     r_raud := r_raud r; r_gaud := gaud;
                     r_sess := {| s_subject := subject; s_exp_code := s_exp_code se; s_exp_at := s_exp_at se;
                                  s_exp_rt := s_exp_rt se; s_exp_dev := if fresh_session then None else s_exp_dev se |};
                     r_redirect := ""; r_challenge := ""; r_method := ""; r_mode := ""; r_at := r_at r |} in
        (set_store s (put_device (st s) k ((if accept then 1 else 2), r')), ok_obs [] 0%Z [])
  end end.

(* DeviceCodeTokenEndpointHandler: polling *)
Definition device_poll (cfg : config) (s : state) (auth : option nat) (dev : pres) : state * obs :=
  match auth with
  | None => fail s "invalid_client"
  | Some c =>
  match clients s c with
  | None => fail s "invalid_client"
  | Some cl =>
      if negb (args_has (cl_grants cl) ["urn:ietf:params:oauth:grant-type:device_code"]) then fail s "unauthorized_client"
      else
      match key_of s dev with
      | None => fail s "invalid_grant"
      | Some k =>
      match used_device cfg (st s) k with
      | Some rid =>
          (* ErrInvalidatedDeviceCode: the code was redeemed before; revoke the tokens of its request id *)
          let st1 := revoke_access (st s) rid in
          let st2 := fst (revoke_refresh st1 rid) in
          fail (set_store s st2) "invalid_grant"
      | None =>
      match device (st s) k with
      | None => fail s "invalid_grant"
      | Some (stt, r) =>
          if Nat.eqb stt 0 then fail s "authorization_pending"
          else if Nat.eqb stt 2 then fail s "access_denied"
          else if expired (s_exp_dev (r_sess r)) (r_at r) (cf_life_dev cfg) (now s) then fail s "expired_token"
          else if p_tampered dev then fail s "token_signature_mismatch"
          else if negb (Nat.eqb (r_client r) c) then fail s "invalid_grant"
          else
            let se := set_token_expiries cfg (now s) (r_sess r) in
            let stored := {| r_id := r_id r; r_client := c; r_cl := cl; r_rscopes := r_rscopes r; r_gscopes := r_gscopes r;
                             r_raud := r_raud r; r_gaud := r_gaud r; r_sess := se; r_redirect := "";
                             r_challenge := ""; r_method := ""; r_mode := ""; r_at := now s |} in
            (* InvalidateDeviceCodeSession, then the token sessions *)
            let s1 := set_store s (invalidate_device (st s) k (r_id r)) in
            let (s2, minted) := grant_tokens s1 stored (can_refresh cfg (r_gscopes r) cl) in
            (s2, ok_obs minted (expires_in se cfg (now s)) (r_gscopes r))
      end end end
  end end.

(* ------------------------------------------------------------------ token endpoint: authorization_code *)
Definition redeem (cfg : config) (s : state) (auth : option nat) (code : pres) (redirect : string)
           (verifier verifier_s256 : string) : state * obs :=
  match auth with
  | None => fail s "invalid_client"
  | Some c =>
  match clients s c with
  | None => fail s "invalid_client"
  | Some cl =>
      (* AuthorizeExplicitGrantHandler.HandleTokenEndpointRequest *)
      if negb (args_has (cl_grants cl) ["authorization_code"]) then fail s "unauthorized_client"
      else
      match key_of s code with
      | None => fail s "invalid_grant"
      | Some k =>
      match codes (st s) k with
      | None => fail s "invalid_grant"
      | Some (false, r) =>
          (* replay: revoke the tokens of the request id *)
          let st1 := revoke_access (st s) (r_id r) in
          let st2 := fst (revoke_refresh st1 (r_id r)) in
          fail (set_store s st2) "invalid_grant"
      | Some (true, r) =>
          if p_tampered code then fail s "invalid_grant"
          else if negb (Nat.eqb (r_client r) c) then fail s "invalid_grant"
          else if negb (String.eqb (r_redirect r) "") && negb (String.eqb (r_redirect r) redirect) then fail s "invalid_grant"
          else
            let se := set_token_expiries (eff_cfg cfg cl LAuthCode) (now s) (r_sess r) in
            (* pkce.Handler.HandleTokenEndpointRequest *)
            match pkce_token cfg s cl (Some k) verifier verifier_s256 with
            | (s1, Some e) => fail s1 e
            | (s1, None) =>
                (* NewAccessResponse -> AuthorizeExplicitGrantHandler.PopulateTokenEndpointResponse *)
                if expired (s_exp_code se) (now s1) (cf_life_code cfg) (now s1) then fail s1 "invalid_request"
                else
                  let stored := {| r_id := r_id r; r_client := c; r_cl := cl; r_rscopes := r_rscopes r; r_gscopes := r_gscopes r;
                                   r_raud := r_raud r; r_gaud := r_gaud r; r_sess := se; r_redirect := "";
                                   r_challenge := ""; r_method := ""; r_mode := ""; r_at := now s |} in
                  (* InvalidateAuthorizeCodeSession, then the token sessions (minting touches no table) *)
                  let s2 := set_store s1 (fst (invalidate_code (st s1) k)) in
                  let (s3, minted) := grant_tokens s2 stored (can_refresh cfg (r_gscopes r) (r_cl r)) in
                  (* pkce.Handler.PopulateTokenEndpointResponse: DeletePKCERequestSession *)
                  (set_store s3 (delete_pkce (st s3) k), ok_obs minted (expires_in se cfg (now s)) (r_gscopes r))
            end
      end end
  end end.

(* ------------------------------------------------------------------ token endpoint: refresh_token *)
Definition refresh_flow (cfg : config) (s : state) (auth : option nat) (tok : pres) : state * obs :=
  match auth with
  | None => fail s "invalid_client"
  | Some c =>
  match clients s c with
  | None => fail s "invalid_client"
  | Some cl =>
      if negb (args_has (cl_grants cl) ["refresh_token"]) then fail s "unauthorized_client"
      else
      let key := key_of s tok in
      match find (refresh (st s)) key, key with
      | Some (false, r), Some k =>
          (* handleRefreshTokenReuse *)
          let st1 := delete_refresh (st s) k in
          let st2 := fst (revoke_refresh st1 (r_id r)) in
          let st3 := revoke_access st2 (r_id r) in
          fail (set_store s st3) "invalid_grant"
      | Some (true, r), Some k =>
          if expired_rt (s_exp_rt (r_sess r)) (now s) then fail s "invalid_grant"
          else if p_tampered tok then fail s "invalid_request"
          else if negb (match cf_refresh_scopes cfg with [] => true | sc => args_has_one_of (r_gscopes r) sc end)
               then fail s "scope_not_granted"
          else if negb (Nat.eqb (r_client r) c) then fail s "invalid_grant"
          else if negb (scopes_ok cfg cl (r_gscopes r)) then fail s "invalid_scope"
          else if negb (aud_ok cfg (cl_aud cl) (r_gaud r)) then fail s "invalid_request"
          else
            let se := set_token_expiries (eff_cfg cfg cl LRefresh) (now s) (r_sess r) in
            let stored := {| r_id := r_id r; r_client := c; r_cl := cl; r_rscopes := r_rscopes r; r_gscopes := r_gscopes r;
                             r_raud := r_raud r; r_gaud := r_gaud r; r_sess := se; r_redirect := "";
                             r_challenge := ""; r_method := ""; r_mode := ""; r_at := now s |} in
            (* PopulateTokenEndpointResponse: RotateRefreshToken, then the new sessions *)
            match rotate_refresh (st s) (r_id r) with
            | (st1, Some _) => fail (set_store s st1) "invalid_request"
            | (st1, None) =>
                let (s3, minted) := grant_tokens (set_store s st1) stored true in
                (s3, ok_obs minted (expires_in se cfg (now s)) (r_gscopes r))
            end
      | _, _ => fail s "invalid_grant"
      end
  end end.

(* ------------------------------------------------------------------ revocation endpoint *)
(* TokenRevocationHandler.RevokeToken: discovery in hint order; an inactive refresh record counts as
   an error of the first lookup, then the other table is tried *)
Definition revoke_lookup (s : state) (key : option nat) (h : hint) : option req :=
  let rt := match find (refresh (st s)) key with Some (true, r) => Some r | _ => None end in
  let at_ := lookup_access (st s) key in
  match h with
  | HAccess => match at_ with Some r => Some r | None => rt end
  | _ => match rt with Some r => Some r | None => at_ end
  end.

Definition revoke (cfg : config) (s : state) (auth : option nat) (tok : pres) (h : hint) : state * obs :=
  match auth with
  | None => fail s "invalid_client"
  | Some c =>
  match clients s c with
  | None => fail s "invalid_client"
  | Some _ =>
      match revoke_lookup s (key_of s tok) h with
      | None => (s, ok_obs [] 0%Z [])
      | Some r =>
          if negb (Nat.eqb (r_client r) c) then fail s "unauthorized_client"
          else
            let st1 := fst (revoke_refresh (st s) (r_id r)) in
            let st2 := revoke_access st1 (r_id r) in
            (set_store s st2, ok_obs [] 0%Z [])
      end
  end end.

(* ------------------------------------------------------------------ introspection (CoreValidator) *)
Definition match_scopes (cfg : config) (granted scopes : list string) : bool :=
  forallb (fun sc => String.eqb sc "" || scope_match (cf_scope cfg) granted sc) scopes.

Definition introspect_access (cfg : config) (s : state) (key : option nat) (tampered : bool) (scopes : list string) : option payload :=
  match lookup_access (st s) key with
  | None => None
  | Some r =>
      if expired (s_exp_at (r_sess r)) (r_at r) (cf_life_at cfg) (now s) then None
      else if tampered then None
      else if negb (match_scopes cfg (r_gscopes r) scopes) then None
      else Some {| pl_use := KAccess; pl_client := r_client r; pl_subject := s_subject (r_sess r);
                   pl_scopes := r_gscopes r; pl_aud := map a_raw (r_gaud r); pl_exp := s_exp_at (r_sess r) |}
  end.

Definition introspect_refresh (cfg : config) (s : state) (key : option nat) (tampered : bool) (scopes : list string) : option payload :=
  match find (refresh (st s)) key with
  | Some (true, r) =>
      if expired_rt (s_exp_rt (r_sess r)) (now s) then None
      else if tampered then None
      else if negb (match_scopes cfg (r_gscopes r) scopes) then None
      else Some {| pl_use := KRefresh; pl_client := r_client r; pl_subject := s_subject (r_sess r);
                   pl_scopes := r_gscopes r; pl_aud := map a_raw (r_gaud r); pl_exp := s_exp_rt (r_sess r) |}
  | _ => None
  end.

Definition introspect (cfg : config) (s : state) (tok : pres) (h : hint) (scopes : list string) : option payload :=
  let key := key_of s tok in
  let a := introspect_access cfg s key (p_tampered tok) scopes in
  if negb (cf_introspect_rt cfg) then a
  else
    let r := introspect_refresh cfg s key (p_tampered tok) scopes in
    match h with
    | HRefresh => match r with Some p => Some p | None => a end
    | _ => match a with Some p => Some p | None => r end
    end.

(* ------------------------------------------------------------------ token endpoint: password, client_credentials *)
Definition fresh_session (cfg : config) (s : state) (subject : string) (round_at : bool) (with_rt : bool) : sess :=
  {| s_subject := subject; s_exp_code := None;
     s_exp_at := Some (if round_at then round_s (now s + cf_life_at cfg) else (now s + cf_life_at cfg)%Z);
     s_exp_rt := if with_rt && Z.leb 0 (cf_life_rt cfg) then Some (round_s (now s + cf_life_rt cfg)) else None;
     s_exp_dev := None |}.

(* flow_resource_owner.go; the subject is whatever the user store answers (the reference store
   answers a random UUID, written "uuid" in observations) *)
Definition password_flow (cfg : config) (s : state) (auth : option nat) (creds_ok : bool)
           (scopes : list string) (aud : list aurl) (granted : list string) (gaud : list aurl) : state * obs :=
  match auth with
  | None => fail s "invalid_client"
  | Some c =>
  match clients s c with
  | None => fail s "invalid_client"
  | Some cl =>
      if negb (args_has (cl_grants cl) ["password"]) then fail s "unauthorized_client"
      else if negb (scopes_ok cfg cl scopes) then fail s "invalid_scope"
      else if negb (aud_ok cfg (cl_aud cl) aud) then fail s "invalid_request"
      else if negb creds_ok then fail s "invalid_grant"
      else
        let se := fresh_session (eff_cfg cfg cl LPassword) s "uuid" true true in
        let mk := fun rid => {| r_id := rid; r_client := c; r_cl := cl; r_rscopes := scopes; r_gscopes := granted;
                         r_raud := aud; r_gaud := gaud; r_sess := se; r_redirect := "";
                         r_challenge := ""; r_method := ""; r_mode := ""; r_at := now s |} in
        let w := match cf_refresh_scopes cfg with [] => true | sc => args_has_one_of granted sc end in
        let (s2, minted) := fresh_grant s mk w in
        (s2, ok_obs minted (expires_in se cfg (now s)) granted)
  end end.

(* flow_client_credentials.go: the grant-type check sits in the populate phase *)
Definition client_credentials_flow (cfg : config) (s : state) (auth : option nat)
           (scopes : list string) (aud : list aurl) (granted : list string) (gaud : list aurl) : state * obs :=
  match auth with
  | None => fail s "invalid_client"
  | Some c =>
  match clients s c with
  | None => fail s "invalid_client"
  | Some cl =>
      if negb (scopes_ok cfg cl scopes) then fail s "invalid_scope"
      else if negb (aud_ok cfg (cl_aud cl) aud) then fail s "invalid_request"
      else if cl_public cl then fail s "invalid_grant"
      else if negb (args_has (cl_grants cl) ["client_credentials"]) then fail s "unauthorized_client"
      else
        let se := fresh_session (eff_cfg cfg cl LClientCreds) s "" false false in
        let mk := fun rid => {| r_id := rid; r_client := c; r_cl := cl; r_rscopes := scopes; r_gscopes := granted;
                         r_raud := aud; r_gaud := gaud; r_sess := se; r_redirect := "";
                         r_challenge := ""; r_method := ""; r_mode := ""; r_at := now s |} in
        let (s2, minted) := fresh_grant s mk false in
        (s2, ok_obs minted (expires_in se cfg (now s)) granted)
  end end.

(* ------------------------------------------------------------------ introspection endpoint (introspection_request_handler.go) *)
Definition pres_eqb (a b : pres) : bool :=
  Bool.eqb (p_tampered a) (p_tampered b) &&
  match p_ref a, p_ref b with
  | CRef i, CRef j => Nat.eqb i j
  | CUnknown, CUnknown => true
  | _, _ => false
  end.

Definition caller_ok (cfg : config) (s : state) (cal : caller) (tok : pres) : bool :=
  match cal with
  | CallerClient auth => match auth with Some c => match clients s c with Some _ => true | None => false end | None => false end
  | CallerBearer ct =>
      if pres_eqb ct tok then false
      else match introspect cfg s ct HAccess [] with
           | Some p => ckind_eqb (pl_use p) KAccess
           | None => false
           end
  end.

(* the token use an introspection reports (TokenUse), carried in the scope field of the observation *)
Definition use_name (k : ckind) : string := match k with KRefresh => "refresh_token" | _ => "access_token" end.

Definition introspect_ep (cfg : config) (s : state) (cal : caller) (tok : pres) (h : hint) (scopes : list string) : obs :=
  if negb (caller_ok cfg s cal tok) then err_obs "request_unauthorized"
  else match introspect cfg s tok h scopes with
       | Some p => ok_obs [] 0%Z [use_name (pl_use p)]
       | None => err_obs "token_inactive"
       end.

(* ------------------------------------------------------------------ one step; histories *)
Definition step (cfg : config) (s : state) (o : op) : state * obs :=
  match o with
  | OAuthorize a => authorize cfg s a
  | ORedeem auth code redirect v vh _ => redeem cfg s auth code redirect v vh
  | ORefresh auth tok _ => refresh_flow cfg s auth tok
  | ORevoke auth tok h => revoke cfg s auth tok h
  | OIntrospect tok h scopes =>
      (s, match introspect cfg s tok h scopes with
          | Some p => ok_obs [] 0%Z [use_name (pl_use p)]
          | None => err_obs "inactive"
          end)
  | OAdvance ms => (set_now s (now s + ms)%Z, ok_obs [] 0%Z [])
  | OSetClient id c => (set_clients s (upd (clients s) id (Some c)), ok_obs [] 0%Z [])
  | OPassword auth ok sc au g ga => password_flow cfg s auth ok sc au g ga
  | OClientCreds auth sc au g ga => client_credentials_flow cfg s auth sc au g ga
  | OIntrospectEP cal tok h scopes => (s, introspect_ep cfg s cal tok h scopes)
  | OPush auth bc ru a => push cfg s auth bc ru a
  | OAuthorizePAR cp uri a => authorize_par cfg s cp uri a
  | ODeviceAuth auth bc sc au => device_authorize cfg s auth bc sc au
  | ODecide dev acc g ga sub fr => decide cfg s dev acc g ga sub fr
  | ODevicePoll auth dev => device_poll cfg s auth dev
  | OTokenOther _ => (s, err_obs "invalid_request")   (* no handler is responsible: the client's authentication result is not even looked at *)
  end.

(* the client a request is made for and what it asks for, for every operation that carries a requested scope/audience *)
Definition request_of (o : op) : option (nat * list string * list aurl) :=
  match o with
  | OAuthorize a => Some (az_client a, az_scopes a, az_aud a)
  | OPassword (Some c) _ sc au _ _ => Some (c, sc, au)
  | OClientCreds (Some c) sc au _ _ => Some (c, sc, au)
  | OPush (Some c) _ _ a => Some (c, az_scopes a, az_aud a)
  | ODeviceAuth (Some c) _ sc au => Some (c, sc, au)
  | _ => None
  end.

Definition run (cfg : config) (s : state) (h : list op) : state :=
  fold_left (fun s o => fst (step cfg s o)) h s.

(* probes: after every step the harness introspects every access / refresh token ever handed
   out, with the matching hint and no required scope *)
Definition probe_one (cfg : config) (s : state) (i : nat) (e : issued) : option payload :=
  match i_kind e with
  | KAccess | KImplicit => introspect cfg s {| p_ref := CRef i; p_tampered := false |} HAccess []
  | KRefresh => introspect cfg s {| p_ref := CRef i; p_tampered := false |} HRefresh []
  | _ => None
  end.
Fixpoint probes_from (cfg : config) (s : state) (i : nat) (l : list issued) : list (option payload) :=
  match l with
  | [] => []
  | e :: r => probe_one cfg s i e :: probes_from cfg s (S i) r
  end.
Definition probes (cfg : config) (s : state) : list (option payload) := probes_from cfg s 0 (log s).

Fixpoint trace (cfg : config) (s : state) (h : list op) : list (op * obs * list (option payload)) :=
  match h with
  | [] => []
  | o :: r =>
      let (s', ob) := step cfg s o in
      (o, ob, probes cfg s') :: trace cfg s' r
  end.
