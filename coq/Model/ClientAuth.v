(* Model of client authentication and of the way the four client-authenticated endpoints use it
   (client_authentication.go, access_request_handler.go, revoke_handler.go,
   pushed_authorize_request_handler.go, device_request_handler.go,
   handler/oauth2/flow_client_credentials.go, handler/rfc7523/handler.go CanSkipClientAuth).
   Executable definitions only; order of checks and quirks follow the Go code.

   Not modelled, supplied by the harness as data:
   - r.BasicAuth() (header present, "Basic" scheme, base64, colon) and url.QueryUnescape of the two
     components: [header];
   - bcrypt: [cmp hash secret] is the verdict of Hasher.Compare; the theorems hold for every [cmp];
   - JWT parsing, key lookup, signature and claim validation of a client assertion: [assertion];
   - the verdicts of the grant handlers other than the client-credentials one: [houts]. *)
From FositeModel Require Export Base.Str.

Inductive ecode := EInvalidClient | EInvalidRequest | EJtiKnown | EOther (name : string).
Definition ecode_str (e : ecode) : string :=
  match e with
  | EInvalidClient => "invalid_client"
  | EInvalidRequest => "invalid_request"
  | EJtiKnown => "jti_known"
  | EOther s => s
  end.

(* a client registration.  c_oidc: the stored value implements OpenIDConnectClient; c_method is
   GetTokenEndpointAuthMethod() verbatim (may be ""); c_hash / c_rot name the current and the
   rotated hashed secrets. *)
Record client := Cl {
  c_id : string; c_public : bool; c_oidc : bool; c_method : string;
  c_hash : string; c_rot : list string }.

Inductive header :=
| HNone                                                   (* r.BasicAuth() reports !ok *)
| HBasic (raw_secret : string) (id secret : option string). (* raw password; QueryUnescape(user), QueryUnescape(password) *)

(* facts about a client_assertion JWT, computed by the harness from how it built the assertion *)
Record assertion := As {
  as_parse : bool;              (* parses as a signed JWT with JSON header and claims *)
  as_sub : option string;       (* claim sub when it is a string *)
  as_iss : string;              (* claim iss ("" when absent) *)
  as_key_of : option string;    (* id of the client whose registered key and algorithm verify the signature *)
  as_time_ok : bool;            (* exp / iat / nbf acceptable now *)
  as_jti : bool;                (* claim jti is a non-empty string *)
  as_jti_known : bool;          (* the store already knows this jti *)
  as_aud_ok : bool }.           (* aud contains the token endpoint URL *)

Record request := Rq {
  r_hdr : header;
  r_fid : string;               (* form.Get("client_id") *)
  r_fsec : string;              (* form.Get("client_secret") *)
  r_atype : string;             (* form.Get("client_assertion_type") *)
  r_ahas : bool;                (* form.Get("client_assertion") != "" *)
  r_as : assertion }.

Inductive ares := AOk (c : client) | AErr (e : ecode).

Definition jwt_bearer_type : string := "urn:ietf:params:oauth:client-assertion-type:jwt-bearer".
Definition m_basic : string := "client_secret_basic".
Definition m_post : string := "client_secret_post".
Definition m_none : string := "none".
Definition m_pkjwt : string := "private_key_jwt".

(* Store.GetClient *)
Fixpoint lookup (st : list client) (id : string) : option client :=
  match st with
  | [] => None
  | c :: r => if String.eqb (c_id c) id then Some c else lookup r id
  end.

Definition nonempty (s : string) : bool := negb (String.eqb s "").

Section Auth.
  Variable cmp : string -> string -> bool.   (* Hasher.Compare(hash, secret) == nil *)

  (* checkClientSecret: current hash first, then the rotated ones *)
  Definition check_secret (c : client) (secret : string) : bool :=
    if cmp (c_hash c) secret then true
    else existsb (fun h => cmp h secret) (c_rot c).

  (* clientCredentialsFromRequest / clientCredentialsFromRequestBody(form, true) *)
  Definition creds (rq : request) : ecode + (string * string) :=
    match r_hdr rq with
    | HNone => if String.eqb (r_fid rq) "" then inl EInvalidRequest else inr (r_fid rq, r_fsec rq)
    | HBasic _ id secret =>
        match id with
        | None => inl EInvalidRequest
        | Some i => match secret with
                    | None => inl EInvalidRequest
                    | Some s => inr (i, s)
                    end
        end
    end.

  Definition basic_secret_nonempty (rq : request) : bool :=
    match r_hdr rq with HBasic raw _ _ => nonempty raw | HNone => false end.

  (* the else-if chain over the OpenID Connect client's token_endpoint_auth_method *)
  Definition method_violation (c : client) (rq : request) : bool :=
    if negb (c_oidc c) then false
    else if nonempty (r_fid rq) && nonempty (r_fsec rq) && negb (String.eqb (c_method c) m_post) then true
    else if basic_secret_nonempty rq && negb (String.eqb (c_method c) m_basic) then true
    else if negb (String.eqb (c_method c) m_none) && c_public c then true
    else false.

  (* the client_assertion branch (coarse; property C15 looks inside) *)
  Definition auth_assertion (st : list client) (rq : request) : ares :=
    if negb (r_ahas rq) then AErr EInvalidRequest
    else
      let a := r_as rq in
      if negb (as_parse a) then AErr EInvalidClient
      else
        match (if nonempty (r_fid rq) then Some (r_fid rq) else as_sub a) with
        | None => AErr EInvalidClient
        | Some cid =>
            match lookup st cid with
            | None => AErr EInvalidClient
            | Some c =>
                if negb (c_oidc c) then AErr EInvalidRequest
                else if negb (String.eqb (c_method c) m_pkjwt) then AErr EInvalidClient
                else if negb (match as_key_of a with Some k => String.eqb k cid | None => false end) then AErr EInvalidClient
                else if negb (as_time_ok a) then AErr EInvalidClient  (* ValidationError.Inner, a plain error, is wrapped as invalid_client *)
                else if negb (String.eqb (as_iss a) cid) then AErr EInvalidClient
                else if negb (match as_sub a with Some s => String.eqb s cid | None => false end) then AErr EInvalidClient
                else if negb (as_jti a) then AErr EInvalidClient
                else if as_jti_known a then AErr EJtiKnown
                else if negb (as_aud_ok a) then AErr EInvalidClient
                else AOk c
            end
        end.

  (* DefaultClientAuthenticationStrategy *)
  Definition authenticate (st : list client) (rq : request) : ares :=
    if String.eqb (r_atype rq) jwt_bearer_type then auth_assertion st rq
    else if nonempty (r_atype rq) then AErr EInvalidRequest
    else
      match creds rq with
      | inl e => AErr e
      | inr (id, secret) =>
          match lookup st id with
          | None => AErr EInvalidClient
          | Some c =>
              if method_violation c rq then AErr EInvalidClient
              else if c_public c then AOk c
              else if check_secret c secret then AOk c
              else AErr EInvalidClient
          end
      end.
End Auth.

(* ------------------------------------------------------------------ endpoints *)

(* how a handler's CanSkipClientAuth is written in the source (read by the harness with go/ast) *)
Inductive skipk :=
| SkipFalse     (* body is `return false` *)
| SkipSwitch    (* body is `return c.Config.GetGrantTypeJWTBearerCanSkipClientAuth(ctx)` *)
| SkipOther.    (* anything else *)

(* one token-endpoint handler of the composed provider: Go type, the grant type X of
   `return requester.GetGrantTypes().ExactOne(X)`, and the shape of CanSkipClientAuth *)
Record th := TH { th_name : string; th_grant : string; th_skip : skipk }.

Definition skip_eval (switch : bool) (h : th) : bool :=
  match th_skip h with SkipFalse => false | SkipSwitch => switch | SkipOther => true end.

Definition responsible (h : th) (gts : list string) : bool := args_exact_one gts (th_grant h).

Definition cc_name : string := "*oauth2.ClientCredentialsGrantHandler".
Definition is_cc (h : th) : bool := String.eqb (th_name h) cc_name.

Inductive hres := HOk | HUnknown | HErr (code : string).

Fixpoint hout (houts : list (nat * hres)) (i : nat) : hres :=
  match houts with
  | [] => HOk
  | (j, r) :: t => if Nat.eqb i j then r else hout t i
  end.

(* ClientCredentialsGrantHandler.HandleTokenEndpointRequest for a request without scope and
   audience: a public client is refused.  Without a client (possible only when authentication was
   skipped) the request carries the zero DefaultClient, which is not public. *)
Definition cc_handle (c : option client) : hres :=
  match c with
  | Some c => if c_public c then HErr "invalid_grant" else HOk
  | None => HOk
  end.

Definition client_of (a : ares) : option client := match a with AOk c => Some c | AErr _ => None end.

(* strings.Split(grant_type, " ") followed by RemoveEmpty *)
Definition grant_types (raw : string) : list string :=
  filter nonempty (split space raw).

Inductive tres := TOk | TErr (e : ecode).
Definition tres_str (t : tres) : string := match t with TOk => "" | TErr e => ecode_str e end.

(* the loop of NewAccessRequest over the token-endpoint handlers; returns the verdict and the
   indices of the handlers whose HandleTokenEndpointRequest was called *)
Definition gate (switch : bool) (h : th) (a : ares) : option ecode :=
  match a with
  | AErr e => if skip_eval switch h then None else Some e
  | AOk _ => None
  end.

Fixpoint token_loop (switch : bool) (hs : list th) (i : nat) (gts : list string) (a : ares)
         (houts : list (nat * hres)) (found : bool) : tres * list nat :=
  match hs with
  | [] => (if found then TOk else TErr EInvalidRequest, [])
  | h :: r =>
      if negb (responsible h gts) then token_loop switch r (S i) gts a houts found
      else
        match gate switch h a with
        | Some e => (TErr e, [])
        | None =>
            match (if is_cc h then cc_handle (client_of a) else hout houts i) with
            | HOk => let (t, cs) := token_loop switch r (S i) gts a houts true in (t, i :: cs)
            | HUnknown => let (t, cs) := token_loop switch r (S i) gts a houts found in (t, i :: cs)
            | HErr s => (TErr (EOther s), [i])
            end
        end
  end.

(* what the check compares: verdict of New*Request ("" = accepted), the client in whose name the
   request was processed ("" = none), the handlers called by the request phase *)
Record obs := Obs { ob_res : string; ob_client : string; ob_calls : list nat }.

Definition id_of (a : ares) : string := match a with AOk c => c_id c | AErr _ => "" end.

(* NewPushedAuthorizeRequest re-labels every RFC 6749 error of the authentication as
   invalid_client; an error that is not an RFC6749Error passes through unchanged *)
Definition par_err (e : ecode) : string :=
  match e with EOther s => s | _ => "invalid_client" end.

Section Endpoints.
  Variable cmp : string -> string -> bool.
  Variable st : list client.

  (* NewAccessRequest (POST with a non-empty body) *)
  Definition token_endpoint (switch : bool) (hs : list th) (rq : request) (grant_raw : string)
             (houts : list (nat * hres)) : obs :=
    let gts := grant_types grant_raw in
    match gts with
    | [] => Obs "invalid_request" "" []
    | _ =>
        let a := authenticate cmp st rq in
        let (t, calls) := token_loop switch hs 0 gts a houts false in
        Obs (tres_str t) (match calls with [] => "" | _ => id_of a end) calls
    end.

  (* NewRevocationRequest: n revocation handlers, none may run before authentication succeeded *)
  Fixpoint rev_loop (n i : nat) (houts : list (nat * hres)) (found : bool) : tres * list nat :=
    match n with
    | 0 => (if found then TOk else TErr EInvalidRequest, [])
    | S m =>
        match hout houts i with
        | HOk => let (t, cs) := rev_loop m (S i) houts true in (t, i :: cs)
        | HUnknown => let (t, cs) := rev_loop m (S i) houts found in (t, i :: cs)
        | HErr s => (TErr (EOther s), [i])
        end
    end.

  Definition revoke_endpoint (nrev : nat) (rq : request) (houts : list (nat * hres)) : obs :=
    match authenticate cmp st rq with
    | AErr e => Obs (ecode_str e) "" []
    | AOk c =>
        let (t, calls) := rev_loop nrev 0 houts false in
        Obs (tres_str t) (match calls with [] => "" | _ => c_id c end) calls
    end.

  (* NewPushedAuthorizeRequest, with request parameters that newAuthorizeRequest accepts for
     every registered client: authentication errors are re-labelled by [par_err]; the request is
     built for the client named by the form's client_id when there is one (an unknown one is
     invalid_client), and then refused (invalid_request) unless that client is the authenticated one *)
  Definition par_endpoint (rq : request) (has_request_uri : bool) : obs :=
    match authenticate cmp st rq with
    | AErr e => Obs (par_err e) "" []
    | AOk c =>
        if has_request_uri then Obs "invalid_request" "" []
        else
          let cid := if nonempty (r_fid rq) then r_fid rq else c_id c in
          match lookup st cid with
          | None => Obs "invalid_client" "" []
          | Some c' =>
              (* the pushed request must belong to the client that authenticated *)
              if String.eqb (c_id c') (c_id c) then Obs "" (c_id c') []
              else Obs "invalid_request" "" []
          end
    end.

  (* NewDeviceRequest for clients that hold the device_code grant, no scope / audience *)
  Definition device_endpoint (rq : request) : obs :=
    match authenticate cmp st rq with
    | AErr e => Obs (ecode_str e) "" []
    | AOk c =>
        if negb (String.eqb (c_id c) (r_fid rq)) then Obs "invalid_request" "" []
        else Obs "" (c_id c) []
    end.
End Endpoints.

Inductive endpoint :=
| EToken (grant_raw : string)
| ERevoke
| EPAR (has_request_uri : bool)
| EDevice.

(* the handler table of the composed provider and the JWT-bearer switch *)
Record config := Cfg { cf_switch : bool; cf_handlers : list th; cf_nrev : nat }.

Definition run_endpoint (cmp : string -> string -> bool) (cf : config) (st : list client)
           (ep : endpoint) (rq : request) (houts : list (nat * hres)) : obs :=
  match ep with
  | EToken g => token_endpoint cmp st (cf_switch cf) (cf_handlers cf) rq g houts
  | ERevoke => revoke_endpoint cmp st (cf_nrev cf) rq houts
  | EPAR u => par_endpoint cmp st rq u
  | EDevice => device_endpoint cmp st rq
  end.

(* Parameters in the request URI.  Three of the four endpoints read the body only (r.PostForm).
   NewPushedAuthorizeRequest authenticates with r.Form, in which net/http appends the URI's query values after the
   body's: a client_secret / client_assertion(_type) of the query is used whenever the body carries none.
   [u] holds what the query carries (its header and client_id fields are not used). *)
Definition merge_uri (b u : request) : request :=
  Rq (r_hdr b) (r_fid b)
     (if nonempty (r_fsec b) then r_fsec b else r_fsec u)
     (if nonempty (r_atype b) then r_atype b else r_atype u)
     (if r_ahas b then true else r_ahas u)
     (if r_ahas b then r_as b else r_as u).

Definition run_endpoint_uri (cmp : string -> string -> bool) (cf : config) (st : list client)
           (ep : endpoint) (rq u : request) (houts : list (nat * hres)) : obs :=
  match ep with
  | EPAR _ => run_endpoint cmp cf st ep (merge_uri rq u) houts
  | _ => run_endpoint cmp cf st ep rq houts
  end.

(* ------------------------------------------------------------------ the handler table, checked by reflection *)
Definition jwt_bearer_grant : string := "urn:ietf:params:oauth:grant-type:jwt-bearer".

Definition entry_ok (h : th) : bool :=
  match th_skip h with
  | SkipFalse => true
  | SkipSwitch => String.eqb (th_grant h) jwt_bearer_grant
  | SkipOther => false
  end.

(* every CanSkipClientAuth is the literal `false`, except handlers of the jwt-bearer grant that
   return the configuration switch; client_credentials is routed to the client-credentials
   handler and to nothing else *)
Definition table_ok (t : list th) : bool :=
  forallb entry_ok t &&
  existsb (fun h => is_cc h && String.eqb (th_grant h) "client_credentials") t &&
  forallb (fun h => implb (String.eqb (th_grant h) "client_credentials") (is_cc h)) t.
