(* Transliteration of the redirect-URI decisions of the authorization endpoint (model, executable):
     authorize_helper.go      MatchRedirectURIWithClientRedirectURIs, isMatchingRedirectURI,
                              isMatchingAsLoopback, isLoopbackAddress, IsValidRedirectURI,
                              IsRedirectURISecure, IsRedirectURISecureStrict, IsLocalhost
     authorize_request.go     AuthorizeRequest.IsRedirectURIValid
     authorize_request_handler.go  validateAuthorizeRedirectURI and the position of the redirect
                              validation inside newAuthorizeRequest (which errors come before / after it,
                              which response mode is in force when they are written)
     authorize_error.go       WriteAuthorizeError  (redirect vs direct rendering, placement per mode)
     authorize_write.go       WriteAuthorizeResponse (placement per mode)
     handler/oauth2/flow_authorize_code_auth.go, handler/par/flow_pushed_authorize.go   secureChecker

   net/url.Parse, URL.Hostname, URL.Query, net.ParseIP(..).IsLoopback and
   govalidator.IsRequestURL are NOT modelled: every URI comes with the record [purl] that the harness
   computed with the Go standard library, independently of fosite.  The model owns every decision that
   fosite takes on those components.  The only piece of net/url that is modelled is the tail of
   URL.String(): base ++ ["?" ++ RawQuery] ++ ["#" ++ fragment]  (checked against Go on every case).
   No proofs in this file. *)
From FositeModel Require Export Base.Str.

Definition pairs := list (string * string).

(* One URI string as Go sees it.
   raw      the string itself
   ok       url.Parse(raw) returned no error            (all other fields are meaningless when false)
   scheme   u.Scheme            hostname  u.Hostname()      path  u.Path (decoded)
   rawq     u.RawQuery          fq        u.ForceQuery      frag  u.Fragment (decoded)
   loop     net.ParseIP(u.Hostname()).IsLoopback()
   requrl   govalidator.IsRequestURL(u.String())
   base     u.String() of a copy with RawQuery = "", ForceQuery = false, Fragment = ""
   str      u.String()  (None: identical to raw)
   q        u.Query() flattened to pairs (keys sorted, values in order)
   tmpl     what html/template renders for u.String() (fragment removed) inside action="..." of the
            form_post document, HTML-unescaped again (None: unchanged)
   re       the record of url.Parse(u.String())  (None: same components, raw = str) *)
Inductive purl := U
  (raw : string) (ok : bool) (scheme hostname path rawq : string) (fq : bool) (frag : string)
  (loop requrl : bool) (base : string) (str : option string) (q : pairs) (tmpl : option string)
  (re : option purl).

Definition u_raw (u : purl) := match u with U raw _ _ _ _ _ _ _ _ _ _ _ _ _ _ => raw end.
Definition u_ok (u : purl) := match u with U _ ok _ _ _ _ _ _ _ _ _ _ _ _ _ => ok end.
Definition u_scheme (u : purl) := match u with U _ _ s _ _ _ _ _ _ _ _ _ _ _ _ => s end.
Definition u_hostname (u : purl) := match u with U _ _ _ h _ _ _ _ _ _ _ _ _ _ _ => h end.
Definition u_path (u : purl) := match u with U _ _ _ _ p _ _ _ _ _ _ _ _ _ _ => p end.
Definition u_rawq (u : purl) := match u with U _ _ _ _ _ rq _ _ _ _ _ _ _ _ _ => rq end.
Definition u_fq (u : purl) := match u with U _ _ _ _ _ _ fq _ _ _ _ _ _ _ _ => fq end.
Definition u_frag (u : purl) := match u with U _ _ _ _ _ _ _ f _ _ _ _ _ _ _ => f end.
Definition u_loop (u : purl) := match u with U _ _ _ _ _ _ _ _ l _ _ _ _ _ _ => l end.
Definition u_requrl (u : purl) := match u with U _ _ _ _ _ _ _ _ _ r _ _ _ _ _ => r end.
Definition u_base (u : purl) := match u with U _ _ _ _ _ _ _ _ _ _ b _ _ _ _ => b end.
Definition u_str (u : purl) :=
  match u with U raw _ _ _ _ _ _ _ _ _ _ str _ _ _ => match str with Some s => s | None => raw end end.
Definition u_q (u : purl) := match u with U _ _ _ _ _ _ _ _ _ _ _ _ q _ _ => q end.
Definition u_tmpl (u : purl) := match u with U _ _ _ _ _ _ _ _ _ _ _ _ _ t _ => t end.
(* url.Parse(u.String()) *)
Definition u_re (u : purl) : purl :=
  match u with
  | U raw ok sc hn pa rq fq fr lo ru ba str q tm re =>
      match re with
      | Some r => r
      | None => U (u_str u) ok sc hn pa rq fq fr lo ru ba None q tm None
      end
  end.

(* ---------------------------------------------------------------- authorize_helper.go *)

(* IsValidRedirectURI: govalidator.IsRequestURL(u.String()) && u.Fragment == "" *)
Definition is_valid_redirect_uri (u : purl) : bool :=
  if negb (u_requrl u) then false
  else if negb (String.eqb (u_frag u) "") then false
  else true.

(* isMatchingAsLoopback(requested, registeredURI): the registered string is parsed first *)
Definition is_matching_as_loopback (req reg : purl) : bool :=
  if negb (u_ok reg) then false
  else String.eqb (u_scheme req) "http"
       && u_loop req
       && String.eqb (u_hostname reg) (u_hostname req)
       && String.eqb (u_path reg) (u_path req)
       && String.eqb (u_rawq reg) (u_rawq req).

(* the loop of isMatchingRedirectURI; the result is the string that the Go code returns *)
Fixpoint match_loop (req : purl) (hay : list purl) : option string :=
  match hay with
  | [] => None
  | b :: r =>
      if String.eqb (u_raw b) (u_raw req) then Some (u_raw b)
      else if is_matching_as_loopback req b then Some (u_raw req)
      else match_loop req r
  end.

Definition is_matching_redirect_uri (req : purl) (hay : list purl) : option string :=
  if negb (u_ok req) then None else match_loop req hay.

(* url.Parse(s) for a string s that is the raw text of one of the records at hand *)
Fixpoint parse_of (s : string) (cands : list purl) : option purl :=
  match cands with
  | [] => None
  | c :: r => if String.eqb (u_raw c) s then Some c else parse_of s r
  end.

(* MatchRedirectURIWithClientRedirectURIs(rawurl, client): None = ErrInvalidRequest *)
Definition match_redirect (req : purl) (regs : list purl) : option purl :=
  if String.eqb (u_raw req) "" && Nat.eqb (List.length regs) 1 then
    match regs with
    | b :: _ => if u_ok b && is_valid_redirect_uri b then Some b else None
    | [] => None
    end
  else
    match is_matching_redirect_uri req regs with
    | Some redirect_to =>
        if negb (String.eqb (u_raw req) "") then
          match parse_of redirect_to (req :: regs) with
          | Some parsed => if u_ok parsed && is_valid_redirect_uri parsed then Some parsed else None
          | None => None
          end
        else None
    | None => None
    end.

(* strings.HasSuffix *)
Fixpoint has_suffix (suf s : string) : bool :=
  if String.eqb suf s then true
  else match s with
       | EmptyString => false
       | String _ r => has_suffix suf r
       end.

Definition is_localhost (u : purl) : bool :=
  has_suffix ".localhost" (u_hostname u) || u_loop u || String.eqb (u_hostname u) "localhost".

Definition is_redirect_uri_secure (u : purl) : bool :=
  negb (String.eqb (u_scheme u) "http" && negb (is_localhost u)).

Definition is_redirect_uri_secure_strict (u : purl) : bool :=
  String.eqb (u_scheme u) "https" || (String.eqb (u_scheme u) "http" && is_localhost u).

(* Config.RedirectSecureChecker: nil (the default, IsRedirectURISecure), IsRedirectURISecureStrict,
   or an embedder's function that accepts everything *)
Inductive checker := CkDefault | CkStrict | CkAny.
Definition secure_checker (c : checker) (u : purl) : bool :=
  match c with
  | CkDefault => is_redirect_uri_secure u
  | CkStrict => is_redirect_uri_secure_strict u
  | CkAny => true
  end.

(* ---------------------------------------------------------------- authorize_request.go *)

(* AuthorizeRequest.IsRedirectURIValid: the request's URL is serialised and matched again *)
Definition is_redirect_uri_valid (redirect : option purl) (client : option (list purl)) : bool :=
  match redirect with
  | None => false
  | Some u =>
      match client with
      | None => false
      | Some regs =>
          match match_redirect (u_re u) regs with
          | None => false
          | Some v => is_valid_redirect_uri v
          end
      end
  end.

(* ---------------------------------------------------------------- authorize_request_handler.go *)

(* validateAuthorizeRedirectURI: None = error, request.RedirectURI stays nil *)
Definition validate_authorize_redirect_uri (openid : bool) (req : purl) (regs : list purl) : option purl :=
  if String.eqb (u_raw req) "" && openid then None
  else match match_redirect req regs with
       | None => None
       | Some u => if negb (is_valid_redirect_uri u) then None else Some u
       end.

(* ---------------------------------------------------------------- the writers *)

Inductive rmode := MDefault | MQuery | MFragment | MFormPost.

(* what the model says about a written response.  Query strings that fosite re-encodes are given
   as pairs (compared as multisets), query strings that are carried verbatim as text. *)
Inductive qspec := QVerbatim (rawq : string) | QPairs (qp : pairs).
Inductive fspec := FrNone | FrParams (p : pairs) | FrOwn.
Inductive mresp :=
| MRedirect (base : string) (hasq : bool) (q : qspec) (f : fspec)
| MForm (action : string) (inputs : pairs)
| MDirect       (* JSON error document, no Location *)
| MPanic.       (* nil pointer dereference in the Go code *)

Record ar_state := AR { ar_redirect : option purl; ar_client : option (list purl); ar_mode : rmode }.

Definition nonempty {A} (l : list A) : bool := match l with [] => false | _ => true end.

(* tail of URL.String() for a URL whose Fragment is "" *)
Definition own_hasq (u : purl) : bool := u_fq u || negb (String.eqb (u_rawq u) "").
Definition url_string_nofrag (u : purl) : string :=
  if own_hasq u then u_base u ++ "?" ++ u_rawq u else u_base u.
(* the action attribute that DefaultFormPostTemplate (html/template) produces for that string *)
Definition form_action (u : purl) : string :=
  match u_tmpl u with Some a => a | None => url_string_nofrag u end.

(* WriteAuthorizeError; [params] = rfcerr.ToValues() with "state" set *)
Definition write_authorize_error (ar : ar_state) (params : pairs) : mresp :=
  if negb (is_redirect_uri_valid (ar_redirect ar) (ar_client ar)) then MDirect
  else match ar_redirect ar with
       | None => MPanic
       | Some u =>
           (* redirectURI.Fragment = "" *)
           match ar_mode ar with
           | MFormPost => MForm (form_action u) params
           | MFragment => MRedirect (u_base u) (own_hasq u) (QVerbatim (u_rawq u)) (FrParams params)
           | _ =>
               (* errors.Add(key, value) for every pair of redirectURI.Query() *)
               let q := (params ++ u_q u)%list in
               MRedirect (u_base u) (u_fq u || nonempty q) (QPairs q) FrNone
           end
       end.

(* url.Values.Get / Set on flattened pairs *)
Fixpoint pairs_get (k : string) (p : pairs) : string :=
  match p with
  | [] => ""
  | (k', v) :: r => if String.eqb k' k then v else pairs_get k r
  end.
Definition pairs_set (k v : string) (p : pairs) : pairs :=
  (filter (fun kv => negb (String.eqb (fst kv) k)) p ++ [(k, v)])%list.

(* WriteAuthorizeResponse; [params] = resp.GetParameters() *)
Definition write_authorize_response (ar : ar_state) (params : pairs) : mresp :=
  match ar_redirect ar with
  | None => MPanic
  | Some u =>
      let own_f := if String.eqb (u_frag u) "" then FrNone else FrOwn in
      match ar_mode ar with
      | MFormPost =>
          (* redir.String(): the fragment is not cleared here *)
          MForm (form_action u) params
      | MQuery | MDefault =>
          (* q := redir.Query(); for k := range rq { q.Set(k, rq.Get(k)) } *)
          let q := fold_left (fun acc kv => pairs_set (fst kv) (pairs_get (fst kv) params) acc) params (u_q u) in
          MRedirect (u_base u) (u_fq u || nonempty q) (QPairs q) own_f
      | MFragment =>
          (* redir.Fragment = "" *)
          MRedirect (u_base u) (own_hasq u) (QVerbatim (u_rawq u))
                    (if nonempty params then FrParams params else FrNone)
      end
  end.

(* ---------------------------------------------------------------- the endpoint, end to end *)

(* Where the harness makes the request fail (besides the redirect validation itself):
   FPre        before validateAuthorizeRedirectURI (OpenID request object conflict)
   FPostEarly  after it, before the default response mode is filled in (scope not allowed)
   FPostLate   after the default response mode is filled in (state too short)
   FDeny       the embedding application refuses after NewAuthorizeRequest succeeded *)
Inductive fail_stage := FNone | FPre | FPostEarly | FPostLate | FDeny.
Inductive rtype := RCode | RToken.

Record e2e := E2E {
  e_client : option (list purl);   (* None: unknown client_id *)
  e_req : purl;                    (* the redirect_uri parameter ("" when absent) *)
  e_openid : bool;                 (* scope contains openid *)
  e_mode : option rmode;           (* None: response_mode value that ParseResponseMode refuses *)
  e_mode_allowed : bool;           (* the client is registered for the requested response mode *)
  e_rtype : rtype;
  e_fail : fail_stage;
  e_checker : checker
}.

Definition default_mode (t : rtype) : rmode := match t with RCode => MQuery | RToken => MFragment end.
Definition mode_is_default (m : rmode) : bool := match m with MDefault => true | _ => false end.
Definition mode_is_query (m : rmode) : bool := match m with MQuery => true | _ => false end.

(* newAuthorizeRequest (isPARRequest irrelevant for these inputs): the requester's state and
   whether an error was returned *)
Definition new_authorize_request (e : e2e) : ar_state * bool :=
  match e_client e with
  | None => (AR None None MDefault, true)                          (* GetClient fails; Client stays nil *)
  | Some regs =>
      match e_fail e with
      | FPre => (AR None (Some regs) MDefault, true)               (* request object handling *)
      | _ =>
          match e_mode e with
          | None => (AR None (Some regs) MDefault, true)           (* ParseResponseMode *)
          | Some m =>
              match validate_authorize_redirect_uri (e_openid e) (e_req e) regs with
              | None => (AR None (Some regs) m, true)
              | Some u =>
                  let ar := AR (Some u) (Some regs) m in
                  match e_fail e with
                  | FPostEarly => (ar, true)                        (* validateAuthorizeScope *)
                  | _ =>
                      if negb (mode_is_default m) && negb (e_mode_allowed e) then (ar, true)  (* validateResponseMode *)
                      else
                        let m' := if mode_is_default m then default_mode (e_rtype e) else m in
                        let ar' := AR (Some u) (Some regs) m' in
                        match e_fail e with
                        | FPostLate => (ar', true)                  (* state entropy *)
                        | _ => (ar', false)
                        end
                  end
              end
          end
      end
  end.

(* NewAuthorizeResponse for an accepted request: true = a response, false = an error.
   code: AuthorizeExplicitGrantHandler (secure checker); token: AuthorizeImplicitGrantTypeHandler
   (no checker) followed by the "fragment default vs query requested" refusal. *)
Definition new_authorize_response (e : e2e) (ar : ar_state) : bool :=
  match ar_redirect ar with
  | None => false
  | Some u =>
      match e_rtype e with
      | RCode => secure_checker (e_checker e) u
      | RToken => negb (mode_is_query (ar_mode ar))
      end
  end.

(* the whole exchange: (an error was written, what was written).  [params] are the parameters
   handed to the writer that the implementation chose. *)
Definition authorize_endpoint (e : e2e) (params : pairs) : bool * mresp :=
  let (ar, err) := new_authorize_request e in
  if err then (true, write_authorize_error ar params)
  else match e_fail e with
       | FDeny => (true, write_authorize_error ar params)
       | _ =>
           if new_authorize_response e ar then (false, write_authorize_response ar params)
           else (true, write_authorize_error ar params)
       end.

(* Pushed authorization: NewPushedAuthorizeRequest (client authenticated by the harness) runs the
   same validation, PushedAuthorizeHandler applies the secure checker (both response types);
   Some ar = a request_uri was issued for this requester state. *)
Definition pushed_authorize (e : e2e) : option ar_state :=
  let (ar, err) := new_authorize_request e in
  if err then None
  else match e_fail e with
       | FDeny => None
       | _ => match ar_redirect ar with
              | None => None
              | Some u => if secure_checker (e_checker e) u then Some ar else None
              end
       end.

(* authorization request that continues a pushed one: the stored requester is used as it is *)
Definition authorize_from_par (e : e2e) (ar : ar_state) (params : pairs) : bool * mresp :=
  if new_authorize_response e ar then (false, write_authorize_response ar params)
  else (true, write_authorize_error ar params).
