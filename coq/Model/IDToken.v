(* Transliteration of ID-token issuance (model, executable; no proofs here):
     handler/openid/strategy_jwt.go      DefaultStrategy.GenerateIDToken         -> [generate]
     handler/openid/helper.go            ComputeHash / GetAccessTokenHash         -> [hash_of_hdr]
     handler/openid/validator.go         OpenIDConnectRequestValidator            -> [validate_prompt]
     handler/openid/flow_explicit_auth.go, flow_implicit.go, flow_hybrid.go      -> [authorize_step]
     handler/openid/flow_explicit_token.go                                       -> [redeem_step]
     handler/openid/flow_refresh_token.go                                        -> [refresh_step]
     handler/openid/flow_device_token.go                                         -> [device_step]
     token/jwt/claims_id_token.go        IDTokenClaims.ToMap                      -> [to_map]
     token/jwt/jwt.go                    DefaultSigner.Generate (choice of alg)   -> [key_alg]
   Order of checks and quirks follow the Go code.  Not modelled (inputs computed by Go and handed in):
   strconv.ParseInt of max_age, decoding/verification of the id_token_hint JWT, strconv.Atoi of the
   header alg suffix, the scope strategy, the redirect-URI security check, SHA-2 and signing.
   Time is in whole seconds (Z); the zero time.Time is [None].  Hashes are symbolic:
   [HOf a n] = base64url(left half of hash a of token number n). *)
From FositeModel Require Export Base.Str.

(* ------------------------------------------------------------------ data *)
Inductive halg := SHA256 | SHA384 | SHA512.
Inductive hashv := HNone | HOf (a : halg) (tok : nat) | HOther.

Definition halg_eqb (a b : halg) : bool :=
  match a, b with SHA256, SHA256 | SHA384, SHA384 | SHA512, SHA512 => true | _, _ => false end.
Definition hashv_eqb (a b : hashv) : bool :=
  match a, b with
  | HNone, HNone | HOther, HOther => true
  | HOf x n, HOf y m => halg_eqb x y && Nat.eqb n m
  | _, _ => false
  end.

(* jwt.IDTokenClaims as held by the session (mutated in place by the handlers).
   c_jti: whether the JTI field is non-empty (the value is random). *)
Record claims := mkClaims {
  c_sub : string; c_iss : string; c_aud : list string; c_nonce : string;
  c_exp : option Z; c_iat : option Z; c_rat : option Z; c_auth : option Z;
  c_at : hashv; c_ch : hashv; c_acr : string; c_jti : bool;
  c_extra : list (string * string) }.

Definition set_exp (c : claims) v := mkClaims (c_sub c) (c_iss c) (c_aud c) (c_nonce c) v (c_iat c) (c_rat c) (c_auth c) (c_at c) (c_ch c) (c_acr c) (c_jti c) (c_extra c).
Definition set_iat (c : claims) v := mkClaims (c_sub c) (c_iss c) (c_aud c) (c_nonce c) (c_exp c) v (c_rat c) (c_auth c) (c_at c) (c_ch c) (c_acr c) (c_jti c) (c_extra c).
Definition set_auth (c : claims) v := mkClaims (c_sub c) (c_iss c) (c_aud c) (c_nonce c) (c_exp c) (c_iat c) (c_rat c) v (c_at c) (c_ch c) (c_acr c) (c_jti c) (c_extra c).
Definition set_iss (c : claims) v := mkClaims (c_sub c) v (c_aud c) (c_nonce c) (c_exp c) (c_iat c) (c_rat c) (c_auth c) (c_at c) (c_ch c) (c_acr c) (c_jti c) (c_extra c).
Definition set_aud (c : claims) v := mkClaims (c_sub c) (c_iss c) v (c_nonce c) (c_exp c) (c_iat c) (c_rat c) (c_auth c) (c_at c) (c_ch c) (c_acr c) (c_jti c) (c_extra c).
Definition set_nonce (c : claims) v := mkClaims (c_sub c) (c_iss c) (c_aud c) v (c_exp c) (c_iat c) (c_rat c) (c_auth c) (c_at c) (c_ch c) (c_acr c) (c_jti c) (c_extra c).
Definition set_at (c : claims) v := mkClaims (c_sub c) (c_iss c) (c_aud c) (c_nonce c) (c_exp c) (c_iat c) (c_rat c) (c_auth c) v (c_ch c) (c_acr c) (c_jti c) (c_extra c).
Definition set_ch (c : claims) v := mkClaims (c_sub c) (c_iss c) (c_aud c) (c_nonce c) (c_exp c) (c_iat c) (c_rat c) (c_auth c) (c_at c) v (c_acr c) (c_jti c) (c_extra c).
Definition set_acr (c : claims) v := mkClaims (c_sub c) (c_iss c) (c_aud c) (c_nonce c) (c_exp c) (c_iat c) (c_rat c) (c_auth c) (c_at c) (c_ch c) v (c_jti c) (c_extra c).
Definition set_jti (c : claims) v := mkClaims (c_sub c) (c_iss c) (c_aud c) (c_nonce c) (c_exp c) (c_iat c) (c_rat c) (c_auth c) (c_at c) (c_ch c) (c_acr c) v (c_extra c).

(* session header: the string value of Extra["alg"] (None when absent or not a string) and
   strconv.Atoi(alg[2:]) as computed by Go (None when it does not parse) *)
Record hdr := mkHdr { h_alg : option string; h_num : option Z }.

(* result of DefaultSigner.Decode on the id_token_hint, classified by the harness:
   the subject is "" when the claim is missing or not a string *)
Inductive hint := HintAbsent | HintOk (sub : string) | HintExpired (sub : string) | HintBad.

(* request form: association list (url.Values.Get = first value, "" when absent);
   [parsed] carries what Go's parsers make of the ORIGINAL values of max_age and id_token_hint *)
Definition form := list (string * string).
Fixpoint fget (k : string) (f : form) : string :=
  match f with
  | [] => ""
  | (k', v) :: r => if String.eqb k k' then v else fget k r
  end.
Record parsed := mkParsed { p_maxage : Z; p_hint : hint }.

Definition maxage_of (f : form) (p : parsed) : Z :=
  if String.eqb (fget "max_age" f) "" then 0%Z else p_maxage p.
Definition hint_of (f : form) (p : parsed) : hint :=
  if String.eqb (fget "id_token_hint" f) "" then HintAbsent else p_hint p.

(* Request.Sanitize(allowed): keep the listed keys *)
Definition sanitize (allowed : list string) (f : form) : form :=
  filter (fun kv => mem (fst kv) allowed) f.
Definition oidc_parameters : list string :=
  ["grant_type"; "max_age"; "prompt"; "acr_values"; "id_token_hint"; "nonce"].

Inductive keycfg := KRawRSA | KRawEC | KJwk (alg : string).
(* DefaultSigner.Generate: *rsa.PrivateKey -> RS256, *ecdsa.PrivateKey -> ES256, JSONWebKey -> its Algorithm *)
Definition key_alg (k : keycfg) : string :=
  match k with KRawRSA => "RS256" | KRawEC => "ES256" | KJwk a => a end.

Record config := mkConfig {
  g_key : keycfg;
  g_iss : string;
  g_entropy : nat;            (* GetMinParameterEntropy *)
  g_life : Z;                 (* GetIDTokenLifespan (already defaulted to 3600 by Config) *)
  g_prompts : list string }.  (* GetAllowedPrompts *)

Record client := mkClient {
  cl_id : string; cl_public : bool; cl_grants : list string;
  cl_life_code : option Z; cl_life_implicit : option Z; cl_life_refresh : option Z }.

Inductive ecode :=
| EServerError | EInsufficientEntropy | ELoginRequired | EInvalidRequest | EConsentRequired
| EInvalidGrant | EInvalidScope | EUnauthorizedClient | EMisconfiguration | EUnsupportedResponseType | EOther.
Definition ecode_eqb (a b : ecode) : bool :=
  match a, b with
  | EServerError, EServerError | EInsufficientEntropy, EInsufficientEntropy | ELoginRequired, ELoginRequired
  | EInvalidRequest, EInvalidRequest | EConsentRequired, EConsentRequired | EInvalidGrant, EInvalidGrant
  | EInvalidScope, EInvalidScope | EUnauthorizedClient, EUnauthorizedClient | EMisconfiguration, EMisconfiguration
  | EUnsupportedResponseType, EUnsupportedResponseType | EOther, EOther => true
  | _, _ => false
  end.

(* the claim set of the signed token, as IDTokenClaims.ToMap builds it ("" / None = claim absent);
   jti is always present and random, amr is never set by the harness: both left out *)
Record tokclaims := mkTok {
  t_sub : string; t_iss : string; t_aud : list string; t_nonce : string;
  t_exp : option Z; t_iat : option Z; t_rat : option Z; t_auth : option Z;
  t_at : hashv; t_ch : hashv; t_acr : string;
  t_extra : list (string * string) }.

(* ------------------------------------------------------------------ time *)
(* time.Time{}.Unix(); non-zero times used by the harness are far above it *)
Definition zero_time : Z := (-62135596800)%Z.
Definition tval (t : option Z) : Z := match t with Some z => z | None => zero_time end.
Definition is_zero (t : option Z) : bool := match t with None => true | Some _ => false end.
Definition t_after (a b : option Z) : bool := Z.ltb (tval b) (tval a).
Definition t_before (a b : option Z) : bool := Z.ltb (tval a) (tval b).
Definition t_equal (a b : option Z) : bool := Z.eqb (tval a) (tval b).

(* ------------------------------------------------------------------ ComputeHash *)
Definition hash_of_hdr (h : hdr) : halg :=
  match h_alg h with
  | Some a =>
      if Nat.ltb 2 (String.length a) then
        match h_num h with
        | Some 384%Z => SHA384
        | Some 512%Z => SHA512
        | _ => SHA256
        end
      else SHA256
  | None => SHA256
  end.

(* ------------------------------------------------------------------ ToMap *)
Definition std_claims : list string :=
  ["sub"; "iss"; "jti"; "aud"; "iat"; "exp"; "rat"; "nonce"; "at_hash"; "c_hash"; "auth_time"; "acr"; "amr"].

Definition to_map (c : claims) : tokclaims :=
  mkTok (c_sub c) (c_iss c) (c_aud c) (c_nonce c) (c_exp c) (c_iat c) (c_rat c) (c_auth c)
        (c_at c) (c_ch c) (c_acr c)
        (filter (fun kv => negb (mem (fst kv) std_claims)) (c_extra c)).

(* stringslice.Unique: first occurrences, in order *)
Fixpoint unique_acc (seen l : list string) : list string :=
  match l with
  | [] => []
  | x :: r => if mem x seen then unique_acc seen r else x :: unique_acc (x :: seen) r
  end.
Definition unique (l : list string) : list string := unique_acc [] l.

(* ------------------------------------------------------------------ GenerateIDToken *)
Inductive outcome := OErr (e : ecode) | OTok (t : tokclaims).

(* the checks that are skipped when grant_type = refresh_token; may set acr *)
Definition gen_auth_checks (f : form) (p : parsed) (c : claims) (now : Z) : claims * option ecode :=
  let maxage := maxage_of f p in
  if t_after (c_auth c) (Some (now + 5)%Z) then (c, Some EServerError)
  else if Z.ltb 0 maxage && is_zero (c_auth c) then (c, Some EServerError)
  else if Z.ltb 0 maxage && is_zero (c_rat c) then (c, Some EServerError)
  else if Z.ltb 0 maxage && Z.ltb (tval (c_auth c) + maxage)%Z (tval (c_rat c)) then (c, Some EServerError)
  else
    let prompt := fget "prompt" f in
    if negb (String.eqb prompt "") && is_zero (c_auth c) then (c, Some EServerError)
    else if String.eqb prompt "none" && negb (t_equal (c_auth c) (c_rat c)) && t_after (c_auth c) (c_rat c) then (c, Some EServerError)
    else if String.eqb prompt "login" && negb (t_equal (c_auth c) (c_rat c)) && t_before (c_auth c) (c_rat c) then (c, Some EServerError)
    else
      let c1 := if negb (String.eqb (fget "acr_values" f) "") && String.eqb (c_acr c) "" then set_acr c "0" else c in
      match hint_of f p with
      | HintAbsent => (c1, None)
      | HintBad => (c1, Some EServerError)
      | HintOk s | HintExpired s =>
          if String.eqb s "" then (c1, Some EServerError)
          else if negb (String.eqb s (c_sub c1)) then (c1, Some EServerError)
          else (c1, None)
      end.

Definition generate (g : config) (client_id : string) (lifespan : Z) (f : form) (p : parsed)
                    (c : claims) (now : Z) : claims * outcome :=
  let lifespan := if Z.eqb lifespan 0 then 3600%Z else lifespan in
  if String.eqb (c_sub c) "" then (c, OErr EServerError)
  else
    let '(c1, e) := if String.eqb (fget "grant_type" f) "refresh_token" then (c, None)
                    else gen_auth_checks f p c now in
    match e with
    | Some e => (c1, OErr e)
    | None =>
        let c2 := if is_zero (c_exp c1) then set_exp c1 (Some (now + lifespan)%Z) else c1 in
        if t_before (c_exp c2) (Some now) then (c2, OErr EServerError)
        else
          let c3 := if is_zero (c_auth c2) then set_auth c2 (Some now) else c2 in
          let c4 := if String.eqb (c_iss c3) "" then set_iss c3 (g_iss g) else c3 in
          let nonce := fget "nonce" f in
          if negb (String.eqb nonce "") && Nat.ltb (String.length nonce) (g_entropy g)
          then (c4, OErr EInsufficientEntropy)
          else
            let c5 := if String.eqb nonce "" then c4 else set_nonce c4 nonce in
            let c6 := set_aud c5 (unique (c_aud c5 ++ [client_id])%list) in
            let c7 := set_iat c6 (Some now) in
            (c7, OTok (to_map c7))
    end.

(* ------------------------------------------------------------------ ValidatePrompt *)
Definition default_prompts : list string := ["login"; "none"; "consent"; "select_account"].
Definition remove_empty (l : list string) : list string := filter (fun s => negb (String.eqb s "")) l.

Definition validate_prompt (g : config) (public redirect_secure : bool) (f : form) (p : parsed)
                           (c : claims) (now : Z) : option ecode :=
  let required := remove_empty (split space (fget "prompt" f)) in
  if public && mem "none" required && negb redirect_secure then Some EConsentRequired
  else
    let available := match g_prompts g with [] => default_prompts | l => l end in
    if negb (forallb (fun x => mem x available) required) then Some EInvalidRequest
    else if mem "none" required && Nat.ltb 1 (List.length required) then Some EInvalidRequest
    else
      let maxage := maxage_of f p in
      if String.eqb (c_sub c) "" then Some EServerError
      else if t_after (c_auth c) (Some (now + 5)%Z) then Some EServerError
      else if Z.ltb 0 maxage && is_zero (c_auth c) then Some EServerError
      else if Z.ltb 0 maxage && is_zero (c_rat c) then Some EServerError
      else if Z.ltb 0 maxage && Z.ltb (tval (c_auth c) + maxage)%Z (tval (c_rat c)) then Some ELoginRequired
      else if mem "none" required && is_zero (c_auth c) then Some EServerError
      else if mem "none" required && negb (t_equal (c_auth c) (c_rat c)) && t_after (c_auth c) (c_rat c) then Some ELoginRequired
      else if mem "login" required && t_before (c_auth c) (c_rat c) then Some ELoginRequired
      else
        match hint_of f p with
        | HintAbsent => None
        | HintBad => Some EInvalidRequest
        | HintOk s | HintExpired s =>
            if String.eqb s "" then Some EInvalidRequest
            else if negb (String.eqb s (c_sub c)) then Some ELoginRequired
            else None
        end.

(* ------------------------------------------------------------------ lifespans *)
Inductive grant := GCode | GImplicit | GRefresh | GDevice.
(* fosite.GetEffectiveLifespan(client, grant, IDToken, config lifespan): the device grant has no
   per-client entry *)
Definition eff_life (g : config) (cl : client) (gr : grant) : Z :=
  let o := match gr with
           | GCode => cl_life_code cl | GImplicit => cl_life_implicit cl
           | GRefresh => cl_life_refresh cl | GDevice => None end in
  match o with Some z => z | None => g_life g end.

(* ------------------------------------------------------------------ Arguments *)
Definition args_matches (r items : list string) : bool :=
  Nat.eqb (List.length r) (List.length items) && forallb (fun i => in_slice_ci i r) items
  && Nat.eqb (List.length (unique items)) (List.length r).

(* ------------------------------------------------------------------ authorization endpoint *)
(* what the application and the outer layers contribute to one authorization request *)
Record areq := mkAreq {
  a_rts : list string;        (* response types *)
  a_granted : list string;    (* granted scopes *)
  a_form : form; a_parsed : parsed;
  a_redirect_secure : bool;   (* RedirectSecureChecker(redirect URI) *)
  a_scopes_ok : bool;         (* every requested scope passes the scope strategy for the client *)
  a_code : nat; a_token : nat (* numbers the code / access token get if this response mints them *) }.

(* OIDC session stored under the code: the sanitized request *)
Record stored := mkStored { s_form : form; s_parsed : parsed; s_granted : list string; s_client : client }.

Record ares := mkAres {
  r_err : option ecode;
  r_idt : option tokclaims;
  r_code : bool; r_at : bool;          (* code / access token delivered in the response *)
  r_stored : option stored;            (* OIDC session created *)
  r_claims : claims }.                 (* session claims afterwards *)

Definition afail (e : ecode) (c : claims) : ares := mkAres (Some e) None false false None c.

Definition has_openid (scopes : list string) : bool := args_has scopes ["openid"].
Definition redirect_present (f : form) : bool := negb (String.eqb (fget "redirect_uri" f) "").

Definition mk_stored (cl : client) (a : areq) : stored :=
  mkStored (sanitize oidc_parameters (a_form a)) (a_parsed a) (a_granted a) cl.

(* response_type=code: oauth2 explicit handler issues the code, then OpenIDConnectExplicitHandler *)
Definition authorize_code (g : config) (cl : client) (h : hdr) (a : areq) (c : claims) (now : Z) : ares :=
  if negb (a_redirect_secure a) then afail EInvalidRequest c
  else if negb (a_scopes_ok a) then afail EInvalidScope c
  else if negb (has_openid (a_granted a)) then mkAres None None true false None c
  else if negb (redirect_present (a_form a)) then afail EInvalidRequest c
  else match validate_prompt g (cl_public cl) (a_redirect_secure a) (a_form a) (a_parsed a) c now with
       | Some e => afail e c
       | None => mkAres None None true false (Some (mk_stored cl a)) c
       end.

(* OpenIDConnectImplicitHandler, once its trigger condition holds *)
Definition authorize_implicit (g : config) (cl : client) (h : hdr) (a : areq) (c : claims) (now : Z) : ares :=
  let nonce := fget "nonce" (a_form a) in
  if negb (args_has (cl_grants cl) ["implicit"]) then afail EInvalidGrant c
  else if negb (redirect_present (a_form a)) then afail EInvalidRequest c
  else if String.eqb nonce "" then afail EInvalidRequest c
  else if Nat.ltb (String.length nonce) (g_entropy g) then afail EInsufficientEntropy c
  else if negb (a_scopes_ok a) then afail EInvalidScope c
  else match validate_prompt g (cl_public cl) (a_redirect_secure a) (a_form a) (a_parsed a) c now with
       | Some e => afail e c
       | None =>
           let with_token := args_has (a_rts a) ["token"] in
           let c1 := if with_token then set_at c (HOf (hash_of_hdr h) (a_token a)) else c in
           match generate g (cl_id cl) (eff_life g cl GImplicit) (a_form a) (a_parsed a) c1 now with
           | (c2, OErr e) => afail e c2
           | (c2, OTok t) => mkAres None (Some t) false with_token None c2
           end
       end.

(* OpenIDConnectHybridHandler, once its trigger condition holds (response types contain code) *)
Definition authorize_hybrid (g : config) (cl : client) (h : hdr) (a : areq) (c : claims) (now : Z) : ares :=
  let nonce := fget "nonce" (a_form a) in
  if String.eqb nonce "" && args_has (a_rts a) ["id_token"] then afail EInvalidRequest c
  else if negb (String.eqb nonce "") && Nat.ltb (String.length nonce) (g_entropy g) then afail EInsufficientEntropy c
  else if negb (redirect_present (a_form a)) then afail EInvalidRequest c
  else match validate_prompt g (cl_public cl) (a_redirect_secure a) (a_form a) (a_parsed a) c now with
       | Some e => afail e c
       | None =>
           if negb (a_scopes_ok a) then afail EInvalidScope c
           else if negb (args_has (cl_grants cl) ["authorization_code"]) then afail EInvalidGrant c
           else
             let c1 := set_ch c (HOf (hash_of_hdr h) (a_code a)) in
             let st := if has_openid (a_granted a) then Some (mk_stored cl a) else None in
             let with_token := args_has (a_rts a) ["token"] in
             if with_token && negb (args_has (cl_grants cl) ["implicit"]) then afail EInvalidGrant c1
             else
               let c2 := if with_token then set_at c1 (HOf (hash_of_hdr h) (a_token a)) else c1 in
               if negb (has_openid (a_granted a)) || negb (args_has (a_rts a) ["id_token"])
               then mkAres None None true with_token st c2
               else match generate g (cl_id cl) (eff_life g cl GImplicit) (a_form a) (a_parsed a) c2 now with
                    | (c3, OErr e) => afail e c3
                    | (c3, OTok t) => mkAres None (Some t) true with_token st c3
                    end
       end.

(* NewAuthorizeResponse: the handlers in ComposeAllEnabled's order; for every response-type set at
   most one of them acts.  Anything unhandled ends in unsupported_response_type. *)
Definition authorize_step (g : config) (cl : client) (h : hdr) (a : areq) (c : claims) (now : Z) : ares :=
  let rts := a_rts a in
  if args_exact_one rts "code" then authorize_code g cl h a c now
  else if args_exact_one rts "token" then
    (* oauth2 AuthorizeImplicitGrantTypeHandler: no OpenID Connect handler acts *)
    if negb (args_has (cl_grants cl) ["implicit"]) then afail EInvalidGrant c
    else if negb (a_scopes_ok a) then afail EInvalidScope c
    else mkAres None None false true None c
  else if has_openid (a_granted a) && (args_has rts ["token"; "id_token"] || args_exact_one rts "id_token")
          && negb (args_has rts ["code"])
       then authorize_implicit g cl h a c now
  else if Nat.leb 2 (List.length rts)
          && (args_matches rts ["token"; "id_token"; "code"] || args_matches rts ["token"; "code"]
              || args_matches rts ["id_token"; "code"])
       then authorize_hybrid g cl h a c now
  else afail EUnsupportedResponseType c.

(* ------------------------------------------------------------------ token endpoint *)
Record tres := mkTres {
  x_err : option ecode;
  x_idt : option tokclaims;     (* None on success = response without id_token *)
  x_claims : claims }.

(* OpenIDConnectExplicitHandler.PopulateTokenEndpointResponse; [st] = the OIDC session found under
   the presented code (None: not found => ErrUnknownRequest, the response carries no ID token);
   [cl] = the authenticated client of the token request; [at] = number of the access token the
   oauth2 handler put into the response; [c] = claims of the stored session *)
Definition redeem_step (g : config) (cl : client) (h : hdr) (st : option stored) (at_ : nat)
                       (c : claims) (now : Z) : tres :=
  match st with
  | None => mkTres None None c
  | Some s =>
      if negb (has_openid (s_granted s)) then mkTres (Some EMisconfiguration) None c
      else if negb (args_has (cl_grants cl) ["authorization_code"]) then mkTres (Some EUnauthorizedClient) None c
      else if String.eqb (c_sub c) "" then mkTres (Some EServerError) None c
      else
        let c1 := set_at c (HOf (hash_of_hdr h) at_) in
        match generate g (cl_id (s_client s)) (eff_life g cl GCode) (s_form s) (s_parsed s) c1 now with
        | (c2, OErr e) => mkTres (Some e) None c2
        | (c2, OTok t) => mkTres None (Some t) c2
        end
  end.

(* OpenIDConnectRefreshHandler: HandleTokenEndpointRequest (reset) then PopulateTokenEndpointResponse.
   [granted] = scopes of the refreshed grant; [f] = the refresh request's own form *)
Definition refresh_reset (c : claims) : claims :=
  set_ch (set_at (set_jti (set_exp c None) false) HNone) HNone.

Definition refresh_step (g : config) (cl : client) (h : hdr) (granted : list string) (f : form)
                        (at_ : nat) (c : claims) (now : Z) : tres :=
  if negb (has_openid granted) then mkTres None None c
  else if negb (args_has (cl_grants cl) ["refresh_token"]) then mkTres (Some EUnauthorizedClient) None c
  else
    let c0 := refresh_reset c in
    if String.eqb (c_sub c0) "" then mkTres (Some EServerError) None c0
    else
      let c1 := set_iat (set_ch (set_jti (set_at c0 (HOf (hash_of_hdr h) at_)) true) HNone) (Some now) in
      match generate g (cl_id cl) (eff_life g cl GRefresh) f (mkParsed 0 HintAbsent) c1 now with
      | (c2, OErr e) => mkTres (Some e) None c2
      | (c2, OTok t) => mkTres None (Some t) c2
      end.

(* OpenIDConnectDeviceHandler.PopulateTokenEndpointResponse; [st] = the OIDC session the application
   stored under the device-code signature *)
Definition device_step (g : config) (cl : client) (h : hdr) (st : option stored) (at_ : nat)
                       (c : claims) (now : Z) : tres :=
  if negb (args_has (cl_grants cl) ["urn:ietf:params:oauth:grant-type:device_code"])
  then mkTres (Some EUnauthorizedClient) None c
  else match st with
  | None => mkTres None None c
  | Some s =>
      if negb (has_openid (s_granted s)) then mkTres (Some EMisconfiguration) None c
      else if String.eqb (c_sub c) "" then mkTres (Some EServerError) None c
      else
        let c1 := set_at c (HOf (hash_of_hdr h) at_) in
        match generate g (cl_id (s_client s)) (eff_life g cl GDevice) (s_form s) (s_parsed s) c1 now with
        | (c2, OErr e) => mkTres (Some e) None c2
        | (c2, OTok t) => mkTres None (Some t) c2
        end
  end.
