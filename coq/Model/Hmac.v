(* Transliteration of token/hmac/hmacsha.go (Generate, Validate, validate, Signature,
   GenerateHMACForString), of the prefix handling of handler/oauth2/strategy_hmacsha_prefixed.go and
   handler/rfc8628/strategy_hmacsha.go, and of the "lookup by signature, then validate the presented
   string" step of introspection / refresh / code redemption / device poll.  Model only (executable).

   Not modelled: base64 decoding and HMAC.  For a presented string the harness supplies
     - [kd]/[sd]: whether the part before / after the first dot (after the strategy's prefix
       trimming) decodes as unpadded URL-safe base64;
     - per configured secret an [sfact]: its byte length and whether HMAC(pad32(secret), decoded
       key part) equals the decoded signature part (computed with crypto/hmac, not with fosite).
   Every decision fosite takes on these facts and on the string itself (TrimPrefix, Cut at the first
   dot, Split for Signature, emptiness tests, order of checks, the loop over current + rotated
   secrets) is the model's. *)
From FositeModel Require Export Base.Str.

(* ---- strings.Cut(s, sep) for a one-byte separator ---- *)
Fixpoint cut (sep : ascii) (s : string) : option (string * string) :=
  match s with
  | EmptyString => None
  | String c r =>
      if Ascii.eqb c sep then Some (EmptyString, r)
      else match cut sep r with
           | Some (a, b) => Some (String c a, b)
           | None => None
           end
  end.

(* ---- strings.TrimPrefix ---- *)
Fixpoint drop (n : nat) (s : string) : string :=
  match n, s with
  | 0, _ => s
  | S k, String _ r => drop k r
  | S _, EmptyString => EmptyString
  end.
Definition trim_prefix (p s : string) : string :=
  if has_prefix p s then drop (String.length p) s else s.

(* ---- what the harness tells about one configured secret, for one presented string ----
   [sf_id] names the secret (two secrets have one id iff their first 32 bytes, zero padded, are equal:
   hmacsha.go copies the secret into a [32]byte); it is used by the symbolic layer and the monitor
   only, never by the functions below. *)
Record sfact := SF { sf_id : N; sf_len : N; sf_mac : bool }.

Inductive verr := EShort | EFormat | EDecode | EMismatch | ENoSecret.
Definition verr_eqb (a b : verr) : bool :=
  match a, b with
  | EShort, EShort | EFormat, EFormat | EDecode, EDecode | EMismatch, EMismatch | ENoSecret, ENoSecret => true
  | _, _ => false
  end.
Definition res_eqb (a b : option verr) : bool :=
  match a, b with
  | None, None => true
  | Some x, Some y => verr_eqb x y
  | _, _ => false
  end.

Definition min_secret : N := 32.

(* ---- func (c *HMACStrategy) validate(ctx, secret, token) ----
   order of the checks as in the code: secret length, Cut, empty parts, signature decodes, key
   decodes, MAC comparison. *)
Definition validate1 (tok : string) (kd sd : bool) (s : sfact) : option verr :=
  if N.ltb (sf_len s) min_secret then Some EShort
  else match cut dot tok with
       | None => Some EFormat
       | Some (k, g) =>
           if String.eqb k "" || String.eqb g "" then Some EFormat
           else if negb sd then Some EDecode
           else if negb kd then Some EDecode
           else if sf_mac s then None
           else Some EMismatch
       end.

(* keys: the global secret when it is non-empty, then the rotated secrets in configured order *)
Definition key_list (g : sfact) (rot : list sfact) : list sfact :=
  ((if N.ltb 0 (sf_len g) then [g] else []) ++ rot)%list.

(* for _, key := range keys { if err = validate(key); err == nil {return nil}
                             else if errors.Is(err, ErrTokenSignatureMismatch) {} else {return err} }
   return err *)
Fixpoint validate_loop (tok : string) (kd sd : bool) (keys : list sfact) (err : option verr) : option verr :=
  match keys with
  | [] => err
  | k :: r =>
      match validate1 tok kd sd k with
      | None => None
      | Some EMismatch => validate_loop tok kd sd r (Some EMismatch)
      | Some e => Some e
      end
  end.

Definition validate (tok : string) (kd sd : bool) (g : sfact) (rot : list sfact) : option verr :=
  match key_list g rot with
  | [] => Some ENoSecret
  | ks => validate_loop tok kd sd ks None
  end.

(* ---- func (HMACStrategy) Signature(token) ---- *)
Definition signature (tok : string) : string :=
  match split dot tok with
  | [_; s] => s
  | _ => ""
  end.

(* ---- Generate: refuses a current secret shorter than 32 bytes; the random part has
   max(entropy, 32) bytes, where config_default.go's GetTokenEntropy turns 0 into 32.  The result is
   (number of key bytes, number of signature bytes = output size of the configured hash). ---- *)
Definition gen_key_len (entropy : Z) : Z :=
  let e := if Z.eqb entropy 0 then 32%Z else entropy in
  if Z.ltb e 32 then 32%Z else e.
Definition generate (global_len : N) (entropy : Z) (hash_size : Z) : option (Z * Z) :=
  if N.ltb global_len min_secret then None else Some (gen_key_len entropy, hash_size).

(* ---- GenerateHMACForString (user-code signatures): refuses a short current secret ---- *)
Definition hmac_for_string_ok (global_len : N) : bool := negb (N.ltb global_len min_secret).

(* ---- strategies ---- *)
Inductive tkind := KAt | KRt | KAc | KDc.
Definition prefix_of (k : tkind) : string :=
  match k with KAt => "ory_at_" | KRt => "ory_rt_" | KAc => "ory_ac_" | KDc => "ory_dc_" end.

(* HMACSHAStrategy.Validate* = unprefixed validation of TrimPrefix(token, "ory_xx_");
   HMACSHAStrategyUnPrefixed.Validate* validates the string as it is;
   DefaultDeviceStrategy.ValidateDeviceCode always trims "ory_dc_".
   (expiry tests precede these calls; the harness presents unexpired records only) *)
Definition strat_trim (prefixed : bool) (k : tkind) (tok : string) : string :=
  match k with
  | KDc => trim_prefix (prefix_of KDc) tok
  | _ => if prefixed then trim_prefix (prefix_of k) tok else tok
  end.
Definition strat_validate (prefixed : bool) (k : tkind) (tok : string) (kd sd : bool)
           (g : sfact) (rot : list sfact) : option verr :=
  validate (strat_trim prefixed k tok) kd sd g rot.

(* every *Signature method of both strategies and DeviceCodeSignature is Enigma.Signature of the
   untrimmed string *)
Definition strat_signature (tok : string) : string := signature tok.

(* ---- end to end: lookup by signature, then validation of the presented string ----
   [stored] = the signatures under which the store holds a live record of that kind. *)
Inductive endpoint := EpIntrospect | EpRefresh | EpRedeem | EpDevice.

Definition verr_name (e : verr) : string :=
  match e with
  | EMismatch => "token_signature_mismatch:400"
  | EFormat => "invalid_token:400"
  | _ => "error:500"
  end.

(* projected verdict: "" = honoured, otherwise "<RFC error name>:<HTTP status>" of the error the
   endpoint answers with (introspection: "inactive" for every refusal) *)
Definition e2e (ep : endpoint) (prefixed : bool) (k : tkind) (stored : list string) (tok : string)
           (kd sd : bool) (g : sfact) (rot : list sfact) : string :=
  if mem (strat_signature tok) stored then
    match strat_validate prefixed k tok kd sd g rot with
    | None => ""
    | Some e =>
        match ep with
        | EpIntrospect => "inactive"
        | EpRefresh => "invalid_request:400"
        | EpRedeem => "invalid_grant:400"
        | EpDevice => verr_name e
        end
    end
  else match ep with
       | EpIntrospect => "inactive"
       | _ => "invalid_grant:400"
       end.

(* ---- symbolic tokens (perfect-MAC idealisation) ----
   A decoded signature part is either the MAC of key [k] under the secret named [o], or a byte
   string that is no MAC at all; a decoded key part is named by a number.  Two names are equal iff
   the byte strings are. *)
Inductive ssig := SMac (secret_id key_id : N) | SJunk.
Record stok := ST { st_key : N; st_sig : ssig }.

Definition sym_mac (sid : N) (t : stok) : bool :=
  match st_sig t with
  | SMac o k => N.eqb o sid && N.eqb k (st_key t)
  | SJunk => false
  end.

(* the facts the idealisation predicts for a secret list, given ids and lengths *)
Definition sym_fact (kd sd : bool) (t : stok) (id len : N) : sfact :=
  SF id len (kd && sd && sym_mac id t).
