(* Lock discipline of the reference store (storage/memory.go).

   The DATA of this model (one [method] per method of *MemoryStore) is not written by hand: the
   harness reads storage/*.go with go/parser on every run and emits the list (harness/c19_translate.go).
   This file defines
     - the shape of that data: the top-level statement sequence of a method, where a mutex
       acquisition [SAcq] is the pair `s.xMutex.Lock()/RLock(); defer s.xMutex.Unlock()/RUnlock()`,
       [SLock]/[SUnlock] are a top-level Lock/RLock without defer and a top-level explicit
       Unlock/RUnlock, [SRet] marks a point where the method may return (the preceding statement
       contains a `return`), and [SItems] is the flow-insensitive summary of any other statement
       (the table accesses and the calls to other methods of the store that occur anywhere inside it);
     - the events a thread executes, and the set of event sequences ("paths") a method can produce:
       any control flow through the summarised statements (branches, loops, returns at the marked
       points), calls expanded by a path of the callee, deferred releases in LIFO order at a return
       (explicitly locked mutexes are NOT released by a return: a leak is a rejected shape);
     - the reflective checker [lock_discipline_ok] (guards and lock order are INFERRED from the
       data, then verified) and the diagnostic tags used by the monitor;
     - a small-step semantics of threads over Go's sync.RWMutex (writer preference: a writer first
       becomes pending, which blocks new readers, and gets the lock when the readers have left).
   Executable definitions and relations only; the theorems are in Proofs/LocksProofs.v. *)
From FositeModel Require Export Base.Str.

Inductive mode := MR | MW.          (* shared / exclusive; for table accesses: read / write *)
Definition mode_eqb (a b : mode) : bool := match a, b with MR, MR | MW, MW => true | _, _ => false end.

Inductive item :=
| IAcc (tbl : string) (a : mode)     (* access to the store field [tbl] *)
| ICall (f : string).                (* call of another method of the store *)

Inductive stmt :=
| SAcq (m : string) (md : mode)      (* Lock/RLock of mutex field m, released by defer *)
| SLock (m : string) (md : mode)     (* Lock/RLock at the top level WITHOUT a defer: stays held until an explicit unlock *)
| SUnlock (m : string)               (* explicit Unlock/RUnlock at the top level *)
| SRet                               (* the method may return here (the preceding statement contains a return) *)
| SItems (its : list item).          (* everything that occurs inside one other top-level statement *)

Record method := Meth { m_name : string; m_body : list stmt }.

Inductive event :=
| Acq (m : string) (md : mode)
| Rel (m : string)
| Acc (tbl : string) (a : mode).

Definition hset := list (string * mode).      (* mutexes held, most recent first *)

Fixpoint lookup_method (f : string) (ms : list method) : option (list stmt) :=
  match ms with
  | [] => None
  | m :: r => if String.eqb (m_name m) f then Some (m_body m) else lookup_method f r
  end.

Definition holds (m : string) (h : hset) : bool := existsb (fun p => String.eqb (fst p) m) h.

Fixpoint remove_first (m : string) (h : hset) : hset :=
  match h with
  | [] => []
  | p :: r => if String.eqb (fst p) m then r else p :: remove_first m r
  end.

(* ------------------------------------------------------------------ what is verified per event *)
Fixpoint alookup {A} (k : string) (l : list (string * A)) : option A :=
  match l with
  | [] => None
  | (k', v) :: r => if String.eqb k' k then Some v else alookup k r
  end.

Definition guards := list (string * string).    (* table -> its guard mutex; absent = table is never written *)
Definition ranks := list (string * nat).        (* mutex -> position in the acquisition order *)
Definition rank (rk : ranks) (m : string) : nat := match alookup m rk with Some n => n | None => 0 end.

Definition sufficient (a md : mode) : bool := match a with MR => true | MW => mode_eqb md MW end.

(* an access is in order when the table's guard is held in a sufficient mode; a table without a
   guard may only be read *)
Definition acc_ok (G : guards) (h : hset) (tbl : string) (a : mode) : bool :=
  match alookup tbl G with
  | Some g => existsb (fun p => String.eqb (fst p) g && sufficient a (snd p)) h
  | None => mode_eqb a MR
  end.

(* an acquisition is in order when the mutex is not already held (in any mode: a second RLock
   deadlocks against a pending writer) and every held mutex precedes it in the order *)
Definition acq_ok (rk : ranks) (h : hset) (m : string) : bool :=
  negb (holds m h) && forallb (fun p => Nat.ltb (rank rk (fst p)) (rank rk m)) h.

(* the run-time reading of the discipline: scan a thread's events with the set of held mutexes *)
Fixpoint run (G : guards) (rk : ranks) (h : hset) (evs : list event) : option hset :=
  match evs with
  | [] => Some h
  | Acq m md :: r => if acq_ok rk h m then run G rk ((m, md) :: h) r else None
  | Rel m :: r => if holds m h then run G rk (remove_first m h) r else None
  | Acc t a :: r => if acc_ok G h t a then run G rk h r else None
  end.

(* ------------------------------------------------------------------ paths of a method *)
Definition releases (ds : list string) : list event := map Rel ds.

(* [bpath ms ds body p]: p is a possible event sequence of the remaining top-level statements
   [body] of a method whose deferred unlocks so far are [ds] (most recent first).  A method returns
   at the end of its body or at a return point [SRet]; the deferred unlocks then run in LIFO order.
   Mutexes locked explicitly ([SLock]) are NOT released by a return. *)
Inductive bpath (ms : list method) : list string -> list stmt -> list event -> Prop :=
| bp_end ds : bpath ms ds [] (releases ds)
| bp_ret ds rest : bpath ms ds (SRet :: rest) (releases ds)
| bp_ret_skip ds rest p : bpath ms ds rest p -> bpath ms ds (SRet :: rest) p
| bp_acq ds m md rest p :
    bpath ms (m :: ds) rest p -> bpath ms ds (SAcq m md :: rest) (Acq m md :: p)
| bp_lock ds m md rest p :
    bpath ms ds rest p -> bpath ms ds (SLock m md :: rest) (Acq m md :: p)
| bp_unlock ds m rest p :
    bpath ms ds rest p -> bpath ms ds (SUnlock m :: rest) (Rel m :: p)
| bp_next ds its rest p :
    bpath ms ds rest p -> bpath ms ds (SItems its :: rest) p
| bp_acc ds its rest t a p :
    In (IAcc t a) its -> bpath ms ds (SItems its :: rest) p ->
    bpath ms ds (SItems its :: rest) (Acc t a :: p)
| bp_call ds its rest f fb q p :
    In (ICall f) its -> lookup_method f ms = Some fb -> bpath ms [] fb q ->
    bpath ms ds (SItems its :: rest) p ->
    bpath ms ds (SItems its :: rest) (q ++ p)%list.

(* a complete execution of method f *)
Definition mpath (ms : list method) (f : string) (p : list event) : Prop :=
  exists fb, lookup_method f ms = Some fb /\ bpath ms [] fb p.

(* a thread runs any sequence of methods *)
Inductive tpath (ms : list method) : list event -> Prop :=
| tp_nil : tpath ms []
| tp_cons f p q : mpath ms f p -> tpath ms q -> tpath ms (p ++ q)%list.

(* ------------------------------------------------------------------ facts: what the checker looks at *)
Inductive fact :=
| FAcc (meth tbl : string) (a : mode) (h : hset)      (* access in method meth with h held (callers' locks included) *)
| FAcq (meth m : string) (md : mode) (h : hset)       (* acquisition of m with h held *)
| FRel (meth m : string) (acq : hset)                 (* explicit unlock of m; acq = what the method itself holds *)
| FRet (meth : string) (acq : hset) (ds : list string)  (* return point: acq held by the method, ds its deferred unlocks *)
| FErr (meth what : string).                          (* recursion between methods / unknown callee *)

(* acq: acquired by the method so far (most recent first); base: held by the callers;
   ds: deferred unlocks *)
Fixpoint facts_stmts (callf : hset -> string -> list fact) (cur : string) (acq base : hset) (ds : list string)
         (body : list stmt) : list fact :=
  match body with
  | [] => [FRet cur acq ds]
  | SAcq m md :: rest => FAcq cur m md (acq ++ base)%list :: facts_stmts callf cur ((m, md) :: acq) base (m :: ds) rest
  | SLock m md :: rest => FAcq cur m md (acq ++ base)%list :: facts_stmts callf cur ((m, md) :: acq) base ds rest
  | SUnlock m :: rest => FRel cur m acq :: facts_stmts callf cur (remove_first m acq) base ds rest
  | SRet :: rest => FRet cur acq ds :: facts_stmts callf cur acq base ds rest
  | SItems its :: rest =>
      (flat_map (fun it => match it with
                           | IAcc t a => [FAcc cur t a (acq ++ base)%list]
                           | ICall f => callf (acq ++ base)%list f
                           end) its
       ++ facts_stmts callf cur acq base ds rest)%list
  end.

(* calls are expanded in the context of the caller's held set; fuel bounds the call depth *)
Fixpoint facts (fuel : nat) (ms : list method) (cur : string) (h : hset) (body : list stmt) : list fact :=
  match fuel with
  | 0 => [FErr cur "recursion"]
  | S fuel' =>
      facts_stmts (fun h' g => match lookup_method g ms with
                               | Some gb => facts fuel' ms g h' gb
                               | None => [FErr cur ("unknown-callee-" ++ g)]
                               end) cur [] h [] body
  end.

Definition depth (ms : list method) : nat := S (List.length ms).

Definition all_facts (ms : list method) : list fact :=
  flat_map (fun m => facts (depth ms) ms (m_name m) [] (m_body m)) ms.

(* ------------------------------------------------------------------ inference of guards (Eraser style) *)
Fixpoint add_new (x : string) (l : list string) : list string :=
  match l with
  | [] => [x]
  | y :: r => if String.eqb x y then l else y :: add_new x r
  end.

Definition tables_of (fs : list fact) : list string :=
  fold_left (fun acc f => match f with FAcc _ t _ _ => add_new t acc | _ => acc end) fs [].
Definition mutexes_of (fs : list fact) : list string :=
  fold_left (fun acc f => match f with
                          | FAcq _ m _ h => add_new m (fold_left (fun a p => add_new (fst p) a) h acc)
                          | FAcc _ _ _ h => fold_left (fun a p => add_new (fst p) a) h acc
                          | _ => acc
                          end) fs [].

Definition covers (g : string) (a : mode) (h : hset) : bool :=
  existsb (fun p => String.eqb (fst p) g && sufficient a (snd p)) h.

(* number of methods all of whose accesses to tbl hold g in a sufficient mode *)
Definition accessors (fs : list fact) (tbl : string) : list string :=
  fold_left (fun acc f => match f with FAcc me t _ _ => if String.eqb t tbl then add_new me acc else acc | _ => acc end) fs [].
Definition complies (fs : list fact) (tbl g me : string) : bool :=
  forallb (fun f => match f with
                    | FAcc me' t a h => if String.eqb me' me && String.eqb t tbl then covers g a h else true
                    | _ => true end) fs.
Definition coverage (fs : list fact) (tbl g : string) : nat :=
  List.length (filter (complies fs tbl g) (accessors fs tbl)).

Definition written (fs : list fact) (tbl : string) : bool :=
  existsb (fun f => match f with FAcc _ t MW _ => String.eqb t tbl | _ => false end) fs.

Fixpoint best (fs : list fact) (tbl : string) (cands : list string) (cur : string) (curn : nat) : string :=
  match cands with
  | [] => cur
  | g :: r => let n := coverage fs tbl g in
              if Nat.ltb curn n then best fs tbl r g n else best fs tbl r cur curn
  end.

(* the guard of a written table is the mutex that most of the methods accessing it hold
   (sufficiently) at all their accesses; the verification below then demands it at ALL accesses.  A table no method writes needs none. *)
Definition infer_guards (fs : list fact) : guards :=
  flat_map (fun t => if written fs t then [(t, best fs t (mutexes_of fs) "?" 0)] else []) (tables_of fs).

(* ------------------------------------------------------------------ inference of the lock order *)
(* longest-path ranks over the observed nesting edges (held -> acquired), |mutexes|+1 rounds;
   the result is only a candidate: every edge is re-checked against it *)
Definition edges_of (fs : list fact) : list (string * string) :=
  flat_map (fun f => match f with FAcq _ m _ h => map (fun p => (fst p, m)) h | _ => [] end) fs.

Definition relax (es : list (string * string)) (rk : ranks) : ranks :=
  map (fun p => (fst p, fold_left (fun n e => if String.eqb (snd e) (fst p) then Nat.max n (S (rank rk (fst e))) else n) es (snd p))) rk.

Fixpoint iter {A} (n : nat) (f : A -> A) (x : A) : A := match n with 0 => x | S k => iter k f (f x) end.

Definition infer_ranks (fs : list fact) : ranks :=
  let mx := mutexes_of fs in
  iter (S (List.length mx)) (relax (edges_of fs)) (map (fun m => (m, 0)) mx).

(* ------------------------------------------------------------------ the checker *)
(* the deferred unlocks at a return point: each must be held, and nothing may remain held *)
Fixpoint release_all (ds : list string) (h : hset) : option hset :=
  match ds with
  | [] => Some h
  | m :: r => if holds m h then release_all r (remove_first m h) else None
  end.

Definition fact_ok (G : guards) (rk : ranks) (f : fact) : bool :=
  match f with
  | FAcc _ t a h => acc_ok G h t a
  | FAcq _ m _ h => acq_ok rk h m
  | FRel _ m acq => holds m acq
  | FRet _ acq ds => match release_all ds acq with Some [] => true | _ => false end
  | FErr _ _ => false
  end.

Fixpoint names_unique (ms : list method) : bool :=
  match ms with
  | [] => true
  | m :: r => match lookup_method (m_name m) r with None => names_unique r | Some _ => false end
  end.

Definition lock_discipline_ok (ms : list method) : bool :=
  let fs := all_facts ms in
  names_unique ms && forallb (fact_ok (infer_guards fs) (infer_ranks fs)) fs.

(* ------------------------------------------------------------------ diagnostics (monitor tags) *)
Definition first_bad_order (rk : ranks) (h : hset) (m : string) : string :=
  match filter (fun p => negb (Nat.ltb (rank rk (fst p)) (rank rk m))) h with
  | p :: _ => fst p
  | [] => "?"
  end.

Definition fact_tag (G : guards) (rk : ranks) (f : fact) : option string :=
  if fact_ok G rk f then None else
  match f with
  | FAcc meth t _ _ => Some ("unguarded:" ++ meth ++ ":" ++ t)
  | FAcq meth m _ h => if holds m h then Some ("reacquire:" ++ meth ++ ":" ++ m)
                       else Some ("lockorder:" ++ meth ++ ":" ++ first_bad_order rk h m ++ ">" ++ m)
  | FRel meth m _ => Some ("unlock-not-held:" ++ meth ++ ":" ++ m)
  | FRet meth acq ds => match release_all ds acq with
                        | Some (p :: _) => Some ("held-at-return:" ++ meth ++ ":" ++ fst p)
                        | _ => Some ("deferred-unlock-not-held:" ++ meth)
                        end
  | FErr meth what => Some ("calls:" ++ meth ++ ":" ++ what)
  end.

Definition diagnose (ms : list method) : list string :=
  let fs := all_facts ms in
  (if names_unique ms then [] else ["duplicate-method"]) ++
  fold_left (fun acc f => match fact_tag (infer_guards fs) (infer_ranks fs) f with
                          | Some t => add_new t acc | None => acc end) fs [].

(* ------------------------------------------------------------------ one critical section per table and operation
   "Every individual store operation takes effect atomically": a method that writes a table must make all of its
   accesses to that table - its own and those of the methods it calls - while it holds the table's guard
   continuously.  A method that reads the table in one critical section and writes it in a later one (test, release,
   re-acquire, set) is race-free and deadlock-free and still not atomic: two callers can both pass the test.
   [events] is the event sequence of the execution of a method that never returns early, every item once. *)
Fixpoint events_stmts (callf : string -> list event) (ds : list string) (body : list stmt) : list event :=
  match body with
  | [] => releases ds
  | SAcq m md :: rest => Acq m md :: events_stmts callf (m :: ds) rest
  | SLock m md :: rest => Acq m md :: events_stmts callf ds rest
  | SUnlock m :: rest => Rel m :: events_stmts callf ds rest
  | SRet :: rest => events_stmts callf ds rest
  | SItems its :: rest =>
      (flat_map (fun it => match it with IAcc t a => [Acc t a] | ICall f => callf f end) its
       ++ events_stmts callf ds rest)%list
  end.

Fixpoint events (fuel : nat) (ms : list method) (body : list stmt) : list event :=
  match fuel with
  | 0 => []
  | S fuel' => events_stmts (fun g => match lookup_method g ms with Some gb => events fuel' ms gb | None => [] end) [] body
  end.

Definition writes_table (evs : list event) (t : string) : bool :=
  existsb (fun e => match e with Acc t' MW => String.eqb t' t | _ => false end) evs.

(* [opened]: tables accessed since their guard was last taken; [closed]: tables whose guard was released after an access *)
Fixpoint split_scan (G : guards) (evs : list event) (opened closed : list string) : option string :=
  match evs with
  | [] => None
  | Acc t _ :: r => if existsb (String.eqb t) closed then Some t else split_scan G r (add_new t opened) closed
  | Rel m :: r =>
      let hit := filter (fun t => match alookup t G with Some g => String.eqb g m | None => false end) opened in
      split_scan G r (filter (fun t => negb (existsb (String.eqb t) hit)) opened) (hit ++ closed)%list
  | Acq _ _ :: r => split_scan G r opened closed
  end.

(* only tables the method writes matter: two read sections are two atomic reads *)
Definition split_section (ms : list method) (f : string) : option string :=
  match lookup_method f ms with
  | None => None
  | Some fb =>
      let evs := events (depth ms) ms fb in
      let G := infer_guards (all_facts ms) in
      let wr := filter (fun e => match e with Acc t _ => writes_table evs t | _ => true end) evs in
      match split_scan G wr [] [] with
      | Some t => Some ("split-critical-section:" ++ f ++ ":" ++ t)
      | None => None
      end
  end.

(* pairwise lockset criterion, independent of the inferred guards: two entry methods can race on
   a table when they access it (one writing) without a common mutex of which one holds it
   exclusively *)
Definition excluded (h1 h2 : hset) : bool :=
  existsb (fun p => existsb (fun q => String.eqb (fst p) (fst q) && (mode_eqb (snd p) MW || mode_eqb (snd q) MW)) h2) h1.

Definition entry_facts (ms : list method) (f : string) : list fact :=
  match lookup_method f ms with
  | Some fb => facts (depth ms) ms f [] fb
  | None => []
  end.

Definition may_race (ms : list method) (f g : string) : option string :=
  let ff := entry_facts ms f in
  let gf := entry_facts ms g in
  match flat_map (fun x => match x with
      | FAcc _ t a h => flat_map (fun y => match y with
            | FAcc _ t' a' h' => if String.eqb t t' && (mode_eqb a MW || mode_eqb a' MW) && negb (excluded h h') then [t] else []
            | _ => [] end) gf
      | _ => [] end) ff with
  | t :: _ => Some t
  | [] => None
  end.

(* ------------------------------------------------------------------ threads over sync.RWMutex *)
Record thread := Th { held : hset; pend : option string; rest : list event }.
Definition state := nat -> thread.

Definition upd (s : state) (t : nat) (th : thread) : state := fun u => if Nat.eqb u t then th else s u.

Definition whold (s : state) (u : nat) (m : string) : Prop := In (m, MW) (held (s u)).
Definition rhold (s : state) (u : nat) (m : string) : Prop := In (m, MR) (held (s u)).
Definition pending (s : state) (u : nat) (m : string) : Prop := pend (s u) = Some m.

(* sync.RWMutex: RLock blocks while a writer holds the mutex or is pending; Lock first excludes
   other writers (pending or holding), then waits for the readers to leave; Unlock/RUnlock and
   table accesses never block *)
Inductive step (s : state) : state -> Prop :=
| st_rlock t m r :
    rest (s t) = Acq m MR :: r -> pend (s t) = None ->
    (forall u, ~ whold s u m /\ ~ pending s u m) ->
    step s (upd s t (Th ((m, MR) :: held (s t)) None r))
| st_lock_announce t m r :
    rest (s t) = Acq m MW :: r -> pend (s t) = None ->
    (forall u, ~ whold s u m /\ ~ pending s u m) ->
    step s (upd s t (Th (held (s t)) (Some m) (Acq m MW :: r)))
| st_lock_granted t m r :
    rest (s t) = Acq m MW :: r -> pend (s t) = Some m ->
    (forall u, ~ rhold s u m) ->
    step s (upd s t (Th ((m, MW) :: held (s t)) None r))
| st_access t tbl a r :
    rest (s t) = Acc tbl a :: r ->
    step s (upd s t (Th (held (s t)) (pend (s t)) r))
| st_unlock t m r :
    rest (s t) = Rel m :: r ->
    step s (upd s t (Th (remove_first m (held (s t))) (pend (s t)) r)).

Inductive steps : state -> state -> Prop :=
| steps_refl s : steps s s
| steps_step s s' s'' : steps s s' -> step s' s'' -> steps s s''.

Definition init (progs : list (list event)) : state := fun t => Th [] None (nth t progs []).

(* a data race: two different threads are both about to access the same table, one of them writing *)
Definition race (s : state) : Prop :=
  exists t1 t2 tbl a1 a2 r1 r2, t1 <> t2 /\
    rest (s t1) = Acc tbl a1 :: r1 /\ rest (s t2) = Acc tbl a2 :: r2 /\ (a1 = MW \/ a2 = MW).

Definition finished (s : state) : Prop := forall t, rest (s t) = [].
