(* Transliteration of scope_strategy.go and audience_strategy.go (model, executable).
   The loops keep the shape of the Go code; the declarative specifications they are proved
   equivalent to live in Proofs/ScopeProofs.v. *)
From FositeModel Require Export Base.Str.

(* ---- ExactScopeStrategy ---- *)
Definition exact_strategy (haystack : list string) (needle : string) : bool :=
  existsb (fun this => String.eqb needle this) haystack.

(* ---- HierarchicScopeStrategy ----
   for k, needle := range needles { if haystackLen < k {return true}; if haystack[k] != needle {break} } *)
Fixpoint hier_loop (hs ns : list string) {struct ns} : bool :=
  match ns with
  | [] => false
  | n :: ns' =>
      match hs with
      | [] => true
      | h :: hs' => if String.eqb h n then hier_loop hs' ns' else false
      end
  end.

Definition hier_one (this needle : string) : bool :=
  if String.eqb this needle then true
  else if Nat.ltb (String.length needle) (String.length this) then false
  else hier_loop (split dot this) (split dot needle).

Definition hierarchic_strategy (haystack : list string) (needle : string) : bool :=
  existsb (fun this => hier_one this needle) haystack.

(* ---- WildcardScopeStrategy ----
   [same_len] is len(matcherParts) == len(needleParts); the loop returns true when noteq stays false. *)
Definition is_star (c : string) : bool := String.eqb c "*".
Definition is_empty (c : string) : bool := String.eqb c "".

Fixpoint wild_loop (ms ns : list string) (same_len : bool) : bool :=
  match ms with
  | [] => true
  | c :: ms' =>
      match ns with
      | [] => false
      | n :: ns' =>
          let is_last := match ms' with [] => true | _ => false end in
          if is_last && negb same_len && negb (is_star c) then false
          else if is_star c && negb (is_empty n) then wild_loop ms' ns' same_len
          else if negb (String.eqb c n) then false
          else wild_loop ms' ns' same_len
      end
  end.

Definition wildcard_one (matcher needle : string) : bool :=
  let mp := split dot matcher in
  let np := split dot needle in
  if Nat.ltb (List.length np) (List.length mp) then false
  else wild_loop mp np (Nat.eqb (List.length mp) (List.length np)).

Definition wildcard_strategy (matchers : list string) (needle : string) : bool :=
  existsb (fun m => wildcard_one m needle) matchers.

Inductive scope_strategy := SExact | SHierarchic | SWildcard.
Definition scope_match (s : scope_strategy) : list string -> string -> bool :=
  match s with
  | SExact => exact_strategy
  | SHierarchic => hierarchic_strategy
  | SWildcard => wildcard_strategy
  end.

(* ---- audience strategies ----
   net/url.Parse is not modelled: the harness supplies, for every audience string, the parse
   verdict and the components Go computed. *)
Record aurl := { a_raw : string; a_ok : bool; a_scheme : string; a_host : string; a_path : string }.

Definition default_aud_pair (h n : aurl) : bool :=
  let allowed := trim_right slash (a_path h) in
  String.eqb (a_scheme n) (a_scheme h) && String.eqb (a_host n) (a_host h) &&
  (String.eqb (a_path n) (a_path h)
   || String.eqb (a_path n) allowed
   || (Nat.ltb (String.length allowed) (String.length (a_path n))
       && String.eqb (trim_right slash (take (String.length allowed + 1) (a_path n)) ++ "/") (allowed ++ "/"))).

(* result: None = accepted; Some tt = ErrInvalidRequest *)
Fixpoint default_aud_hay (hs : list aurl) (n : aurl) (found : bool) : option bool :=
  match hs with
  | [] => Some found
  | h :: r => if negb (a_ok h) then None
              else default_aud_hay r n (found || default_aud_pair h n)
  end.

Fixpoint default_audience (hs ns : list aurl) : bool :=
  match ns with
  | [] => true
  | n :: r =>
      if negb (a_ok n) then false
      else match default_aud_hay hs n false with
           | None => false
           | Some false => false
           | Some true => default_audience hs r
           end
  end.

Definition exact_audience (hs ns : list string) : bool :=
  forallb (fun n => existsb (fun h => String.eqb n h) hs) ns.
