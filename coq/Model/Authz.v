(* Model of fosite's authorization endpoint (property C13): request validation
   (authorize_request_handler.go), the handler loop of NewAuthorizeResponse
   (authorize_response_writer.go) over the handlers compose.ComposeAllEnabled wires in
   (handler/oauth2/flow_authorize_code_auth.go, flow_authorize_implicit.go,
   handler/openid/flow_explicit_auth.go, flow_implicit.go, flow_hybrid.go, validator.go,
   strategy_jwt.go) and the two writers (authorize_write.go, authorize_error.go).

   Executable definitions only; the order of checks and the quirks of the Go code are kept.
   Inputs computed by Go's standard library or by cryptography are fields of the input records:
     - the redirect-URI matcher's verdict per candidate string (property C11 covers the matcher),
     - the parse of a request object (header alg / kid, which key material signed it, whether the
       registered claims validate, the claims rendered by fmt.Sprintf("%s", v)),
     - whether fetching a request_uri succeeded.
   Signatures are symbolic: a JWT verifies under a key iff it was signed with that key material. *)
From FositeModel Require Export Base.Str Model.Scope.

(* ------------------------------------------------------------------ url.Values (first value wins) *)
Definition form := list (string * string).

Fixpoint fget (k : string) (f : form) : string :=
  match f with
  | [] => ""
  | (k', v) :: r => if String.eqb k k' then v else fget k r
  end.

(* Form.Set: the new binding shadows every older one *)
Definition fset (k v : string) (f : form) : form := (k, v) :: f.

(* for k, v := range claims { Form.Set(k, v) }; claim keys are distinct (a Go map) *)
Fixpoint fmerge (claims f : form) : form :=
  match claims with
  | [] => f
  | (k, v) :: r => fset k v (fmerge r f)
  end.

(* ------------------------------------------------------------------ RemoveEmpty(strings.Split(s, " ")) *)
Definition is_ws (c : ascii) : bool :=
  let n := nat_of_ascii c in
  Nat.eqb n 32 || (Nat.leb 9 n && Nat.leb n 13).

Fixpoint trim_left_ws (s : string) : string :=
  match s with
  | EmptyString => EmptyString
  | String c r => if is_ws c then trim_left_ws r else s
  end.

Fixpoint trim_right_ws (s : string) : string :=
  match s with
  | EmptyString => EmptyString
  | String a r =>
      match trim_right_ws r with
      | EmptyString => if is_ws a then EmptyString else String a EmptyString
      | t => String a t
      end
  end.

Definition trim_space (s : string) : string := trim_right_ws (trim_left_ws s).

Definition remove_empty (l : list string) : list string :=
  filter (fun s => negb (String.eqb s "")) (map trim_space l).

Definition fields (s : string) : list string := remove_empty (split space s).

(* ------------------------------------------------------------------ Arguments.Matches *)
(* found := map[string]bool: the keys seen so far, compared exactly *)
Fixpoint matches_loop (r items found : list string) : bool :=
  match items with
  | [] => Nat.eqb (List.length found) (List.length r)
  | i :: rest =>
      if in_slice_ci i r then matches_loop r rest (if mem i found then found else i :: found)
      else false
  end.

Definition args_matches (r items : list string) : bool :=
  if negb (Nat.eqb (List.length r) (List.length items)) then false
  else matches_loop r items [].

(* ------------------------------------------------------------------ registrations *)
Record jwk := { k_kid : string; k_use : string; k_rsa : bool; k_mat : nat }.

Record client := {
  c_public : bool;
  c_grants : list string;        (* GetGrantTypes() *)
  c_rtypes : list string;        (* GetResponseTypes(): each entry a space separated combination *)
  c_scopes : list string;
  c_rm_iface : bool;             (* the client type implements ResponseModeClient *)
  c_rmodes : list string;        (* GetResponseModes() *)
  c_oidc : bool;                 (* the client type implements OpenIDConnectClient *)
  c_jwks : option (list jwk);    (* GetJSONWebKeys(); the JWKS URI is always empty in this model *)
  c_req_uris : list string;      (* GetRequestURIs() *)
  c_ro_alg : string              (* GetRequestObjectSigningAlgorithm() *)
}.

Record config := {
  cf_min_raw : nat;              (* Config.MinParameterEntropy *)
  cf_scope : scope_strategy
}.

(* Config.GetMinParameterEntropy *)
Definition min_entropy (cfg : config) : nat :=
  if Nat.eqb (cf_min_raw cfg) 0 then 8 else cf_min_raw cfg.

(* ------------------------------------------------------------------ request objects *)
Record jwt := {
  j_alg : string;                (* header alg *)
  j_kid : string;                (* header kid, "" when absent *)
  j_signer : option nat;         (* key material that produced the signature; None = no valid signature *)
  j_claims_ok : bool;            (* MapClaims.Valid(): exp / iat / nbf *)
  j_claims : form                (* every claim, rendered with fmt.Sprintf("%s", v) *)
}.

Inductive robj :=
| RoMalformed                     (* jwt.ParseSigned fails *)
| RoJwt (j : jwt).

(* what the matcher said about one candidate redirect_uri string *)
Record redir := {
  rv_raw : string;
  rv_match : bool;               (* MatchRedirectURIWithClientRedirectURIs returned a URL *)
  rv_valid : bool;               (* IsValidRedirectURI of that URL *)
  rv_revalid : bool;             (* AuthorizeRequest.IsRedirectURIValid() on the stored URL *)
  rv_secure : bool               (* IsRedirectURISecure of that URL *)
}.

Record request := {
  q_form : form;                 (* the query as sent, in order *)
  q_ro : option robj;            (* what the value of 'request' (or the body behind 'request_uri') parses to *)
  q_fetch_ok : bool;             (* GET request_uri answered 200 with a readable body *)
  q_redirs : list redir          (* matcher verdicts for every candidate redirect_uri value *)
}.

Fixpoint find_redir (raw : string) (l : list redir) : option redir :=
  match l with
  | [] => None
  | e :: r => if String.eqb raw (rv_raw e) then Some e else find_redir raw r
  end.

(* findPublicKey *)
Definition find_public_key (keys : list jwk) (kid : string) (want_rsa : bool) : option jwk :=
  match keys with
  | [] => None
  | _ =>
    let ks := if String.eqb kid "" then keys else filter (fun k => String.eqb (k_kid k) kid) keys in
    List.find (fun k => String.eqb (k_use k) "sig" && Bool.eqb (k_rsa k) want_rsa) ks
  end.

(* the switch over t.Method in the key function: Some true = RSA key expected, Some false = ECDSA *)
Definition alg_family (alg : string) : option bool :=
  if mem alg ["RS256"; "RS384"; "RS512"; "PS256"; "PS384"; "PS512"] then Some true
  else if mem alg ["ES256"; "ES384"; "ES512"] then Some false
  else None.

Inductive ro_outcome :=
| RoSkip                          (* the form is left alone *)
| RoUse (claims : form)           (* the claims are merged into the form *)
| RoErr (e : string).

Definition par_prefix : string := "urn:ietf:params:oauth:request_uri:".

(* jwt.ParseWithClaims with the key function of authorizeRequestParametersFromOpenIDConnectRequest.
   When the registered claims do not validate (exp / iat / nbf), MapClaims.Valid returns a
   ValidationError whose Inner is a plain error; the caller returns that Inner, which
   ErrorToRFC6749Error renders as the unknown error "error" with status 500. *)
Definition ro_verify (cl : client) (keys : list jwk) (ro : option robj) : ro_outcome :=
  match ro with
  | None => RoErr "invalid_request_object"
  | Some RoMalformed => RoErr "invalid_request_object"
  | Some (RoJwt j) =>
      if negb (String.eqb (c_ro_alg cl) "") && negb (String.eqb (c_ro_alg cl) (j_alg j))
      then RoErr "invalid_request_object"
      else if String.eqb (j_alg j) "none" then
        (if j_claims_ok j then RoUse (j_claims j) else RoErr "error")
      else
        match alg_family (j_alg j) with
        | None => RoErr "invalid_request_object"
        | Some want_rsa =>
            match find_public_key keys (j_kid j) want_rsa with
            | None => RoErr "invalid_request_object"
            | Some k =>
                match j_signer j with
                | Some m => if Nat.eqb m (k_mat k)
                            then (if j_claims_ok j then RoUse (j_claims j) else RoErr "error")
                            else RoErr "invalid_request_object"
                | None => RoErr "invalid_request_object"
                end
            end
        end
  end.

Definition ro_process (cl : client) (rq : request) : ro_outcome :=
  let f := q_form rq in
  let scope := fields (fget "scope" f) in
  if negb (args_has scope ["openid"]) then RoSkip
  else
    let r := fget "request" f in
    let u := fget "request_uri" f in
    if String.eqb r "" && String.eqb u "" then RoSkip
    else if negb (String.eqb r "") && negb (String.eqb u "") then RoErr "invalid_request"
    else if negb (c_oidc cl) then
      (if negb (String.eqb u "") then RoErr "request_uri_not_supported" else RoErr "request_not_supported")
    else
      match c_jwks cl with
      | None => RoErr "invalid_request"
      | Some keys =>
          if negb (String.eqb u "") then
            (if negb (mem u (c_req_uris cl)) then RoErr "invalid_request_uri"
             else if negb (q_fetch_ok rq) then RoErr "invalid_request_uri"
             else ro_verify cl keys (q_ro rq))
          else ro_verify cl keys (q_ro rq)
      end.

(* the form after the claims were merged: scope is the claims' scope plus the query's scope values *)
Fixpoint add_missing (base extra : list string) : list string :=
  match extra with
  | [] => base
  | s :: r => add_missing (if mem s base then base else (base ++ [s])%list) r
  end.

Definition ro_apply (claims f : form) : form :=
  let scope := fields (fget "scope" f) in
  let f1 := fmerge claims f in
  let claim_scope := add_missing (fields (fget "scope" f1)) scope in
  fset "scope" (join space claim_scope) f1.

(* ------------------------------------------------------------------ the authorize request *)
Record areq := {
  a_form : form;                 (* request.Form, after the request object was merged *)
  a_state : string;
  a_cl : option client;
  a_rmode : string;              (* ResponseMode *)
  a_defmode : string;            (* DefaultResponseMode *)
  a_scopes : list string;        (* requested scopes *)
  a_granted : list string;       (* granted scopes (set by the embedding application) *)
  a_redir : option redir;        (* RedirectURI: the matcher's answer it was taken from *)
  a_rtypes : list string;
  a_handled : list string
}.

Definition areq0 (f : form) : areq :=
  {| a_form := f; a_state := fget "state" f; a_cl := None; a_rmode := ""; a_defmode := "";
     a_scopes := []; a_granted := []; a_redir := None; a_rtypes := []; a_handled := [] |}.

Definition with_form ar f st := {| a_form := f; a_state := st; a_cl := a_cl ar; a_rmode := a_rmode ar; a_defmode := a_defmode ar;
  a_scopes := a_scopes ar; a_granted := a_granted ar; a_redir := a_redir ar; a_rtypes := a_rtypes ar; a_handled := a_handled ar |}.
Definition with_client ar c := {| a_form := a_form ar; a_state := a_state ar; a_cl := c; a_rmode := a_rmode ar; a_defmode := a_defmode ar;
  a_scopes := a_scopes ar; a_granted := a_granted ar; a_redir := a_redir ar; a_rtypes := a_rtypes ar; a_handled := a_handled ar |}.
Definition with_modes ar m d := {| a_form := a_form ar; a_state := a_state ar; a_cl := a_cl ar; a_rmode := m; a_defmode := d;
  a_scopes := a_scopes ar; a_granted := a_granted ar; a_redir := a_redir ar; a_rtypes := a_rtypes ar; a_handled := a_handled ar |}.
Definition with_scopes ar s := {| a_form := a_form ar; a_state := a_state ar; a_cl := a_cl ar; a_rmode := a_rmode ar; a_defmode := a_defmode ar;
  a_scopes := s; a_granted := a_granted ar; a_redir := a_redir ar; a_rtypes := a_rtypes ar; a_handled := a_handled ar |}.
Definition with_granted ar g := {| a_form := a_form ar; a_state := a_state ar; a_cl := a_cl ar; a_rmode := a_rmode ar; a_defmode := a_defmode ar;
  a_scopes := a_scopes ar; a_granted := g; a_redir := a_redir ar; a_rtypes := a_rtypes ar; a_handled := a_handled ar |}.
Definition with_redir ar r := {| a_form := a_form ar; a_state := a_state ar; a_cl := a_cl ar; a_rmode := a_rmode ar; a_defmode := a_defmode ar;
  a_scopes := a_scopes ar; a_granted := a_granted ar; a_redir := r; a_rtypes := a_rtypes ar; a_handled := a_handled ar |}.
Definition with_rtypes ar t := {| a_form := a_form ar; a_state := a_state ar; a_cl := a_cl ar; a_rmode := a_rmode ar; a_defmode := a_defmode ar;
  a_scopes := a_scopes ar; a_granted := a_granted ar; a_redir := a_redir ar; a_rtypes := t; a_handled := a_handled ar |}.
Definition with_handled ar h := {| a_form := a_form ar; a_state := a_state ar; a_cl := a_cl ar; a_rmode := a_rmode ar; a_defmode := a_defmode ar;
  a_scopes := a_scopes ar; a_granted := a_granted ar; a_redir := a_redir ar; a_rtypes := a_rtypes ar; a_handled := (a_handled ar ++ [h])%list |}.

(* AuthorizeRequest.SetDefaultResponseMode *)
Definition set_default_mode (ar : areq) (m : string) : areq :=
  with_modes ar (if String.eqb (a_rmode ar) "" then m else a_rmode ar) m.

Definition scopes_ok (cfg : config) (cl : client) (scopes : list string) : bool :=
  forallb (fun s => scope_match (cf_scope cfg) (c_scopes cl) s) scopes.

(* validateResponseTypes: some registered combination Matches the requested one *)
Definition rtypes_registered (cl : client) (rts : list string) : bool :=
  existsb (fun t => args_matches rts (fields t)) (c_rtypes cl).

(* ParseResponseMode with the default ResponseModeHandler (which knows no extra mode) *)
Definition known_mode (m : string) : bool := mem m [""; "fragment"; "query"; "form_post"].

(* validateResponseMode *)
Definition rmode_permitted (cl : client) (m : string) : bool :=
  if String.eqb m "" then true
  else if negb (c_rm_iface cl) then false
  else mem m (c_rmodes cl).

(* the fallback at the end of newAuthorizeRequest: "code" alone answers in the query, everything else
   in the fragment, unless the request named a mode *)
Definition fallback_mode (ar : areq) : areq :=
  if String.eqb (a_rmode ar) ""
  then (if args_exact_one (a_rtypes ar) "code" then set_default_mode ar "query" else set_default_mode ar "fragment")
  else ar.

(* newAuthorizeRequest after the request object was dealt with: [ar] carries the client, [f] is
   request.Form (and r.Form, the same map) *)
Definition nar_validate (cfg : config) (cl : client) (rq : request) (ar2 : areq) (f : form)
  : areq * option string :=
  (* ParseResponseMode *)
  let m := fget "response_mode" f in
  if negb (known_mode m) then (ar2, Some "unsupported_response_mode")
  else
  let ar3 := with_modes ar2 m "" in
  (* parseAuthorizeScope *)
  let scopes := fields (fget "scope" f) in
  let ar4 := with_scopes ar3 scopes in
  (* validateAuthorizeRedirectURI *)
  let raw := fget "redirect_uri" f in
  if String.eqb raw "" && args_has scopes ["openid"] then (ar4, Some "invalid_request")
  else
  match find_redir raw (q_redirs rq) with
  | None => (ar4, Some "invalid_request")
  | Some e =>
  if negb (rv_match e) then (ar4, Some "invalid_request")
  else if negb (rv_valid e) then (ar4, Some "invalid_request")
  else
  let ar5 := with_redir ar4 (Some e) in
  (* validateAuthorizeScope (validateAudience: no audience is requested or registered) *)
  if negb (scopes_ok cfg cl scopes) then (ar5, Some "invalid_scope")
  else if negb (String.eqb (fget "registration" f) "") then (ar5, Some "registration_not_supported")
  else
  (* validateResponseTypes *)
  let rts := fields (fget "response_type" f) in
  match rts with
  | [] => (ar5, Some "unsupported_response_type")
  | _ =>
  if negb (rtypes_registered cl rts) then (ar5, Some "unsupported_response_type")
  else
  let ar6 := with_rtypes ar5 rts in
  (* validateResponseMode *)
  if negb (rmode_permitted cl m) then (ar6, Some "unsupported_response_mode")
  else
  (* fallback default response mode *)
  let ar7 := fallback_mode ar6 in
  if Nat.ltb (String.length (a_state ar7)) (min_entropy cfg) then (ar7, Some "invalid_state")
  else (ar7, None)
  end end.

(* newAuthorizeRequest(ctx, r, false); the PAR store is empty, PAR is not enforced *)
Definition new_authorize_request (cfg : config) (lookup : string -> option client) (rq : request)
  : areq * option string :=
  let f0 := q_form rq in
  let ar0 := areq0 f0 in
  (* authorizeRequestFromPAR *)
  if negb (String.eqb (fget "request_uri" f0) "") && has_prefix par_prefix (fget "request_uri" f0)
  then (ar0, Some "invalid_request_uri")
  else
  match lookup (fget "client_id" f0) with
  | None => (ar0, Some "invalid_client")
  | Some cl =>
      let ar1 := with_client ar0 (Some cl) in
      match ro_process cl rq with
      | RoErr e => (ar1, Some e)
      | RoSkip => nar_validate cfg cl rq ar1 f0
      | RoUse claims =>
          let f := ro_apply claims f0 in
          nar_validate cfg cl rq (with_form ar1 f (fget "state" f)) f
      end
  end.

(* NewPushedAuthorizeRequest for a request whose sender authenticates correctly as the client its client_id names
   (pushed_authorize_request_handler.go, then newAuthorizeRequest(ctx, r, true)): a request_uri parameter is refused
   at once; a request object is processed as at the authorization endpoint, except that one carrying a request_uri
   claim is refused; the stored PAR sessions and the enforcement switch play no part *)
Definition ro_process_par (cl : client) (rq : request) : ro_outcome :=
  match ro_process cl rq with
  | RoUse claims => if negb (String.eqb (fget "request_uri" claims) "") then RoErr "invalid_request_object" else RoUse claims
  | x => x
  end.

Definition new_pushed_authorize_request (cfg : config) (lookup : string -> option client) (rq : request)
  : areq * option string :=
  let f0 := q_form rq in
  let ar0 := areq0 f0 in
  match lookup (fget "client_id" f0) with
  | None => (ar0, Some "invalid_client")
  | Some cl =>
      let ar1 := with_client ar0 (Some cl) in
      if negb (String.eqb (fget "request_uri" f0) "") then (ar1, Some "invalid_request")
      else
      match ro_process_par cl rq with
      | RoErr e => (ar1, Some e)
      | RoSkip => nar_validate cfg cl rq ar1 f0
      | RoUse claims =>
          let f := ro_apply claims f0 in
          nar_validate cfg cl rq (with_form ar1 f (fget "state" f)) f
      end
  end.

(* ------------------------------------------------------------------ sessions, time *)
Record session := {
  s_oidc : bool;                 (* the session implements openid.Session *)
  s_subject : string;            (* IDTokenClaims().Subject *)
  s_auth : option Z;             (* AuthTime, seconds; None = zero time *)
  s_rat : option Z               (* RequestedAt *)
}.

(* time.Time comparisons with the zero time below every real instant *)
Definition t_before (a b : option Z) : bool :=
  match a, b with
  | None, None => false
  | None, Some _ => true
  | Some _, None => false
  | Some x, Some y => Z.ltb x y
  end.
Definition t_after (a b : option Z) : bool := t_before b a.
Definition t_equal (a b : option Z) : bool :=
  match a, b with
  | None, None => true
  | Some x, Some y => Z.eqb x y
  | _, _ => false
  end.
Definition t_zero (a : option Z) : bool := match a with None => true | Some _ => false end.
Definition t_add (a : option Z) (d : Z) : option Z := match a with None => None | Some x => Some (x + d)%Z end.

(* strconv.ParseInt(s, 10, 64), 0 on error *)
Definition digit_val (c : ascii) : option Z :=
  let n := nat_of_ascii c in
  if Nat.leb 48 n && Nat.leb n 57 then Some (Z.of_nat (n - 48)) else None.
Fixpoint parse_digits (s : string) (acc : Z) : option Z :=
  match s with
  | EmptyString => Some acc
  | String c r => match digit_val c with
                  | None => None
                  | Some d => parse_digits r (acc * 10 + d)%Z
                  end
  end.
Definition int64_max : Z := 9223372036854775807%Z.
Definition parse_int (s : string) : Z :=
  let body_sign := match s with
                   | String "+"%char r => (r, 1%Z)
                   | String "-"%char r => (r, (-1)%Z)
                   | _ => (s, 1%Z)
                   end in
  match fst body_sign with
  | EmptyString => 0%Z
  | body => match parse_digits body 0%Z with
            | None => 0%Z
            | Some v => let x := (snd body_sign * v)%Z in
                        if Z.ltb int64_max x || Z.ltb x (- int64_max - 1) then 0%Z else x
            end
  end.

Definition default_prompts : list string := ["login"; "none"; "consent"; "select_account"].

(* OpenIDConnectRequestValidator.ValidatePrompt; id_token_hint is never sent *)
Definition validate_prompt (cl : client) (f : form) (secure : bool) (se : session) (now : Z) : option string :=
  let rp := fields (fget "prompt" f) in
  if c_public cl && mem "none" rp && negb secure then Some "consent_required"
  else if negb (forallb (fun p => mem p default_prompts) rp) then Some "invalid_request"
  else if mem "none" rp && Nat.ltb 1 (List.length rp) then Some "invalid_request"
  else
  let max_age := parse_int (fget "max_age" f) in
  if negb (s_oidc se) then Some "server_error"
  else if String.eqb (s_subject se) "" then Some "server_error"
  else if t_after (s_auth se) (Some (now + 5)%Z) then Some "server_error"
  else if Z.ltb 0 max_age && t_zero (s_auth se) then Some "server_error"
  else if Z.ltb 0 max_age && t_zero (s_rat se) then Some "server_error"
  else if Z.ltb 0 max_age && t_before (t_add (s_auth se) max_age) (s_rat se) then Some "login_required"
  else if mem "none" rp && t_zero (s_auth se) then Some "server_error"
  else if mem "none" rp && negb (t_equal (s_auth se) (s_rat se)) && t_after (s_auth se) (s_rat se) then Some "login_required"
  else if mem "login" rp && t_before (s_auth se) (s_rat se) then Some "login_required"
  else None.

(* DefaultStrategy.GenerateIDToken: the checks before signing *)
Definition gen_id_token (cfg : config) (f : form) (se : session) (now : Z) : option string :=
  if negb (s_oidc se) then Some "server_error"
  else if String.eqb (s_subject se) "" then Some "server_error"
  else
  let pre :=
    if String.eqb (fget "grant_type" f) "refresh_token" then None
    else
      let max_age := parse_int (fget "max_age" f) in
      let prompt := fget "prompt" f in
      if t_after (s_auth se) (Some (now + 5)%Z) then Some "server_error"
      else if Z.ltb 0 max_age && t_zero (s_auth se) then Some "server_error"
      else if Z.ltb 0 max_age && t_zero (s_rat se) then Some "server_error"
      else if Z.ltb 0 max_age && t_before (t_add (s_auth se) max_age) (s_rat se) then Some "server_error"
      else if negb (String.eqb prompt "") && t_zero (s_auth se) then Some "server_error"
      else if String.eqb prompt "none" && negb (t_equal (s_auth se) (s_rat se)) && t_after (s_auth se) (s_rat se) then Some "server_error"
      else if String.eqb prompt "login" && negb (t_equal (s_auth se) (s_rat se)) && t_before (s_auth se) (s_rat se) then Some "server_error"
      else None in
  match pre with
  | Some e => Some e
  | None =>
      let nonce := fget "nonce" f in
      if negb (String.eqb nonce "") && Nat.ltb (String.length nonce) (min_entropy cfg) then Some "insufficient_entropy"
      else None
  end.

(* ------------------------------------------------------------------ the handler loop *)
Record fx := { x_codes : nat; x_access : nat; x_oidc : nat }.   (* records written to the store *)

Record hstate := {
  h_ar : areq;
  h_params : form;               (* resp.Parameters in the order they were added; token values are symbolic *)
  h_fx : fx
}.

Definition hs_ar (h : hstate) (ar : areq) := {| h_ar := ar; h_params := h_params h; h_fx := h_fx h |}.
Definition add_param (h : hstate) (k v : string) := {| h_ar := h_ar h; h_params := (h_params h ++ [(k, v)])%list; h_fx := h_fx h |}.
Definition handled (h : hstate) (t : string) := hs_ar h (with_handled (h_ar h) t).
Definition fx_code (h : hstate) := {| h_ar := h_ar h; h_params := h_params h;
  h_fx := {| x_codes := S (x_codes (h_fx h)); x_access := x_access (h_fx h); x_oidc := x_oidc (h_fx h) |} |}.
Definition fx_access (h : hstate) := {| h_ar := h_ar h; h_params := h_params h;
  h_fx := {| x_codes := x_codes (h_fx h); x_access := S (x_access (h_fx h)); x_oidc := x_oidc (h_fx h) |} |}.
Definition fx_oidc (h : hstate) := {| h_ar := h_ar h; h_params := h_params h;
  h_fx := {| x_codes := x_codes (h_fx h); x_access := x_access (h_fx h); x_oidc := S (x_oidc (h_fx h)) |} |}.

Definition has_param (k : string) (p : form) : bool := existsb (fun kv => String.eqb (fst kv) k) p.

Definition redir_secure (ar : areq) : bool :=
  match a_redir ar with Some e => rv_secure e | None => false end.

(* AuthorizeImplicitGrantTypeHandler.IssueImplicitAccessToken *)
Definition issue_access_token (h : hstate) : hstate :=
  let ar := h_ar h in
  let h1 := fx_access h in
  let h2 := add_param h1 "access_token" "<access_token>" in
  let h3 := add_param h2 "expires_in" "<n>" in
  let h4 := add_param h3 "token_type" "bearer" in
  let h5 := add_param h4 "state" (a_state ar) in
  let h6 := add_param h5 "scope" (join space (a_granted ar)) in
  handled h6 "token".

Definition handler := config -> client -> session -> Z -> hstate -> hstate * option string.

(* oauth2.AuthorizeExplicitGrantHandler *)
Definition h_explicit : handler := fun cfg cl se now h =>
  let ar := h_ar h in
  if negb (args_exact_one (a_rtypes ar) "code") then (h, None)
  else
    let h1 := hs_ar h (set_default_mode ar "query") in
    if negb (redir_secure ar) then (h1, Some "invalid_request")
    else if negb (scopes_ok cfg cl (a_scopes ar)) then (h1, Some "invalid_scope")
    else
      let h2 := fx_code h1 in
      let h3 := add_param h2 "code" "<code>" in
      let h4 := add_param h3 "state" (a_state ar) in
      let h5 := add_param h4 "scope" (join space (a_granted ar)) in
      (handled h5 "code", None).

(* oauth2.AuthorizeImplicitGrantTypeHandler *)
Definition h_implicit : handler := fun cfg cl se now h =>
  let ar := h_ar h in
  if negb (args_exact_one (a_rtypes ar) "token") then (h, None)
  else
    let h1 := hs_ar h (set_default_mode ar "fragment") in
    if negb (args_has (c_grants cl) ["implicit"]) then (h1, Some "invalid_grant")
    else if negb (scopes_ok cfg cl (a_scopes ar)) then (h1, Some "invalid_scope")
    else (issue_access_token h1, None).

(* openid.OpenIDConnectExplicitHandler *)
Definition h_oidc_explicit : handler := fun cfg cl se now h =>
  let ar := h_ar h in
  if negb (args_has (a_granted ar) ["openid"] && args_exact_one (a_rtypes ar) "code") then (h, None)
  else if negb (has_param "code" (h_params h)) then (h, Some "misconfiguration")
  else if String.eqb (fget "redirect_uri" (a_form ar)) "" then (h, Some "invalid_request")
  else
    match validate_prompt cl (a_form ar) (redir_secure ar) se now with
    | Some e => (h, Some e)
    | None => (fx_oidc h, None)
    end.

(* openid.OpenIDConnectImplicitHandler *)
Definition h_oidc_implicit : handler := fun cfg cl se now h =>
  let ar := h_ar h in
  let rts := a_rtypes ar in
  if negb (args_has (a_granted ar) ["openid"] && (args_has rts ["token"; "id_token"] || args_exact_one rts "id_token"))
  then (h, None)
  else if args_has rts ["code"] then (h, None)
  else
    let h1 := hs_ar h (set_default_mode ar "fragment") in
    let nonce := fget "nonce" (a_form ar) in
    if negb (args_has (c_grants cl) ["implicit"]) then (h1, Some "invalid_grant")
    else if String.eqb (fget "redirect_uri" (a_form ar)) "" then (h1, Some "invalid_request")
    else if String.eqb nonce "" then (h1, Some "invalid_request")
    else if Nat.ltb (String.length nonce) (min_entropy cfg) then (h1, Some "insufficient_entropy")
    else if negb (scopes_ok cfg cl (a_scopes ar)) then (h1, Some "invalid_scope")
    else if negb (s_oidc se) then (h1, Some "error")
    else
      match validate_prompt cl (a_form ar) (redir_secure ar) se now with
      | Some e => (h1, Some e)
      | None =>
          let h2 := if args_has rts ["token"] then handled (issue_access_token h1) "token"
                    else add_param h1 "state" (a_state ar) in
          match gen_id_token cfg (a_form ar) se now with
          | Some e => (h2, Some e)
          | None => (handled (add_param h2 "id_token" "<id_token>") "id_token", None)
          end
      end.

(* openid.OpenIDConnectHybridHandler *)
Definition h_oidc_hybrid : handler := fun cfg cl se now h =>
  let ar := h_ar h in
  let rts := a_rtypes ar in
  if Nat.ltb (List.length rts) 2 then (h, None)
  else if negb (args_matches rts ["token"; "id_token"; "code"] || args_matches rts ["token"; "code"]
                || args_matches rts ["id_token"; "code"]) then (h, None)
  else
    let h1 := hs_ar h (set_default_mode ar "fragment") in
    let nonce := fget "nonce" (a_form ar) in
    if String.eqb nonce "" && args_has rts ["id_token"] then (h1, Some "invalid_request")
    else if negb (String.eqb nonce "") && Nat.ltb (String.length nonce) (min_entropy cfg) then (h1, Some "insufficient_entropy")
    else if String.eqb (fget "redirect_uri" (a_form ar)) "" then (h1, Some "invalid_request")
    else if negb (s_oidc se) then (h1, Some "error")
    else
      match validate_prompt cl (a_form ar) (redir_secure ar) se now with
      | Some e => (h1, Some e)
      | None =>
      if negb (scopes_ok cfg cl (a_scopes ar)) then (h1, Some "invalid_scope")
      else
        (* response type code *)
        let code_step : hstate * option string :=
          if args_has rts ["code"] then
            (if negb (args_has (c_grants cl) ["authorization_code"]) then (h1, Some "invalid_grant")
             else
               let h2 := handled (add_param (fx_code h1) "code" "<code>") "code" in
               (if args_has (a_granted ar) ["openid"] then fx_oidc h2 else h2, None))
          else (h1, None) in
        match code_step with
        | (h2, Some e) => (h2, Some e)
        | (h2, None) =>
            let token_step : hstate * option string :=
              if args_has rts ["token"] then
                (if negb (args_has (c_grants cl) ["implicit"]) then (h2, Some "invalid_grant")
                 else (handled (issue_access_token h2) "token", None))
              else (h2, None) in
            match token_step with
            | (h3, Some e) => (h3, Some e)
            | (h3, None) =>
                let h4 := if has_param "state" (h_params h3) then h3 else add_param h3 "state" (a_state ar) in
                if negb (args_has (a_granted ar) ["openid"]) || negb (args_has rts ["id_token"])
                then (handled h4 "id_token", None)
                else
                  match gen_id_token cfg (a_form ar) se now with
                  | Some e => (h4, Some e)
                  | None => (handled (add_param h4 "id_token" "<id_token>") "id_token", None)
                  end
            end
        end
      end.

(* the authorize endpoint handlers in the order compose.ComposeAllEnabled appends them; the PKCE
   handler (last) is the identity when no code_challenge is sent and PKCE is not enforced *)
Definition handlers : list handler :=
  [h_explicit; h_implicit; h_oidc_explicit; h_oidc_implicit; h_oidc_hybrid].

(* the Go types of config.AuthorizeEndpointHandlers after compose.ComposeAllEnabled, in order; the
   harness reads them off the composed provider on every run *)
Definition handler_names : list string :=
  ["*oauth2.AuthorizeExplicitGrantHandler"; "*oauth2.AuthorizeImplicitGrantTypeHandler";
   "*openid.OpenIDConnectExplicitHandler"; "*openid.OpenIDConnectImplicitHandler";
   "*openid.OpenIDConnectHybridHandler"; "*pkce.Handler"].

Fixpoint run_handlers (hs : list handler) (cfg : config) (cl : client) (se : session) (now : Z) (h : hstate)
  : hstate * option string :=
  match hs with
  | [] => (h, None)
  | hd :: tl =>
      match hd cfg cl se now h with
      | (h', Some e) => (h', Some e)
      | (h', None) => run_handlers tl cfg cl se now h'
      end
  end.

(* AuthorizeRequest.DidHandleAllResponseTypes *)
Definition did_handle_all (ar : areq) : bool :=
  forallb (fun rt => in_slice_ci rt (a_handled ar)) (a_rtypes ar) && Nat.ltb 0 (List.length (a_rtypes ar)).

(* NewAuthorizeResponse; [granted] is what the embedding application granted before the call *)
Definition new_authorize_response (cfg : config) (ar : areq) (se : session) (now : Z)
  : hstate * option string :=
  let h0 := {| h_ar := ar; h_params := []; h_fx := {| x_codes := 0; x_access := 0; x_oidc := 0 |} |} in
  match a_cl ar with
  | None => (h0, Some "server_error")
  | Some cl =>
      match run_handlers handlers cfg cl se now h0 with
      | (h, Some e) => (h, Some e)
      | (h, None) =>
          if negb (did_handle_all (h_ar h)) then (h, Some "unsupported_response_type")
          else if String.eqb (a_defmode (h_ar h)) "fragment" && String.eqb (a_rmode (h_ar h)) "query"
          then (h, Some "unsupported_response_mode")
          else (h, None)
      end
  end.

(* ------------------------------------------------------------------ the writers *)
Inductive place := PQuery | PFragment | PForm | PNone | PJson.

Record written := {
  w_status : Z;
  w_place : place;               (* where the response parameters were put *)
  w_params : form                (* the parameters put there *)
}.

(* WriteAuthorizeResponse *)
Definition write_authorize_response (ar : areq) (params : form) : written :=
  let m := a_rmode ar in
  if String.eqb m "form_post" then {| w_status := 200; w_place := PForm; w_params := params |}
  else if String.eqb m "query" || String.eqb m "" then {| w_status := 303; w_place := PQuery; w_params := params |}
  else if String.eqb m "fragment" then {| w_status := 303; w_place := PFragment; w_params := params |}
  else {| w_status := 200; w_place := PNone; w_params := [] |}.

Definition status_of (e : string) : Z :=
  if String.eqb e "invalid_client" then 401%Z
  else if mem e ["server_error"; "misconfiguration"; "error"] then 500%Z
  else 400%Z.

(* AuthorizeRequest.IsRedirectURIValid *)
Definition redirect_usable (ar : areq) : bool :=
  match a_redir ar, a_cl ar with
  | Some e, Some _ => rv_revalid e
  | _, _ => false
  end.

(* WriteAuthorizeError; error_description is symbolic *)
Definition write_authorize_error (ar : areq) (e : string) : written :=
  if negb (redirect_usable ar) then {| w_status := status_of e; w_place := PJson; w_params := [("error", e)] |}
  else
    let params := [("error", e); ("error_description", "<text>"); ("state", a_state ar)] in
    if String.eqb (a_rmode ar) "form_post" then {| w_status := 200; w_place := PForm; w_params := params |}
    else if String.eqb (a_rmode ar) "fragment" then {| w_status := 303; w_place := PFragment; w_params := params |}
    else {| w_status := 303; w_place := PQuery; w_params := params |}.

(* ------------------------------------------------------------------ the whole endpoint, as an embedding
   application drives it: NewAuthorizeRequest, grant scopes, NewAuthorizeResponse, write *)
Record outcome := {
  o_req_err : option string;     (* NewAuthorizeRequest *)
  o_ar : areq;                   (* the request object as it is when the response is written *)
  o_resp_err : option string;    (* NewAuthorizeResponse *)
  o_params : form;               (* response parameters when both succeeded *)
  o_fx : fx;
  o_written : written
}.

Definition fx0 : fx := {| x_codes := 0; x_access := 0; x_oidc := 0 |}.

Definition authorize (cfg : config) (lookup : string -> option client) (rq : request)
           (granted : list string) (se : session) (now : Z) : outcome :=
  match new_authorize_request cfg lookup rq with
  | (ar, Some e) =>
      {| o_req_err := Some e; o_ar := ar; o_resp_err := None; o_params := []; o_fx := fx0;
         o_written := write_authorize_error ar e |}
  | (ar, None) =>
      match new_authorize_response cfg (with_granted ar granted) se now with
      | (h, Some e) =>
          {| o_req_err := None; o_ar := h_ar h; o_resp_err := Some e; o_params := []; o_fx := h_fx h;
             o_written := write_authorize_error (h_ar h) e |}
      | (h, None) =>
          {| o_req_err := None; o_ar := h_ar h; o_resp_err := None; o_params := h_params h; o_fx := h_fx h;
             o_written := write_authorize_response (h_ar h) (h_params h) |}
      end
  end.

(* the gate at the head of AuthorizeExplicitGrantHandler.HandleTokenEndpointRequest
   (handler/oauth2/flow_authorize_code_token.go); the history model's [redeem] has the same test *)
Definition redeem_gate (cl : client) : option string :=
  if negb (args_has (c_grants cl) ["authorization_code"]) then Some "unauthorized_client" else None.
