(* JWT access tokens: the acceptance decision of handler/oauth2/strategy_jwt.go (validate, toRFCErr,
   signature), token/jwt/jwt.go (DefaultSigner.Generate / Decode: which configured key types are
   usable and which algorithm they imply) and token/jwt/token.go (ParseWithClaims: order of checks,
   the alg=none opt-in constant).  Model only (executable).

   Not modelled (facts computed by the harness with go-jose's parser and Go's crypto/rsa,
   crypto/ecdsa, crypto/hmac, independently of fosite):
     j_parse    go-jose ParseSigned accepted the string (three base64url parts or JSON form)
     j_claims   the payload unmarshals into a JSON object
     j_headers  number of signatures / headers in the parsed object
     j_alg      the "alg" header
     j_sig      the signature bytes verify over the signing input under the configured public key
                with the primitive named by j_alg (false when the primitive does not fit the key)
     j_exp, j_iat, j_nbf   the time claims are acceptable now (absent counts as acceptable) *)
From FositeModel Require Export Base.Str.

(* what Decode hands to ParseWithClaims as verification key *)
Inductive vkey :=
| VRsa                 (* rsa.PublicKey *)
| VEc (p256 : bool)    (* ecdsa.PublicKey on P-256 (true) or on P-384 (false) *)
| VSym                 (* []byte *)
| VNoneMagic           (* jwt.UnsafeAllowNoneSignatureType *)
| VNil
| VRsaPriv | VEcPriv   (* a PRIVATE key object handed over as verification key *)
| VOther.

(* what GetPrivateKey may return *)
Inductive pkey :=
| PRsa                     (* *rsa.PrivateKey *)
| PEc (p256 : bool)        (* *ecdsa.PrivateKey *)
| PJwkPtr (alg : string) (inner : pkey)   (* *jose.JSONWebKey{Algorithm, Key} *)
| PJwkVal (alg : string) (inner : pkey)   (* jose.JSONWebKey by value *)
| POpaque (algs : list string) (pub : vkey)  (* jose.OpaqueSigner: Algs() and the kind of Public().Key *)
| PBytes                   (* []byte: a symmetric secret *)
| POther.

Record jfacts := JF {
  j_parse : bool; j_claims : bool; j_headers : nat; j_alg : string; j_sig : bool;
  j_exp : bool; j_iat : bool; j_nbf : bool }.

Definition rsa_algs : list string := ["RS256"; "RS384"; "RS512"; "PS256"; "PS384"; "PS512"].
Definition ec_algs : list string := ["ES256"; "ES384"; "ES512"].
Definition sym_algs : list string := ["HS256"; "HS384"; "HS512"].
Definition asymmetric (alg : string) : bool := mem alg rsa_algs || mem alg ec_algs.

(* go-jose: the verifier is chosen by the TYPE of the key, then the header's alg must belong to it *)
Definition alg_fits (vk : vkey) (alg : string) : bool :=
  match vk with
  | VRsa => mem alg rsa_algs
  | VEc true => String.eqb alg "ES256"
  | VEc false => String.eqb alg "ES384"
  | VSym => mem alg sym_algs
  | _ => false
  end.

(* DefaultSigner.Decode: one level of *jose.JSONWebKey is unwrapped, then the type switch *)
Definition decode_key (pk : pkey) : option vkey :=
  let k := match pk with PJwkPtr _ inner => inner | _ => pk end in
  match k with
  | PRsa => Some VRsa
  | PEc c => Some (VEc c)
  | POpaque _ pub => Some pub
  | _ => None
  end.

(* go-jose NewSigner / signing: the algorithm must fit the private key *)
Definition priv_fits (pk : pkey) (a : string) : bool :=
  match pk with
  | PRsa => mem a rsa_algs
  | PEc true => String.eqb a "ES256"
  | PEc false => String.eqb a "ES384"
  | POpaque algs _ => mem a algs
  | _ => false
  end.

(* DefaultSigner.Generate: the algorithm a minted token is signed with; None = refused.
   JSONWebKey (pointer or value): its Algorithm field; RSA: RS256; ECDSA: ES256 (which a P-384 key
   cannot sign); OpaqueSigner: only when Public().Key is a *PRIVATE* key object (sic), with Algs()[0]. *)
Definition gen_alg (pk : pkey) : option string :=
  match pk with
  | PJwkPtr a inner | PJwkVal a inner => if priv_fits inner a then Some a else None
  | PRsa => Some "RS256"
  | PEc c => if c then Some "ES256" else None
  | POpaque algs pub =>
      match pub, algs with
      | VRsaPriv, a :: _ | VEcPriv, a :: _ => Some a
      | _, _ => None
      end
  | _ => None
  end.

Inductive jerr := JMalformed | JClaimsInvalid | JSigInvalid | JExpired | JClaimTime | JKeyType.

(* ParseWithClaims(rawToken, claims, keyFunc) with keyFunc = const vk *)
Definition parse_with_claims (vk : vkey) (f : jfacts) : option jerr :=
  if negb (j_parse f) then Some JMalformed
  else if negb (j_claims f) then Some JClaimsInvalid
  else if negb (Nat.eqb (j_headers f) 1) then Some JMalformed
  else match vk with
       | VNil => Some JSigInvalid
       | _ =>
           let valid_none_key := match vk with VNoneMagic => true | _ => false end in
           let is_signed := negb (String.eqb (j_alg f) "none" && valid_none_key) in
           if is_signed && negb (alg_fits vk (j_alg f) && j_sig f) then Some JSigInvalid
           else if negb (j_exp f) then Some JExpired
           else if negb (j_iat f && j_nbf f) then Some JClaimTime
           else None
       end.

(* DefaultJWTStrategy.ValidateAccessToken -> validate -> Decode; toRFCErr; "" = accepted, otherwise "<error name>:<HTTP status>" *)
Definition jerr_name (e : jerr) : string :=
  match e with
  | JMalformed => "invalid_token:400"
  | JSigInvalid => "token_signature_mismatch:400"
  | JExpired => "invalid_token:401"
  | JClaimsInvalid | JClaimTime => "token_claim:401"
  | JKeyType => "error:500"
  end.

Definition jwt_decode (pk : pkey) (f : jfacts) : option jerr :=
  match decode_key pk with
  | None => Some JKeyType
  | Some vk => parse_with_claims vk f
  end.

Definition jwt_validate (pk : pkey) (f : jfacts) : string :=
  match jwt_decode pk f with
  | None => ""
  | Some e => jerr_name e
  end.

(* DefaultJWTStrategy.signature / AccessTokenSignature *)
Definition jwt_signature (tok : string) : string :=
  match split dot tok with
  | [_; _; s] => s
  | _ => ""
  end.

(* CoreValidator.introspectAccessToken with the JWT strategy: lookup by the third part, then validate *)
Definition jwt_e2e (stored : list string) (tok : string) (pk : pkey) (f : jfacts) : bool :=
  mem (jwt_signature tok) stored && String.eqb (jwt_validate pk f) "".
