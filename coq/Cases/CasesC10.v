(* Cases of property C10: inputs + the implementation's observation, the executable specification
   (written from the property text, not from the model's if-chains), and [check]. *)
From FositeModel Require Export Cases.Common Model.ClientAuth.

(* ------------------------------------------------------------------ executable specification *)

(* Hasher verdicts are data: the pairs (hash, secret) that bcrypt accepts *)
Definition cmp_of (tbl : list (string * string)) (h s : string) : bool :=
  existsb (fun p => String.eqb (fst p) h && String.eqb (snd p) s) tbl.

Section Spec.
  Variable cmp : string -> string -> bool.

  (* RFC 6749 2.3.1: the credentials a request presents: the Basic header's form-urlencoded
     components when there is a Basic header, else client_id / client_secret of the body *)
  Definition presented (rq : request) : option (string * string) :=
    match r_hdr rq with
    | HBasic _ (Some i) (Some s) => Some (i, s)
    | HBasic _ _ _ => None
    | HNone => if nonempty (r_fid rq) then Some (r_fid rq, r_fsec rq) else None
    end.

  (* which transports carry a secret *)
  Definition secret_in_body (rq : request) : bool := nonempty (r_fid rq) && nonempty (r_fsec rq).
  Definition secret_in_header (rq : request) : bool :=
    match r_hdr rq with HBasic raw _ _ => nonempty raw | HNone => false end.

  (* the registered token_endpoint_auth_method permits what the request does (plain OAuth2
     registrations carry no method and permit both transports) *)
  Definition permitted (c : client) (rq : request) : bool :=
    negb (c_oidc c) ||
    (implb (secret_in_body rq) (String.eqb (c_method c) m_post) &&
     implb (secret_in_header rq) (String.eqb (c_method c) m_basic) &&
     implb (c_public c) (String.eqb (c_method c) m_none)).

  Definition knows_secret (c : client) (s : string) : bool :=
    existsb (fun h => cmp h s) (c_hash c :: c_rot c).

  (* a valid private_key_jwt assertion for client c *)
  Definition valid_assertion (c : client) (rq : request) : bool :=
    let a := r_as rq in
    r_ahas rq && as_parse a &&
    (String.eqb (r_fid rq) "" || String.eqb (r_fid rq) (c_id c)) &&
    match as_sub a with Some s => String.eqb s (c_id c) | None => false end &&
    String.eqb (as_iss a) (c_id c) &&
    match as_key_of a with Some k => String.eqb k (c_id c) | None => false end &&
    as_time_ok a && as_jti a && negb (as_jti_known a) && as_aud_ok a.

  (* is the request entitled to act as the registered client c? *)
  Definition entitled (c : client) (rq : request) : bool :=
    if String.eqb (r_atype rq) jwt_bearer_type then
      c_oidc c && String.eqb (c_method c) m_pkjwt && valid_assertion c rq
    else if nonempty (r_atype rq) then false
    else
      match presented rq with
      | Some (i, s) => String.eqb i (c_id c) && permitted c rq && (c_public c || knows_secret c s)
      | None => false
      end.

  (* the registration a client id denotes (GetClient returns the first match) *)
  Definition registered (st : list client) (id : string) : option client :=
    find (fun c => String.eqb (c_id c) id) st.

  (* the only client a request can be entitled to act as, if any *)
  Definition claimed_id (rq : request) : option string :=
    if String.eqb (r_atype rq) jwt_bearer_type then
      (if nonempty (r_fid rq) then Some (r_fid rq) else as_sub (r_as rq))
    else option_map fst (presented rq).

  Definition spec_who (st : list client) (rq : request) : option client :=
    match claimed_id rq with
    | Some i => match registered st i with
                | Some c => if entitled c rq then Some c else None
                | None => None
                end
    | None => None
    end.
End Spec.

(* may a handler of the token endpoint run without client authentication for these grant types?
   Only the RFC 7523 handler, and only when its switch is on. *)
Definition skip_allowed (cf : config) (ep : endpoint) : bool :=
  match ep with
  | EToken g => cf_switch cf && list_eqb (grant_types g) [jwt_bearer_grant]
  | _ => false
  end.

Definition is_cc_grant (ep : endpoint) : bool :=
  match ep with EToken g => list_eqb (grant_types g) ["client_credentials"] | _ => false end.

Definition is_par (ep : endpoint) : bool := match ep with EPAR _ => true | _ => false end.

Definition rejection_class_ok (rq : request) (res : string) : bool :=
  String.eqb res "invalid_client" || String.eqb res "invalid_request" ||
  (String.eqb res "jti_known" && String.eqb (r_atype rq) jwt_bearer_type && as_jti_known (r_as rq)).

(* a client assertion that parses, whose exp / iat / nbf claims are not acceptable *)
Definition time_invalid_assertion (rq : request) : bool :=
  String.eqb (r_atype rq) jwt_bearer_type && r_ahas rq && as_parse (r_as rq) && negb (as_time_ok (r_as rq)).

Definition nil_b {A} (l : list A) : bool := match l with [] => true | _ => false end.

(* The monitor, clause by clause (first violated clause wins):
   - processed in the name of client X (a handler ran for X, or New*Request returned a request
     bound to X) requires X to be registered and the request to be entitled to act as X;
   - processed without any client requires the explicit RFC 7523 switch;
   - a request entitled to act as nobody (and not covered by the switch) is rejected as
     invalid_client / invalid_request, no handler runs, the store is unchanged;
   - whenever no handler ran and the request was refused, the store is unchanged;
   - a public client never gets tokens through client_credentials. *)
Definition monitor (cmp : string -> string -> bool) (cf : config) (st : list client) (ep : endpoint)
           (rq : request) (o : obs) (changed : bool) (final : string) : option string :=
  let who := spec_who cmp st rq in
  let processed := negb (nil_b (ob_calls o)) || String.eqb (ob_res o) "" in
  let final' := if nonempty (ob_res o) then ob_res o else final in
  if processed && nonempty (ob_client o) &&
     negb (match who with Some c => String.eqb (c_id c) (ob_client o) | None => false end) then
    (match who with
     | Some c => if is_par ep && String.eqb (r_fid rq) (ob_client o)
                 then Some "par_client_id_not_bound_to_authenticated_client"
                 else Some "processed_as_other_client"
     | None => match registered st (ob_client o) with
               | None => Some "processed_as_unregistered_client"
               | Some c => if c_public c then Some "public_client_not_identified"
                           else Some "confidential_client_without_proof"
               end
     end)
  else if processed && negb (nonempty (ob_client o)) && negb (skip_allowed cf ep) then
    Some "processed_without_client_authentication"
  else if negb (match who with Some _ => true | None => false end) && negb (skip_allowed cf ep) &&
          negb (nil_b (ob_calls o)) then Some "handler_ran_on_rejection"
  else if negb (match who with Some _ => true | None => false end) && negb (skip_allowed cf ep) &&
          negb (rejection_class_ok rq (ob_res o)) then
    (if String.eqb (ob_res o) "error" && time_invalid_assertion rq
     then Some "assertion_time_claims_rejected_as_server_error" else Some "rejection_class")
  else if nonempty (ob_res o) && nil_b (ob_calls o) && changed then Some "state_changed_on_rejection"
  else if is_cc_grant ep && match who with Some c => c_public c | None => false end &&
          (String.eqb final' "" || changed) then Some "public_client_credentials"
  else None.

(* ------------------------------------------------------------------ cases *)
Inductive c10case :=
| KTable (t : list th)
| K (cf : config) (st : list client) (cmp : list (string * string)) (ep : endpoint) (rq : request)
    (houts : list (nat * hres)) (o : obs) (changed : bool) (final : string)
(* the request also carries client credentials in its URI ([u]): no authentication method permits that transport
   (RFC 6749 2.3.1), so the property is judged on the body and header alone *)
| KU (cf : config) (st : list client) (cmp : list (string * string)) (ep : endpoint) (rq u : request)
    (houts : list (nat * hres)) (o : obs) (changed : bool) (final : string).

Definition no_as : assertion := As false None "" None false false false false.

Fixpoint nats_eqb (a b : list nat) : bool :=
  match a, b with
  | [], [] => true
  | x :: a', y :: b' => Nat.eqb x y && nats_eqb a' b'
  | _, _ => false
  end.

Definition obs_diff (m o : obs) : option string :=
  if negb (String.eqb (ob_res m) (ob_res o)) then Some ("result: model " ++ ob_res m ++ " / impl " ++ ob_res o)
  else if negb (String.eqb (ob_client m) (ob_client o)) then Some ("client: model " ++ ob_client m ++ " / impl " ++ ob_client o)
  else if negb (nats_eqb (ob_calls m) (ob_calls o)) then Some "handlers called"
  else None.

Definition check (c : c10case) : verdict :=
  match c with
  | KTable t => V None (if table_ok t then None else Some "handler_may_skip_client_authentication")
  | K cf st tbl ep rq houts o changed final =>
      let cmp := cmp_of tbl in
      V (obs_diff (run_endpoint cmp cf st ep rq houts) o)
        (monitor cmp cf st ep rq o changed final)
  | KU cf st tbl ep rq u houts o changed final =>
      let cmp := cmp_of tbl in
      V (obs_diff (run_endpoint_uri cmp cf st ep rq u houts) o)
        (match monitor cmp cf st ep rq o changed final with
         | Some t =>
             (* the verdict would be in order had the URI's credentials arrived in the body: the endpoint read them from the URI *)
             if is_par ep && match monitor cmp cf st ep (merge_uri rq u) o changed final with None => true | Some _ => false end
             then Some "par_takes_client_credentials_from_the_request_uri"
             else Some t
         | None => None
         end)
  end.
