(* C14 cases: inputs of one step + the implementation's projected observation.
   [corr]  the model (Model/IDToken.v) computes the same observation;
   [mon]   the executable specification below, written from the property text (not from the
           model's control flow), accepts the implementation's observation.
   Proofs/MonitorC14.v proves that the monitor accepts every observation the model can produce,
   except for the two precisely characterised findings (hash function taken from the session
   header; nonce of a refresh request copied into the refreshed ID token). *)
From FositeModel Require Export Cases.Common Model.IDToken.

Definition Sz (z : Z) : option Z := Some z.

(* an ID token as the harness sees it after parsing it independently: did the signature verify
   under the server's public key, the header's alg, the claims *)
Record idt := mkIdt { i_sig : bool; i_alg : string; i_tok : tokclaims }.

(* ------------------------------------------------------------------ equality helpers *)
Definition oz_eqb (a b : option Z) : bool :=
  match a, b with Some x, Some y => Z.eqb x y | None, None => true | _, _ => false end.
Fixpoint pairs_eqb (a b : list (string * string)) : bool :=
  match a, b with
  | [], [] => true
  | (k, v) :: a', (k', v') :: b' => String.eqb k k' && String.eqb v v' && pairs_eqb a' b'
  | _, _ => false
  end.
Definition oe_eqb (a b : option ecode) : bool :=
  match a, b with Some x, Some y => ecode_eqb x y | None, None => true | _, _ => false end.

Definition first_diff (l : list (bool * string)) : option string :=
  match filter (fun x => negb (fst x)) l with [] => None | (_, t) :: _ => Some t end.

Definition claims_diff (pfx : string) (a b : claims) : option string :=
  first_diff [
    (String.eqb (c_sub a) (c_sub b), pfx ++ "sub"); (String.eqb (c_iss a) (c_iss b), pfx ++ "iss");
    (list_eqb (c_aud a) (c_aud b), pfx ++ "aud"); (String.eqb (c_nonce a) (c_nonce b), pfx ++ "nonce");
    (oz_eqb (c_exp a) (c_exp b), pfx ++ "exp"); (oz_eqb (c_iat a) (c_iat b), pfx ++ "iat");
    (oz_eqb (c_rat a) (c_rat b), pfx ++ "rat"); (oz_eqb (c_auth a) (c_auth b), pfx ++ "auth_time");
    (hashv_eqb (c_at a) (c_at b), pfx ++ "at_hash"); (hashv_eqb (c_ch a) (c_ch b), pfx ++ "c_hash");
    (String.eqb (c_acr a) (c_acr b), pfx ++ "acr"); (Bool.eqb (c_jti a) (c_jti b), pfx ++ "jti");
    (pairs_eqb (c_extra a) (c_extra b), pfx ++ "extra") ].

Definition tok_diff (pfx : string) (a b : tokclaims) : option string :=
  first_diff [
    (String.eqb (t_sub a) (t_sub b), pfx ++ "sub"); (String.eqb (t_iss a) (t_iss b), pfx ++ "iss");
    (list_eqb (t_aud a) (t_aud b), pfx ++ "aud"); (String.eqb (t_nonce a) (t_nonce b), pfx ++ "nonce");
    (oz_eqb (t_exp a) (t_exp b), pfx ++ "exp"); (oz_eqb (t_iat a) (t_iat b), pfx ++ "iat");
    (oz_eqb (t_rat a) (t_rat b), pfx ++ "rat"); (oz_eqb (t_auth a) (t_auth b), pfx ++ "auth_time");
    (hashv_eqb (t_at a) (t_at b), pfx ++ "at_hash"); (hashv_eqb (t_ch a) (t_ch b), pfx ++ "c_hash");
    (String.eqb (t_acr a) (t_acr b), pfx ++ "acr");
    (pairs_eqb (t_extra a) (t_extra b), pfx ++ "extra") ].

Definition orelse (a b : option string) : option string := match a with Some _ => a | None => b end.

(* the model's token (signed with the configured key: verifies, header alg = key's alg) against the observed one *)
Definition idt_diff (g : config) (m : option tokclaims) (o : option idt) : option string :=
  match m, o with
  | None, None => None
  | Some _, None => Some "model issues an ID token, implementation does not"
  | None, Some _ => Some "implementation issues an ID token, model does not"
  | Some t, Some i =>
      orelse (first_diff [(i_sig i, "id_token:signature does not verify");
                          (String.eqb (i_alg i) (key_alg (g_key g)), "id_token:header alg")])
             (tok_diff "id_token:" t (i_tok i))
  end.

(* ------------------------------------------------------------------ executable specification *)
(* JWA (RFC 7518 section 3.1): the hash function that belongs to a signature algorithm;
   OIDC Core 3.1.3.6 / 3.3.2.11: at_hash and c_hash use the hash of the ID token's alg *)
Definition hash_of_jwa (alg : string) : option halg :=
  if mem alg ["RS256"; "ES256"; "PS256"; "HS256"] then Some SHA256
  else if mem alg ["RS384"; "ES384"; "PS384"; "HS384"] then Some SHA384
  else if mem alg ["RS512"; "ES512"; "PS512"; "HS512"] then Some SHA512
  else None.

(* which nonce the token has to carry *)
Inductive nonce_rule :=
| NEcho (request_nonce : string)      (* the request's nonce, unchanged; none requested: whatever the session pre-set *)
| NRefresh (authorization_nonce : string).  (* absent, or the nonce of the authorization request (DESIGN 6.0) *)
(* which code the c_hash claim has to be bound to *)
Inductive code_rule :=
| CDelivered (n : nat)   (* code n is delivered in the same response: c_hash required *)
| CRedeemed (n : nat)    (* token response for code n: c_hash absent or that of code n *)
| CDropped               (* refresh: no c_hash *)
| CFree.                 (* no code in this exchange: not constrained *)

Definition hash_is (alg : string) (v : hashv) (n : nat) : bool :=
  match hash_of_jwa alg with Some a => hashv_eqb v (HOf a n) | None => false end.
(* right token, some other SHA-2 function: the shape of finding A6 *)
Definition hash_of_token_other_alg (v : hashv) (n : nat) : bool :=
  match v with HOf _ m => Nat.eqb m n | _ => false end.

Definition prompt_values (f : form) : list string := remove_empty (split space (fget "prompt" f)).

(* requirements of the request that the session does not satisfy.
   [by_list]: the prompt parameter is read as a space-separated list (authorization endpoint);
   otherwise as the single value the strategy compares with *)
Definition unmet_max_age (f : form) (p : parsed) (c : claims) : bool :=
  let m := maxage_of f p in
  Z.ltb 0 m && (is_zero (c_auth c) || is_zero (c_rat c) || Z.ltb (tval (c_auth c) + m)%Z (tval (c_rat c))).
Definition asks (by_list : bool) (v : string) (f : form) : bool :=
  if by_list then mem v (prompt_values f) else String.eqb (fget "prompt" f) v.
Definition unmet_prompt_none (by_list : bool) (f : form) (c : claims) : bool :=
  asks by_list "none" f && Z.ltb (tval (c_rat c)) (tval (c_auth c)).
Definition unmet_prompt_login (by_list : bool) (f : form) (c : claims) : bool :=
  asks by_list "login" f && Z.ltb (tval (c_auth c)) (tval (c_rat c)).
Definition unmet_hint (f : form) (p : parsed) (c : claims) : bool :=
  match hint_of f p with
  | HintAbsent => false
  | HintBad => true
  | HintOk s | HintExpired s => negb (String.eqb s (c_sub c))
  end.

Record expect := mkExpect {
  e_openid : bool;          (* the grant includes the openid scope *)
  e_client : string;        (* the requesting client *)
  e_key_alg : string;       (* algorithm of the server's signing key *)
  e_hdr : hdr;              (* the session's header (only used to tell finding A6 from other hash mistakes) *)
  e_iss : string;           (* configured issuer *)
  e_sess : claims;          (* the session's claims before the step *)
  e_now : Z;
  e_life : Z;               (* configured lifetime for this client and grant *)
  e_preset : option Z;      (* expiry pre-set by the session, where it is honoured *)
  e_nonce : nonce_rule;
  e_at : option nat;        (* access token delivered in the same response *)
  e_code : code_rule;
  e_checks : bool;          (* max_age / prompt / id_token_hint apply (not on refresh) *)
  e_by_list : bool;
  e_form : form; e_parsed : parsed }.

(* client, user, issuer, nonce, expiry, signature *)
Definition binding_clauses (x : expect) (i : idt) : list (bool * string) :=
  let t := i_tok i in
  let s := e_sess x in
  let life := if Z.eqb (e_life x) 0 then 3600%Z else e_life x in
  [ (e_openid x, "id_token_without_openid_scope");
    (negb (String.eqb (c_sub s) "") && String.eqb (t_sub t) (c_sub s), "subject");
    (i_sig i && String.eqb (i_alg i) (e_key_alg x), "signature");
    (mem (e_client x) (t_aud t), "aud_lacks_client");
    (String.eqb (t_iss t) (if String.eqb (c_iss s) "" then e_iss x else c_iss s), "issuer");
    (match e_nonce x with
     | NEcho n => String.eqb (t_nonce t) (if String.eqb n "" then c_nonce s else n)
     | NRefresh _ => true
     end, "nonce");
    (match t_exp t with
     | None => false
     | Some e => Z.leb (e_now x) e &&
                 match e_preset x with Some p => Z.eqb e p | None => Z.leb e (e_now x + life)%Z end
     end, "expiry") ].

(* nonce of a refreshed token (kept apart: finding) *)
Definition refresh_nonce_clauses (x : expect) (i : idt) : list (bool * string) :=
  [ (match e_nonce x with
     | NEcho _ => true
     | NRefresh n => String.eqb (t_nonce (i_tok i)) "" || String.eqb (t_nonce (i_tok i)) n
     end, "refresh_nonce_not_authorization_nonce") ].

(* at_hash / c_hash name the right token ("at_hash", "c_hash") under the hash function of the
   token's algorithm.  Right token but another SHA-2 function: "hash_alg_from_session_header" when
   it is the function named by the session header's alg (finding A6), "hash_alg_wrong" otherwise. *)
Definition from_header (h : hdr) (v : hashv) (n : nat) : bool := hashv_eqb v (HOf (hash_of_hdr h) n).
Definition hash_clauses (x : expect) (i : idt) : list (bool * string) :=
  let t := i_tok i in
  let h := e_hdr x in
  [ (match e_at x with
     | Some n => hash_is (i_alg i) (t_at t) n || hash_of_token_other_alg (t_at t) n
     | None => true
     end, "at_hash");
    (match e_at x with
     | Some n => hash_is (i_alg i) (t_at t) n || negb (from_header h (t_at t) n)
     | None => true
     end, "hash_alg_from_session_header");
    (match e_at x with
     | Some n => hash_is (i_alg i) (t_at t) n || negb (hash_of_token_other_alg (t_at t) n) || from_header h (t_at t) n
     | None => true
     end, "hash_alg_wrong");
    (match e_code x with
     | CDelivered n => hash_is (i_alg i) (t_ch t) n || hash_of_token_other_alg (t_ch t) n
     | CRedeemed n => hashv_eqb (t_ch t) HNone || hash_is (i_alg i) (t_ch t) n || hash_of_token_other_alg (t_ch t) n
     | CDropped => hashv_eqb (t_ch t) HNone
     | CFree => true
     end, "c_hash");
    (match e_code x with
     | CDelivered n | CRedeemed n => hashv_eqb (t_ch t) HNone || hash_is (i_alg i) (t_ch t) n || negb (from_header h (t_ch t) n)
     | _ => true
     end, "hash_alg_from_session_header");
    (match e_code x with
     | CDelivered n | CRedeemed n =>
         hashv_eqb (t_ch t) HNone || hash_is (i_alg i) (t_ch t) n || negb (hash_of_token_other_alg (t_ch t) n) || from_header h (t_ch t) n
     | _ => true
     end, "hash_alg_wrong") ].

(* a requirement of the request that the session does not meet must have stopped issuance *)
Definition requirement_clauses (x : expect) : list (bool * string) :=
  let s := e_sess x in
  [ (negb (e_checks x && unmet_max_age (e_form x) (e_parsed x) s), "issued_despite_max_age");
    (negb (e_checks x && unmet_prompt_none (e_by_list x) (e_form x) s), "issued_despite_prompt_none");
    (negb (e_checks x && unmet_prompt_login (e_by_list x) (e_form x) s), "issued_despite_prompt_login");
    (negb (e_checks x && unmet_hint (e_form x) (e_parsed x) s), "issued_despite_id_token_hint") ].

Definition mon_idt (x : expect) (i : idt) : option string :=
  first_diff (binding_clauses x i ++ requirement_clauses x ++ refresh_nonce_clauses x i ++ hash_clauses x i)%list.

Definition mon_opt (x : expect) (o : option idt) : option string :=
  match o with Some i => mon_idt x i | None => None end.

(* the four request parameters the property needs to survive storage *)
Definition whitelist_ok (l : list string) : bool :=
  mem "nonce" l && mem "max_age" l && mem "prompt" l && mem "id_token_hint" l.

(* ------------------------------------------------------------------ cases *)
Inductive c14case :=
| KGen (g : config) (cid : string) (life : Z) (f : form) (p : parsed) (c : claims) (now : Z)
       (err : option ecode) (tok : option idt) (post : claims)
| KVal (g : config) (public secure : bool) (f : form) (p : parsed) (c : claims) (now : Z) (err : option ecode)
| KAuth (g : config) (cl : client) (h : hdr) (a : areq) (c : claims) (now : Z)
        (err : option ecode) (tok : option idt) (code at_ stored_ : bool) (post : claims)
| KRedeem (g : config) (cl : client) (h : hdr) (present : bool) (ocl : client) (a : areq) (at_ : nat)
          (c : claims) (now : Z) (err : option ecode) (tok : option idt) (post : claims)
| KRefresh (g : config) (cl : client) (h : hdr) (granted : list string) (f : form) (at_ : nat)
           (c : claims) (now : Z) (auth_nonce : string) (err : option ecode) (tok : option idt) (post : claims)
| KDevice (g : config) (cl : client) (h : hdr) (st : option stored) (at_ : nat) (c : claims) (now : Z)
          (err : option ecode) (tok : option idt) (post : claims)
| KWhitelist (l : list string).

Definition is_some {A} (o : option A) : bool := match o with Some _ => true | None => false end.

(* expectations, from the inputs of the step only *)
Definition expect_gen (g : config) (cid : string) (life : Z) (f : form) (p : parsed) (c : claims) (now : Z) : expect :=
  let refresh := String.eqb (fget "grant_type" f) "refresh_token" in
  mkExpect true cid (key_alg (g_key g)) (mkHdr None None) (g_iss g) c now life (c_exp c) (NEcho (fget "nonce" f)) None CFree
           (negb refresh) false f p.

Definition expect_auth (g : config) (cl : client) (h : hdr) (a : areq) (c : claims) (now : Z) (code at_ : bool) : expect :=
  mkExpect (has_openid (a_granted a)) (cl_id cl) (key_alg (g_key g)) h (g_iss g) c now (eff_life g cl GImplicit) (c_exp c)
           (NEcho (fget "nonce" (a_form a)))
           (if at_ then Some (a_token a) else None)
           (if code then CDelivered (a_code a) else CFree)
           true true (a_form a) (a_parsed a).

Definition expect_redeem (g : config) (cl ocl : client) (h : hdr) (a : areq) (at_ : nat) (c : claims) (now : Z) : expect :=
  mkExpect (has_openid (a_granted a)) (cl_id ocl) (key_alg (g_key g)) h (g_iss g) c now (eff_life g cl GCode) (c_exp c)
           (NEcho (fget "nonce" (a_form a))) (Some at_) (CRedeemed (a_code a))
           true false (sanitize oidc_parameters (a_form a)) (a_parsed a).

Definition expect_refresh (g : config) (cl : client) (h : hdr) (granted : list string) (f : form) (at_ : nat) (c : claims)
                          (now : Z) (auth_nonce : string) : expect :=
  mkExpect (has_openid granted) (cl_id cl) (key_alg (g_key g)) h (g_iss g) c now (eff_life g cl GRefresh) None
           (NRefresh auth_nonce) (Some at_) CDropped false false f (mkParsed 0 HintAbsent).

Definition expect_device (g : config) (cl : client) (h : hdr) (s : stored) (at_ : nat) (c : claims) (now : Z) : expect :=
  mkExpect (has_openid (s_granted s)) (cl_id (s_client s)) (key_alg (g_key g)) h (g_iss g) c now (eff_life g cl GDevice) (c_exp c)
           (NEcho (fget "nonce" (s_form s))) (Some at_) CFree true false (s_form s) (s_parsed s).

Definition err_diff (m o : option ecode) : option string :=
  if oe_eqb m o then None else Some "error class".

Definition check (k : c14case) : verdict :=
  match k with
  | KGen g cid life f p c now err tok post =>
      let '(c', o) := generate g cid life f p c now in
      V (orelse (match o with
                 | OErr e => orelse (err_diff (Some e) err) (idt_diff g None tok)
                 | OTok t => orelse (err_diff None err) (idt_diff g (Some t) tok)
                 end) (claims_diff "session after:" c' post))
        (mon_opt (expect_gen g cid life f p c now) tok)
  | KVal g public secure f p c now err =>
      V (err_diff (validate_prompt g public secure f p c now) err) None
  | KAuth g cl h a c now err tok code at_ stored_ post =>
      let r := authorize_step g cl h a c now in
      V (orelse (err_diff (r_err r) err)
        (orelse (idt_diff g (r_idt r) tok)
                (if is_some err then None else
                 orelse (first_diff [(Bool.eqb (r_code r) code, "code delivered");
                                     (Bool.eqb (r_at r) at_, "access token delivered");
                                     (Bool.eqb (is_some (r_stored r)) stored_, "OIDC session stored")])
                        (claims_diff "session after:" (r_claims r) post))))
        (mon_opt (expect_auth g cl h a c now code at_) tok)
  | KRedeem g cl h present ocl a at_ c now err tok post =>
      let r := redeem_step g cl h (if present then Some (mk_stored ocl a) else None) at_ c now in
      V (orelse (err_diff (x_err r) err)
        (orelse (idt_diff g (x_idt r) tok)
                (if is_some tok then claims_diff "session after:" (x_claims r) post else None)))
        (mon_opt (expect_redeem g cl ocl h a at_ c now) tok)
  | KRefresh g cl h granted f at_ c now auth_nonce err tok post =>
      let r := refresh_step g cl h granted f at_ c now in
      V (orelse (err_diff (x_err r) err)
        (orelse (idt_diff g (x_idt r) tok)
                (if is_some tok then claims_diff "session after:" (x_claims r) post else None)))
        (mon_opt (expect_refresh g cl h granted f at_ c now auth_nonce) tok)
  | KDevice g cl h st at_ c now err tok post =>
      let r := device_step g cl h st at_ c now in
      V (orelse (err_diff (x_err r) err)
        (orelse (idt_diff g (x_idt r) tok)
                (if is_some tok then claims_diff "session after:" (x_claims r) post else None)))
        (match st with
         | Some s => mon_opt (expect_device g cl h s at_ c now) tok
         | None => if is_some tok then Some "id_token_without_openid_session" else None
         end)
  | KWhitelist l =>
      V (if list_eqb l oidc_parameters then None else Some "oidcParameters differs from the model's white-list")
        (if whitelist_ok l then None else Some "oidc_parameters_whitelist")
  end.
