(* C06 cases: inputs + the implementation's observation; [corr] compares with the model
   (Model/Hmac.v, Model/Jwt.v), [mon] is the executable form of the property text:

     accepted / honoured  ==>  the decoded signature part is the MAC of the decoded random part under
                               a configured (current or rotated) secret of at least 32 bytes
     a current secret shorter than 32 bytes  ==>  nothing is minted / signed
     minted random part has at least the configured number of bytes; minted values never repeat
     JWT accepted (documented key types)  ==>  signature verifies, algorithm asymmetric, not "none"

   The monitor speaks about HOW the harness derived the presented string (symbolic token [stok]:
   which key bytes, which secret produced the signature part); the model speaks about the facts the
   harness computed with crypto/hmac.  [sym_consistent] ties the two (perfect-MAC idealisation); a case
   where they differ is reported as a correspondence failure "sym". *)
From FositeModel Require Export Cases.Common Model.Hmac Model.Jwt.

Definition authenticated_b (t : stok) (keys : list sfact) : bool :=
  existsb (fun s => sym_mac (sf_id s) t && N.leb 32 (sf_len s)) keys.
Definition known_b (t : stok) (keys : list sfact) : bool :=
  existsb (fun s => sym_mac (sf_id s) t) keys.

Definition mon_accept (t : stok) (g : sfact) (rot : list sfact) (accepted : bool) : option string :=
  if negb accepted then None
  else if authenticated_b t (g :: rot) then None
  else if known_b t (g :: rot) then Some "accepted-under-short-secret"
  else Some "accepted-unauthenticated".

Definition sym_consistent (kd sd : bool) (t : stok) (l : list sfact) : bool :=
  forallb (fun s => Bool.eqb (sf_mac s) (kd && sd && sym_mac (sf_id s) t)) l.

Definition opt_zz_eqb (a b : option (Z * Z)) : bool :=
  match a, b with
  | None, None => true
  | Some (x, y), Some (x', y') => Z.eqb x x' && Z.eqb y y'
  | _, _ => false
  end.
Definition opt_str_eqb (a b : option string) : bool :=
  match a, b with
  | None, None => true
  | Some x, Some y => String.eqb x y
  | _, _ => false
  end.

Definition mon_mint (glen : N) (entropy : Z) (impl : option (Z * Z)) : option string :=
  match impl with
  | None => None
  | Some (kl, _) =>
      if N.ltb glen 32 then Some "minted-under-short-secret"
      else if Z.ltb kl entropy then Some "low-entropy"
      else None
  end.

(* JWT: the explicit opt-in configurations *)
Definition optin_none_b (pk : pkey) : bool :=
  match pk with
  | POpaque _ VNoneMagic | PJwkPtr _ (POpaque _ VNoneMagic) => true
  | _ => false
  end.

(* minting: RSA / ECDSA private keys, directly or inside a JSONWebKey *)
Definition plain_key_b (pk : pkey) : bool :=
  match pk with
  | PRsa | PEc _ => true
  | PJwkPtr _ PRsa | PJwkPtr _ (PEc _) | PJwkVal _ PRsa | PJwkVal _ (PEc _) => true
  | _ => false
  end.

(* an opaque signer that publishes a symmetric JSONWebKey as its "public" key: the only configuration
   under which ParseWithClaims can reach go-jose's HMAC verifier *)
Definition optin_sym_b (pk : pkey) : bool :=
  match pk with
  | POpaque _ VSym | PJwkPtr _ (POpaque _ VSym) => true
  | _ => false
  end.

Definition mon_jwt (pk : pkey) (f : jfacts) (accepted : bool) : option string :=
  if negb accepted then None
  else if String.eqb (j_alg f) "none" then (if optin_none_b pk then None else Some "jwt-accepted-none")
  else if negb (j_sig f) then Some "jwt-accepted-bad-signature"
  else if asymmetric (j_alg f) then None
  else if mem (j_alg f) sym_algs && optin_sym_b pk then None
  else Some "jwt-accepted-symmetric".

Inductive c06case :=
| KVal (p : bool) (k : tkind) (raw : string) (kd sd : bool) (t : stok) (g : sfact) (rot : list sfact)
       (impl : option verr)
| KE2E (ep : endpoint) (k : tkind) (stored : list string) (raw : string) (kd sd : bool) (t : stok)
       (g : sfact) (rot : list sfact) (impl : string)
| KMint (glen : N) (entropy hsize : Z) (impl : option (Z * Z))
| KUserSig (glen : N) (impl : bool)
| KFresh (minted distinct : N) (tails_ok balanced : bool)
| KJwt (pk : pkey) (f : jfacts) (impl : string)
| KJwtE2E (stored : list string) (raw : string) (pk : pkey) (f : jfacts) (impl : string)
| KJwtGen (pk : pkey) (impl : option string).

Definition check (c : c06case) : verdict :=
  match c with
  | KVal p k raw kd sd t g rot impl =>
      V (if negb (sym_consistent kd sd t (g :: rot)) then Some "sym"
         else if res_eqb (strat_validate p k raw kd sd g rot) impl then None else Some "validate")
        (mon_accept t g rot (match impl with None => true | Some _ => false end))
  | KE2E ep k stored raw kd sd t g rot impl =>
      V (if negb (sym_consistent kd sd t (g :: rot)) then Some "sym"
         else if String.eqb (e2e ep true k stored raw kd sd g rot) impl then None else Some "e2e")
        (mon_accept t g rot (String.eqb impl ""))
  | KMint glen entropy hsize impl =>
      V (if opt_zz_eqb (generate glen entropy hsize) impl then None else Some "generate")
        (mon_mint glen entropy impl)
  | KUserSig glen impl =>
      V (corr_b (Bool.eqb (hmac_for_string_ok glen) impl))
        (if impl && N.ltb glen 32 then Some "signed-under-short-secret" else None)
  | KFresh minted distinct tails_ok balanced =>
      V None
        (if negb (N.eqb minted distinct) then Some "duplicate-minted-value"
         else if negb (tails_ok && balanced) then Some "low-entropy-bytes" else None)
  | KJwt pk f impl =>
      V (if String.eqb (jwt_validate pk f) impl then None else Some "jwt")
        (mon_jwt pk f (String.eqb impl ""))
  | KJwtE2E stored raw pk f impl =>
      V (if String.eqb (if jwt_e2e stored raw pk f then "" else "inactive") impl then None else Some "jwt-e2e")
        (mon_jwt pk f (String.eqb impl ""))
  | KJwtGen pk impl =>
      V (if opt_str_eqb (gen_alg pk) impl then None else Some "jwt-generate")
        (match impl with
         | Some a => if plain_key_b pk && negb (asymmetric a) then Some "jwt-minted-not-asymmetric" else None
         | None => None
         end)
  end.
