(* History cases: configuration, client registrations, and per step the operation, the
   implementation's observation and the implementation's probe vector.  [hist_corr] replays the
   operations in the model and reports the first step whose observation or probes differ. *)
From FositeModel Require Export Cases.Common Model.Flows.

(* the implementation's probe vector is transmitted as the entries that changed since the previous
   step (new credentials start as None) *)
Definition step_rec := (op * obs * list (nat * option payload))%type.

Fixpoint set_nth {A} (l : list A) (i : nat) (v : A) : list A :=
  match l, i with
  | [], _ => []
  | _ :: r, 0 => v :: r
  | x :: r, S j => x :: set_nth r j v
  end.
Definition apply_delta (prev : list (option payload)) (minted : nat) (d : list (nat * option payload)) :=
  fold_left (fun l iv => set_nth l (fst iv) (snd iv)) d (prev ++ repeat None minted)%list.
(* HCaseRaw: the history was executed on the raw in-memory store (session objects shared by pointer): only the
   monitors are evaluated on it, the by-value model is not compared *)
Inductive hcase :=
| HCase (cfg : config) (cls : list client) (steps : list step_rec)
| HCaseRaw (cfg : config) (cls : list client) (steps : list step_rec)
(* HCaseJwt: access tokens are JWTs (compose.NewOAuth2JWTStrategy); the history model does not describe the JWT strategy's
   whole-second expiry comparison, so only the monitors read these cases *)
| HCaseJwt (cfg : config) (cls : list client) (steps : list step_rec)
(* HCaseContract: the device-code table follows the documented storage contract (an invalidated device code is kept and
   answered with the stored request and ErrInvalidatedDeviceCode) instead of the reference store's deletion; monitors only *)
| HCaseContract (cfg : config) (cls : list client) (steps : list step_rec).

Definition ckinds_eqb (a b : list ckind) : bool :=
  Nat.eqb (List.length a) (List.length b) && forallb (fun p => ckind_eqb (fst p) (snd p)) (combine a b).
Definition optZ_eqb (a b : option Z) : bool :=
  match a, b with None, None => true | Some x, Some y => Z.eqb x y | _, _ => false end.
Definition obs_eqb (a b : obs) : bool :=
  String.eqb (o_err a) (o_err b) && ckinds_eqb (o_minted a) (o_minted b)
  && Z.eqb (o_expires_in a) (o_expires_in b) && list_eqb (o_scopes a) (o_scopes b).
Definition payload_eqb (a b : payload) : bool :=
  ckind_eqb (pl_use a) (pl_use b) && Nat.eqb (pl_client a) (pl_client b) && String.eqb (pl_subject a) (pl_subject b)
  && list_eqb (pl_scopes a) (pl_scopes b) && list_eqb (pl_aud a) (pl_aud b) && optZ_eqb (pl_exp a) (pl_exp b).
Definition opayload_eqb (a b : option payload) : bool :=
  match a, b with None, None => true | Some x, Some y => payload_eqb x y | _, _ => false end.
Fixpoint probes_eqb (a b : list (option payload)) : bool :=
  match a, b with
  | [], [] => true
  | x :: a', y :: b' => opayload_eqb x y && probes_eqb a' b'
  | _, _ => false
  end.

Definition clients_of (cls : list client) : fmap client := fun i => nth_error cls i.

Fixpoint corr_from (cfg : config) (s : state) (prev : list (option payload)) (i : nat) (steps : list step_rec) : option string :=
  match steps with
  | [] => None
  | (o, ob, d) :: r =>
      let (s', mob) := step cfg s o in
      let pr := apply_delta prev (List.length (o_minted ob)) d in
      if negb (obs_eqb mob ob) then Some ("step " ++ nat_str i ++ " obs: model says '" ++ o_err mob ++ "'")%string
      else if negb (probes_eqb (probes cfg s') pr) then Some ("step " ++ nat_str i ++ " probes")%string
      else corr_from cfg s' pr (S i) r
  end.

Definition hist_corr (c : hcase) : option string :=
  match c with
  | HCase cfg cls steps | HCaseContract cfg cls steps => corr_from cfg (state0 (clients_of cls)) [] 0 steps
  | HCaseRaw _ _ _ | HCaseJwt _ _ _ => None
  end.

(* the implementation's trace with full probe vectors, as the monitors read it *)
Fixpoint expand_from (prev : list (option payload)) (steps : list step_rec) : list (op * obs * list (option payload)) :=
  match steps with
  | [] => []
  | (o, ob, d) :: r =>
      let pr := apply_delta prev (List.length (o_minted ob)) d in
      (o, ob, pr) :: expand_from pr r
  end.
Definition impl_trace (c : hcase) := match c with HCase _ _ steps | HCaseRaw _ _ steps | HCaseJwt _ _ steps | HCaseContract _ _ steps => expand_from [] steps end.
Definition case_cfg (c : hcase) : config := match c with HCase cfg _ _ | HCaseRaw cfg _ _ | HCaseJwt cfg _ _ | HCaseContract cfg _ _ => cfg end.
Definition case_clients (c : hcase) : list client := match c with HCase _ cls _ | HCaseRaw _ cls _ | HCaseJwt _ cls _ | HCaseContract _ cls _ => cls end.

(* the model's own trace for a case (used when a replay is printed) *)
Definition model_trace (c : hcase) :=
  match c with HCase cfg cls steps | HCaseRaw cfg cls steps | HCaseJwt cfg cls steps | HCaseContract cfg cls steps => trace cfg (state0 (clients_of cls)) (map (fun x => fst (fst x)) steps) end.

Definition check_corr_only (c : hcase) : verdict := V (hist_corr c) None.


Definition is_jwt_case (c : hcase) : bool := match c with HCaseJwt _ _ _ => true | _ => false end.
Definition is_contract_case (c : hcase) : bool := match c with HCaseContract _ _ _ => true | _ => false end.
