(* C15 - generated cases: histories of client-assertion / JWT-bearer presentations under the
   virtual clock, controlled interleavings of the storage steps of simultaneous presentations,
   and free-running races.  [check] = correspondence with Model/Assertion.v + the property's monitor.

   The monitor is an executable form of the property text: it looks only at operations that the
   implementation ACCEPTED and demands, for each, the clauses the text lists; it keeps its own
   memory of accepted (jti, exp) pairs and demands that a jti is not accepted again up to the
   instant of the exp it was accepted with, and that one assertion is not accepted twice. *)
From FositeModel Require Export Cases.Common Cases.CasesC12 Model.Assertion.
Local Open Scope Z_scope.

Inductive obs := OAcc (client subject : string) | ORej (name : string) (code : Z).

Definition res_obs (r : res) : obs :=
  match r with Acc c s => OAcc c s | Rej e => ORej (err_name e) (err_code e) end.
Definition obs_eqb (a b : obs) : bool :=
  match a, b with
  | OAcc c s, OAcc c' s' => String.eqb c c' && String.eqb s s'
  | ORej n k, ORej n' k' => String.eqb n n' && Z.eqb k k'
  | _, _ => false
  end.
Definition obs_str (o : obs) : string :=
  match o with OAcc c s => ("accept(" ++ c ++ "," ++ s ++ ")")%string | ORej n _ => n end.
Definition is_acc (o : obs) : bool := match o with OAcc _ _ => true | _ => false end.

Inductive c15case :=
| KHist (w : world) (t0 : Z) (steps : list (op * obs)) (final : list (string * Z))
| KSched (w : world) (t0 : Z) (pre : list (op * obs)) (o : op) (sched : list nat) (impl : list obs)
| KFree (w : world) (t0 : Z) (pre : list (op * obs)) (o : op) (impl : list obs).

(* ------------------------------------------------------------------ correspondence *)
Fixpoint corr_steps (w : world) (s : state) (i : nat) (steps : list (op * obs)) : option string * state :=
  match steps with
  | [] => (None, s)
  | (o, ob) :: r =>
      let (s', x) := step w s o in
      if obs_eqb (res_obs x) ob then corr_steps w s' (S i) r
      else (Some ("step " ++ nat_str i ++ ": model " ++ obs_str (res_obs x) ++ ", implementation " ++ obs_str ob)%string, s')
  end.

Definition store_sub (a b : list (string * Z)) : bool :=
  forallb (fun p => match jget b (fst p) with Some e => Z.eqb e (snd p) | None => false end) a.
Definition store_eqb (a b : list (string * Z)) : bool :=
  Nat.eqb (List.length a) (List.length b) && store_sub a b && store_sub b a.

(* the flow one thread of a race executes *)
Definition op_flow (w : world) (s : state) (o : op) : option jflow :=
  match o with
  | OAuth a => Some (ca_flow (w_tus w) (w_clients w) (now s) a)
  | OGrant None b =>
      if b_skip_auth (w_bcfg w) then Some (ba_flow (w_bcfg w) (w_tus w) (w_ikeys w) (now s) "" [] b)
      else Some {| f_pre := inl EInvalidRequest; f_mid := inl EInvalidRequest; f_kerr := EServerError; f_post := Rej EInvalidRequest |}
  | _ => None
  end.

Fixpoint obs_list_eqb (a : list (option res)) (b : list obs) : bool :=
  match a, b with
  | [], [] => true
  | Some r :: a', o :: b' => obs_eqb (res_obs r) o && obs_list_eqb a' b'
  | _, _ => false
  end.

Definition count_acc (l : list obs) : nat := List.length (filter is_acc l).

Definition start (t0 : Z) : state := {| now := t0; jt := [] |}.

Definition corr_case (c : c15case) : option string :=
  match c with
  | KHist w t0 steps final =>
      match corr_steps w (start t0) 0 steps with
      | (Some d, _) => Some d
      | (None, s) => if store_eqb (jt s) final then None else Some "final replay memory differs"
      end
  | KSched w t0 pre o sched impl =>
      match corr_steps w (start t0) 0 pre with
      | (Some d, _) => Some ("prefix " ++ d)%string
      | (None, s) =>
          match op_flow w s o with
          | None => Some "operation cannot be raced"
          | Some f =>
              let ts := map (fun _ => (f, TStart)) impl in
              let (_, ts') := run_sched (now s) (jt s, ts) sched in
              if obs_list_eqb (map thread_result ts') impl then None else Some "schedule: per-thread verdicts differ"
          end
      end
  | KFree w t0 pre o impl =>
      match corr_steps w (start t0) 0 pre with
      | (Some d, _) => Some ("prefix " ++ d)%string
      | (None, s) =>
          let (_, rs) := run w s (map (fun _ => o) impl) in
          if Nat.eqb (count_acc (map res_obs rs)) (count_acc impl) then None else Some "race: number of acceptances differs"
      end
  end.

(* ------------------------------------------------------------------ the monitor *)
Definition asymmetric_alg (a : string) : bool :=
  mem a ["RS256"; "RS384"; "RS512"; "PS256"; "PS384"; "PS512"; "ES256"; "ES384"; "ES512"].

Definition aud_has (aud : jval) (tus : list string) : bool :=
  match aud with
  | JStr s => mem s tus
  | JList l => existsb (fun it => match it with Some s => mem s tus | None => false end) l
  | _ => false
  end.

Definition tag_unless (b : bool) (t : string) : list string := if b then [] else [t].

(* clauses of the first sentence, for a client assertion that authenticated client [cid] at [nw] *)
Definition ca_checks (w : world) (nw : Z) (a : cassert) (cid : string) : list string :=
  (tag_unless (String.eqb (ca_type a) assertion_type) "ca:assertion_type" ++
   match find_client (w_clients w) cid with
   | None => ["ca:unknown_client"]
   | Some c =>
       tag_unless (String.eqb (c_method c) "private_key_jwt") "ca:auth_method" ++
       tag_unless (String.eqb (c_alg c) (ca_alg a) && asymmetric_alg (ca_alg a)) "ca:alg" ++
       tag_unless (match c_jwks c with
                   | Some keys => existsb (fun k => existsb (Nat.eqb (k_kp k)) (ca_ver a)) keys
                   | None => false end) "ca:key"
   end ++
   tag_unless (jstr_is (ca_iss a) cid) "ca:iss" ++
   tag_unless (jstr_is (ca_sub a) cid) "ca:sub" ++
   tag_unless (aud_has (ca_aud a) (w_tus w)) "ca:aud" ++
   match to_int64 (ca_exp a) with
   | None => ["ca:exp_missing"]
   | Some e => if Z.leb (unix nw) e then [] else if Z.eqb e 0 then ["ca:exp_zero_accepted"] else ["ca:expired"]
   end ++
   match ca_jti a with
   | JStr j => tag_unless (negb (String.eqb j "")) "ca:jti_missing"
   | _ => ["ca:jti_missing"]
   end)%list.

(* clauses of the second sentence *)
Definition jb_checks (w : world) (nw : Z) (b : bassert) : list string :=
  let cfg := w_bcfg w in
  let signed k := ik_for (ba_iss b) (ba_sub b) k && existsb (Nat.eqb (ik_kp k)) (ba_ver b) in
  (tag_unless (existsb signed (w_ikeys w)) "jb:key" ++
   tag_unless (negb (existsb signed (w_ikeys w)) ||
               existsb (fun k => signed k && forallb (scope_spec_b (b_strategy cfg) (ik_scopes k)) (ba_scopes b)) (w_ikeys w))
              "jb:scope" ++
   tag_unless (existsb (fun tu => mem tu (ba_aud b)) (w_tus w)) "jb:aud" ++
   match ba_exp b with
   | None => ["jb:exp_missing"]
   | Some e =>
       tag_unless (Z.leb nw (e * 1000)) "jb:expired" ++
       tag_unless (Z.leb (e * 1000 - match ba_iat b with Some i => i * 1000 | None => nw end) (max_duration cfg)) "jb:max_duration"
   end ++
   match ba_nbf b with Some n => tag_unless (Z.leb (n * 1000) nw) "jb:nbf" | None => [] end ++
   tag_unless (b_iat_optional cfg || match ba_iat b with Some _ => true | None => false end) "jb:iat_required" ++
   tag_unless (b_id_optional cfg || negb (String.eqb (ba_jti b) "")) "jb:jti_required")%list.

(* the (jti, exp) pairs consumed by an accepted operation *)
Definition ca_marks (a : cassert) : list (string * Z) :=
  match ca_jti a, to_int64 (ca_exp a) with JStr j, Some e => [(j, e)] | _, _ => [] end.
Definition ba_marks (b : bassert) : list (string * Z) :=
  if String.eqb (ba_jti b) "" then [] else match ba_exp b with Some e => [(ba_jti b, e)] | None => [] end.

(* third sentence, relative to the monitor's own memory [seen] of accepted pairs *)
Definition jti_checks (is_client : bool) (nw : Z) (seen : list (string * Z)) (m : string * Z) : list string :=
  let (j, e) := m in
  if existsb (fun p => String.eqb (fst p) j && Z.leb nw (snd p * 1000)) seen then ["jti:reuse_before_exp"]
  else if existsb (fun p => String.eqb (fst p) j && Z.eqb (snd p) e) seen then
    (* the same assertion once more, after the instant of its exp *)
    if is_client && Z.eqb e 0 then []                              (* reported as ca:exp_zero_accepted *)
    else if is_client && Z.leb (unix nw) e then ["ca:replay_in_final_second"]
    else ["jti:assertion_accepted_twice"]
  else [].

Definition step_tags (w : world) (nw : Z) (seen : list (string * Z)) (o : op) (ob : obs) : list string * list (string * Z) :=
  match o, ob with
  | OAuth a, OAcc cid _ =>
      ((ca_checks w nw a cid ++ flat_map (jti_checks true nw seen) (ca_marks a))%list, ca_marks a)
  | OGrant ca b, OAcc cid _ =>
      let cm := match ca with Some a => if String.eqb cid "" then [] else ca_marks a | None => [] end in
      ((match ca with
        | Some a => if String.eqb cid "" then [] else ca_checks w nw a cid
        | None => tag_unless (String.eqb cid "") "grant:client_without_assertion"
        end ++ jb_checks w nw b ++
        flat_map (jti_checks true nw seen) cm ++ flat_map (jti_checks false nw seen) (ba_marks b))%list,
       (cm ++ ba_marks b)%list)
  | _, _ => ([], [])
  end.

Fixpoint mon_steps (w : world) (nw : Z) (seen : list (string * Z)) (steps : list (op * obs)) : list string :=
  match steps with
  | [] => []
  | (o, ob) :: r =>
      match o with
      | OTick d => mon_steps w (nw + Z.max 0 d) seen r
      | _ => let (tags, ms) := step_tags w nw seen o ob in (tags ++ mon_steps w nw (ms ++ seen) r)%list
      end
  end.

(* the tags of the two defects repaired by commit 3e32ae1 of the library (kept so that they are
   re-detected by name); when several tags are raised any other tag is reported first *)
Definition known_tags : list string := ["ca:exp_zero_accepted"; "ca:replay_in_final_second"].
Definition pick (tags : list string) : option string :=
  match filter (fun t => negb (mem t known_tags)) tags with
  | x :: _ => Some x
  | [] => match tags with x :: _ => Some x | [] => None end
  end.

Definition mon_tags (c : c15case) : list string :=
  match c with
  | KHist w t0 steps _ => mon_steps w t0 [] steps
  | KSched w t0 pre o _ impl => mon_steps w t0 [] (pre ++ map (fun ob => (o, ob)) impl)
  | KFree w t0 pre o impl => mon_steps w t0 [] (pre ++ map (fun ob => (o, ob)) impl)
  end.

Definition check (c : c15case) : verdict := V (corr_case c) (pick (mon_tags c)).

(* short constructors for the generated case files *)
Definition AT := assertion_type.
Definition CA (ty cid alg kid : string) (ver : list nat) (iss sub aud exp iat nbf jti : jval) : cassert :=
  Build_cassert ty false cid true alg kid ver iss sub aud exp iat nbf jti.
Definition CA0 (ty : string) (empty : bool) (cid : string) : cassert :=
  Build_cassert ty empty cid false "" "" [] JAbsent JAbsent JAbsent JAbsent JAbsent JAbsent JAbsent.
Definition BA (kid : string) (ver : list nat) (iss sub : string) (aud : list string) (exp nbf iat : option Z)
           (jti : string) (sc : list string) : bassert :=
  Build_bassert false true true kid ver iss sub aud exp nbf iat jti sc.
Definition BA0 (empty parse claims : bool) (sc : list string) : bassert :=
  Build_bassert empty parse claims "" [] "" "" [] None None None "" sc.
Definition JK := Build_jwk.
Definition CL := Build_client.
Definition IK := Build_ikey.
Definition BC := Build_bcfg.
Definition W := Build_world.
