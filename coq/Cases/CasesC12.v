From FositeModel Require Export Cases.Common Model.Scope.

(* Executable form of the documented rules, written from the specification (not from the loops).
   Proofs/ScopeProofs.v shows the Go-shaped loops decide the same relation; these boolean
   versions are what is evaluated on the implementation's answers. *)
Definition seg_match_b (c n : string) : bool :=
  if String.eqb c "*" then negb (String.eqb n "") else String.eqb c n.

Fixpoint wild_spec_b (ms ns : list string) : bool :=
  match ms, ns with
  | [], [] => true
  | c :: ms', n :: ns' =>
      (seg_match_b c n && wild_spec_b ms' ns')
      || (match ms', ns' with
          | [], _ :: _ => String.eqb c "*" && negb (String.eqb n "")
          | _, _ => false
          end)
  | _, _ => false
  end.

Fixpoint proper_prefix_b (hs ns : list string) : bool :=
  match hs, ns with
  | [], _ :: _ => true
  | h :: hs', n :: ns' => String.eqb h n && proper_prefix_b hs' ns'
  | _, _ => false
  end.

Definition scope_spec_b (s : scope_strategy) (hay : list string) (needle : string) : bool :=
  match s with
  | SExact => mem needle hay
  | SHierarchic => existsb (fun h => String.eqb h needle || proper_prefix_b (split dot h) (split dot needle)) hay
  | SWildcard => existsb (fun m => wild_spec_b (split dot m) (split dot needle)) hay
  end.

(* audience: scheme and host equal, path equal / equal up to trailing slashes of the registered
   one / extends the trimmed registered path at a "/" boundary *)
Definition aud_pair_spec_b (h n : aurl) : bool :=
  let ap := trim_right slash (a_path h) in
  String.eqb (a_scheme n) (a_scheme h) && String.eqb (a_host n) (a_host h) &&
  (String.eqb (a_path n) (a_path h) || String.eqb (a_path n) ap || has_prefix (ap ++ "/") (a_path n)).
Definition default_aud_spec_b (hs ns : list aurl) : bool :=
  match ns with
  | [] => true
  | _ => forallb a_ok ns && forallb a_ok hs &&
         forallb (fun n => existsb (fun h => aud_pair_spec_b h n) hs) ns
  end.

Inductive c12case :=
| KScope (s : scope_strategy) (hay : list string) (needle : string) (impl : bool)
| KExactAud (hs ns : list string) (impl : bool)
| KDefAud (hs ns : list aurl) (impl : bool).

Definition check (c : c12case) : verdict :=
  match c with
  | KScope s hay needle impl =>
      V (corr_b (Bool.eqb (scope_match s hay needle) impl))
        (if Bool.eqb (scope_spec_b s hay needle) impl then None else Some "scope_strategy")
  | KExactAud hs ns impl =>
      V (corr_b (Bool.eqb (exact_audience hs ns) impl))
        (if Bool.eqb (forallb (fun n => mem n hs) ns) impl then None else Some "exact_audience")
  | KDefAud hs ns impl =>
      V (corr_b (Bool.eqb (default_audience hs ns) impl))
        (if Bool.eqb (default_aud_spec_b hs ns) impl then None else Some "default_audience")
  end.
