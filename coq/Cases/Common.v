(* Shared plumbing for the generated case files: each case carries the implementation's
   observation; [corr] says whether the model computes the same observation, [mon] whether the
   property's monitor (an executable form of the specification) accepts the implementation's
   observation.  Only failures are printed. *)
From FositeModel Require Export Base.Str.

Record verdict := V { corr : bool; mon : option string }.

Fixpoint failures_from {A} (chk : A -> verdict) (i : nat) (cs : list A) : list (nat * string) :=
  match cs with
  | [] => []
  | c :: r =>
      let v := chk c in
      ((if corr v then [] else [(i, "corr")]) ++
       (match mon v with None => [] | Some t => [(i, ("mon:" ++ t)%string)] end) ++
       failures_from chk (S i) r)%list
  end.
Definition failures {A} (chk : A -> verdict) (cs : list A) := failures_from chk 0 cs.
