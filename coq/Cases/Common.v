(* Shared plumbing for the generated case files: each case carries the implementation's
   observation; [corr] says whether the model computes the same observation (None = yes, Some d =
   first difference), [mon] whether the property's monitor (an executable form of the
   specification) accepts the implementation's observation (None = yes, Some tag = violated
   clause).  Only failures are printed. *)
From FositeModel Require Export Base.Str.

Record verdict := V { corr : option string; mon : option string }.

Fixpoint failures_from {A} (chk : A -> verdict) (i : nat) (cs : list A) : list (nat * string) :=
  match cs with
  | [] => []
  | c :: r =>
      let v := chk c in
      ((match corr v with None => [] | Some d => [(i, ("corr:" ++ d)%string)] end) ++
       (match mon v with None => [] | Some t => [(i, ("mon:" ++ t)%string)] end) ++
       failures_from chk (S i) r)%list
  end.
Definition failures {A} (chk : A -> verdict) (cs : list A) := failures_from chk 0 cs.

Definition corr_b (b : bool) : option string := if b then None else Some "".

(* decimal rendering of small numbers for the failure tags *)
Definition digit (n : nat) : string :=
  match n with 0 => "0" | 1 => "1" | 2 => "2" | 3 => "3" | 4 => "4" | 5 => "5" | 6 => "6" | 7 => "7" | 8 => "8" | _ => "9" end.
Fixpoint nat_str_fuel (fuel n : nat) : string :=
  match fuel with
  | 0 => ""
  | S f => if Nat.ltb n 10 then digit n else (nat_str_fuel f (Nat.div n 10) ++ digit (Nat.modulo n 10))%string
  end.
Definition nat_str (n : nat) : string := nat_str_fuel 12 n.
