(* C18 cases: one request executed under a fault plan on the real library (through a storage wrapper that
   counts the storage calls of the request, logs method and result class, injects the planned faults and,
   when the flag is set, implements storage.Transactional with snapshot / restore), followed by a
   fault-free retry and a replay of the same request.

   [corr]: the fault model (Model/Faults.v) computes the same observation, the same call log (hence the
   same begin/commit/rollback trace), the same table digests and the same follow-up verdicts.
   [mon]: the executable form of the property's clauses, evaluated on the implementation's record only. *)
From FositeModel Require Export Cases.CasesHist Model.Faults.

(* ------------------------------------------------------------------ digests of the code / token tables *)
(* per credential handed out (log order): 0 = no record, 1 = active record, 2 = inactive record, 3 = not a
   code / token table entry; and the number of records per table (codes, access, refresh, pkce, both indexes) *)
Definition digest := (list nat * list nat)%type.

Definition status_of (s : state) (e : issued) : nat :=
  match i_kind e with
  | KCode => match codes (st s) (i_key e) with None => 0 | Some (true, _) => 1 | Some (false, _) => 2 end
  | KAccess => match access (st s) (i_key e) with None => 0 | Some _ => 1 end
  | KRefresh => match refresh (st s) (i_key e) with None => 0 | Some (true, _) => 1 | Some (false, _) => 2 end
  | KDevice => match device (st s) (i_key e) with None => 0 | Some _ => 1 end
  | _ => 3
  end.
Fixpoint count_upto (f : nat -> bool) (n : nat) : nat :=
  match n with 0 => 0 | S m => (if f m then 1 else 0) + count_upto f m end.
Definition has_key {A} (m : fmap A) (k : nat) : bool := match m k with Some _ => true | None => false end.
Definition counts (s : state) : list nat :=
  [count_upto (has_key (codes (st s))) (next_key s); count_upto (has_key (access (st s))) (next_key s);
   count_upto (has_key (refresh (st s))) (next_key s); count_upto (has_key (pkce (st s))) (next_key s);
   count_upto (has_key (at_idx (st s))) (next_rid s); count_upto (has_key (rt_idx (st s))) (next_rid s)].
Definition digest_of (s : state) : digest := (map (status_of s) (log s), counts s).

(* ------------------------------------------------------------------ case type *)
Record fdry := FD {            (* the same request in an identical fresh world without faults *)
  fd_obs : obs;
  fd_ncalls : nat;
  fd_d1 : digest
}.
Record fimpl := FI {
  fo_obs : obs;                (* the request under the fault plan *)
  fo_calls : list call;
  fo_d0 : digest;              (* tables before ... *)
  fo_d1 : digest;              (* ... and after it *)
  fo_retry : obs;              (* the same request again, fault-free *)
  fo_replay : obs;             (* and once more *)
  fo_d3 : digest;
  fo_probes : list bool        (* IntrospectToken of every credential handed out, at the end *)
}.
Inductive fcase :=
  FCase (cfg : config) (cls : list client) (setup : list op) (o : op) (tx : bool) (plan : list (nat * fault))
        (dry : fdry) (impl : fimpl).

Fixpoint plan_of (l : list (nat * fault)) (n : nat) : option fault :=
  match l with
  | [] => None
  | (i, f) :: r => if Nat.eqb i n then Some f else plan_of r n
  end.

(* ------------------------------------------------------------------ equality tests *)
Definition fault_n (f : fault) : nat := match f with FGen => 0 | FNotFound => 1 | FInactive => 2 | FSerial => 3 end.
Definition meth_n (m : meth) : nat :=
  match m with
  | MGetCode => 0 | MGetPkce => 1 | MInvalidateCode => 2 | MCreateAT => 3 | MCreateRT => 4 | MGetOidc => 5 | MDeletePkce => 6
  | MGetRT => 7 | MGetAT => 8 | MDeleteRT => 9 | MRevokeRT => 10 | MRevokeAT => 11 | MRotateRT => 12
  | MGetDevice => 13 | MInvalidateDevice => 14 | MAuthenticate => 15 | MBegin => 16 | MCommit => 17 | MRollback => 18
  end.
Definition rclass_n (r : rclass) : nat :=
  match r with ROk => 0 | RNotFound => 1 | RInactive => 2 | RInvalidated => 3 | RInj f => 4 + fault_n f end.
Definition meth_eqb a b := Nat.eqb (meth_n a) (meth_n b).
Definition rclass_eqb a b := Nat.eqb (rclass_n a) (rclass_n b).
Definition call_eqb (a b : call) := meth_eqb (fst a) (fst b) && rclass_eqb (snd a) (snd b).
Fixpoint list_eqb_by {A} (eqb : A -> A -> bool) (a b : list A) : bool :=
  match a, b with
  | [], [] => true
  | x :: a', y :: b' => eqb x y && list_eqb_by eqb a' b'
  | _, _ => false
  end.
Definition nats_eqb := list_eqb_by Nat.eqb.
Definition digest_eqb (a b : digest) := nats_eqb (fst a) (fst b) && nats_eqb (snd a) (snd b).
Definition calls_eqb := list_eqb_by call_eqb.
(* error class and minted credentials only (no clock-dependent field) *)
Definition verdict_eqb (a b : obs) := String.eqb (o_err a) (o_err b) && ckinds_eqb (o_minted a) (o_minted b).

(* ------------------------------------------------------------------ correspondence *)
Definition is_some {A} (o : option A) : bool := match o with Some _ => true | None => false end.

Definition fcorr (c : fcase) : option string :=
  match c with
  | FCase cfg cls setup o tx plan dry impl =>
      let s0 := run cfg (state0 (clients_of cls)) setup in
      let '(sd, obd, callsd) := fstep {| fe_tx := tx; fe_plan := fun _ => None |} cfg s0 o in
      let '(s1, ob1, calls1) := fstep {| fe_tx := tx; fe_plan := plan_of plan |} cfg s0 o in
      let (s2, ob2) := step cfg s1 o in
      let (s3, ob3) := step cfg s2 o in
      if negb (obs_eqb obd (fd_obs dry)) then Some ("fault-free run: model says '" ++ o_err obd ++ "'")%string
      else if negb (Nat.eqb (List.length callsd) (fd_ncalls dry)) then Some ("fault-free run: model makes " ++ nat_str (List.length callsd) ++ " calls")%string
      else if negb (digest_eqb (digest_of sd) (fd_d1 dry)) then Some "fault-free run: tables after"
      else if negb (digest_eqb (digest_of s0) (fo_d0 impl)) then Some "tables before the request"
      else if negb (obs_eqb ob1 (fo_obs impl)) then Some ("faulted request: model says '" ++ o_err ob1 ++ "'")%string
      else if negb (calls_eqb calls1 (fo_calls impl)) then Some ("storage call log / transaction trace (model: " ++ nat_str (List.length calls1) ++ " calls)")%string
      else if negb (digest_eqb (digest_of s1) (fo_d1 impl)) then Some "tables after the faulted request"
      else if negb (obs_eqb ob2 (fo_retry impl)) then Some ("retry: model says '" ++ o_err ob2 ++ "'")%string
      else if negb (obs_eqb ob3 (fo_replay impl)) then Some ("replay: model says '" ++ o_err ob3 ++ "'")%string
      else if negb (digest_eqb (digest_of s3) (fo_d3 impl)) then Some "tables after the replay"
      else if negb (list_eqb_by Bool.eqb (map is_some (probes cfg s3)) (fo_probes impl)) then Some "final probes"
      else None
  end.

(* ------------------------------------------------------------------ monitor: the clauses of the property *)
Definition is_inj (c : call) : bool := match snd c with RInj _ => true | _ => false end.
Definition injected (l : list call) : bool := existsb is_inj l.
Definition has_call (l : list call) (m : meth) (p : rclass -> bool) : bool :=
  existsb (fun c => meth_eqb (fst c) m && p (snd c)) l.
Definition is_ok (r : rclass) : bool := match r with ROk => true | _ => false end.
Definition is_injr (r : rclass) : bool := match r with RInj _ => true | _ => false end.
Definition pkce_nf (c : call) : bool := match c with (MGetPkce, RInj FNotFound) => true | _ => false end.
Definition only_pkce_nf (l : list call) : bool := forallb (fun c => negb (is_inj c) || pkce_nf c) l.
(* some injected answer was not-found / inactive: the classes storeErrorsToRevocationError reads as "already revoked" *)
Definition soft_some (l : list call) : bool :=
  existsb (fun c => match snd c with RInj FNotFound | RInj FInactive => true | _ => false end) l.
Definition is_revoke (o : op) : bool := match o with ORevoke _ _ _ => true | _ => false end.
Definition is_refresh (o : op) : bool := match o with ORefresh _ _ _ => true | _ => false end.
Definition succeeded (ob : obs) : bool := String.eqb (o_err ob) "".
Definition no_tokens (ob : obs) : bool := match o_minted ob with [] => true | _ => false end.

(* a request must end in a response *)
Definition panicked (ob : obs) : bool := String.eqb (o_err ob) "PANIC".
Definition mon_panic (ob : obs) : option string :=
  if panicked ob then Some "panic_in_refresh_reuse_handling_when_the_store_answers_inactive_without_a_request" else None.

(* (b) a storage failure refuses the request; nothing is handed out *)
Definition mon_b (o : op) (calls : list call) (ob : obs) : option string :=
  if negb (succeeded ob) && negb (no_tokens ob) then Some "error_response_with_tokens"
  else if is_revoke o then None
  else if injected calls && (succeeded ob || negb (no_tokens ob)) then
    (if only_pkce_nf calls then Some "tokens_issued_after_notfound_fault_on_pkce_lookup"
     else Some "tokens_issued_after_storage_fault")
  else None.

(* serialization conflicts inside the refresh handler's transactions are answered with the retry class *)
Definition in_refresh_tx (m : meth) : bool :=
  match m with MRotateRT | MCreateAT | MCreateRT | MCommit | MDeleteRT | MRevokeRT | MRevokeAT => true | _ => false end.
Definition mon_serial (o : op) (calls : list call) (ob : obs) : option string :=
  if is_refresh o
     && existsb (fun c => in_refresh_tx (fst c) && rclass_eqb (snd c) (RInj FSerial)) calls
     && negb (has_call calls MRollback is_injr)
     && negb (String.eqb (o_err ob) "invalid_request")
  then Some "serialization_conflict_not_answered_as_retryable" else None.

(* revocation: an accepted revocation under a fault has done what the fault-free revocation does *)
Definition mon_rev (o : op) (calls : list call) (ob : obs) (d1 dry1 : digest) : option string :=
  if is_revoke o && injected calls && succeeded ob && negb (nats_eqb (fst d1) (fst dry1)) then
    (if soft_some calls then Some "revocation_accepted_but_not_performed_after_notfound_or_inactive_fault"
     else Some "revocation_accepted_but_not_performed_after_storage_fault")
  else None.

(* (c) begin / commit / rollback *)
Definition is_tx_meth (m : meth) : bool := match m with MBegin | MCommit | MRollback => true | _ => false end.
Definition mon_c (tx : bool) (calls : list call) : option string :=
  if negb (tx_wf calls) then Some "transaction_trace_malformed"
  else if negb tx && existsb (fun c => is_tx_meth (fst c)) calls then Some "transaction_call_on_plain_store"
  else None.

(* (d) a failure inside a transaction that was rolled back leaves the tables as they were; the holder's retry
   gets what the fault-free request gets *)
Definition rolled_back (tx : bool) (calls : list call) : bool :=
  tx && has_call calls MBegin is_ok && negb (has_call calls MCommit is_ok) && negb (has_call calls MRollback is_injr).
Definition mon_d (tx : bool) (calls : list call) (d0 d1 : digest) (retry dry : obs) : option string :=
  if rolled_back tx calls then
    (if negb (digest_eqb d0 d1) then Some "tables_changed_although_transaction_rolled_back"
     else if negb (verdict_eqb retry dry) then Some "credential_not_usable_after_rolled_back_failure"
     else None)
  else None.

(* (e) fail-closed: what was not active stays not active *)
Fixpoint mono (a b : list nat) : bool :=
  match a, b with
  | x :: a', y :: b' => (Nat.eqb x 1 || negb (Nat.eqb y 1)) && mono a' b'
  | [], _ => true
  | _ :: _, [] => false
  end.
Fixpoint dead_not_live (st_ : list nat) (pr : list bool) : bool :=
  match st_, pr with
  | x :: a, p :: b => (Nat.eqb x 1 || negb p) && dead_not_live a b
  | _, _ => true
  end.
Definition mon_e (d0 d1 d3 : digest) (ob : obs) (probes_ : list bool) : option string :=
  if negb (mono (fst d0) (fst d1)) || negb (mono (fst d1) (fst d3)) then Some "invalidated_credential_active_again"
  else if negb (succeeded ob) && negb (Nat.eqb (List.length (fst d0)) (List.length (fst d1))) then Some "credential_delivered_by_refused_request"
  else if negb (dead_not_live (fst d3) probes_) then Some "credential_without_active_record_is_honoured"
  else None.

Definition first_some (l : list (option string)) : option string :=
  fold_right (fun a acc => match a with Some t => Some t | None => acc end) None l.

Definition fmon (c : fcase) : option string :=
  match c with
  | FCase cfg cls setup o tx plan dry impl =>
      first_some [mon_panic (fo_obs impl);
                  mon_b o (fo_calls impl) (fo_obs impl);
                  mon_serial o (fo_calls impl) (fo_obs impl);
                  mon_rev o (fo_calls impl) (fo_obs impl) (fo_d1 impl) (fd_d1 dry);
                  mon_c tx (fo_calls impl);
                  mon_d tx (fo_calls impl) (fo_d0 impl) (fo_d1 impl) (fo_retry impl) (fd_obs dry);
                  mon_e (fo_d0 impl) (fo_d1 impl) (fo_d3 impl) (fo_obs impl) (fo_probes impl)]
  end.

Definition check (c : fcase) : verdict := V (fcorr c) (fmon c).
