(* C13 cases: one authorization request driven through NewAuthorizeRequest, NewAuthorizeResponse and
   WriteAuthorizeResponse / WriteAuthorizeError of the real library, with the projected observation.
   [corr]: the model (Model/Authz.v) computes the same observation.
   [mon]: an executable form of the property text judges the implementation's observation on its own;
   it is written from the statement of C13, not from the model's control flow.  Proofs/MonitorC13.v
   proves that it accepts the model's observation for every input. *)
From FositeModel Require Export Cases.Common Model.Authz.

(* ------------------------------------------------------------------ observation *)
Definition watched : list string :=
  ["state"; "response_type"; "response_mode"; "redirect_uri"; "scope"; "nonce"; "prompt"; "max_age";
   "registration"; "client_id"].

Definition interest : list string :=
  ["access_token"; "code"; "error"; "expires_in"; "id_token"; "scope"; "state"; "token_type"].

Record obs := {
  ob_req_err : string;            (* NewAuthorizeRequest: RFC error name, "" = accepted *)
  ob_eff : list string;           (* ar.GetRequestForm().Get(k) for k in [watched], after NewAuthorizeRequest *)
  ob_state : string;              (* ar.GetState() *)
  ob_resp_err : string;           (* NewAuthorizeResponse: error name, "" = accepted or not reached *)
  ob_keys : list string;          (* keys of resp.GetParameters() within [interest], when accepted *)
  ob_codes : nat;                 (* records added to MemoryStore.AuthorizeCodes / AccessTokens / IDSessions *)
  ob_access : nat;
  ob_oidc : nat;
  ob_status : Z;                  (* HTTP status of the written response *)
  ob_q : list string;             (* [interest] keys found in the Location query, fragment, form body *)
  ob_f : list string;
  ob_b : list string;
  ob_states : list string;        (* every value of "state" found in query, fragment and body *)
  ob_json_err : string;           (* "error" member of a JSON error body, "" otherwise *)
  ob_redeem : nat                 (* code presented at the token endpoint: 0 not tried, 1 refused with
                                     unauthorized_client, 2 refused otherwise, 3 tokens issued *)
}.

Record c13case := {
  k_cfg : config;
  k_cid : string;                 (* the id under which [k_cl] is registered *)
  k_cl : option client;
  k_rq : request;
  k_granted : list string;
  k_se : session;
  k_now : Z;
  k_obs : obs
}.

(* short constructor names keep the generated files small *)
Definition Cf := Build_config.
Definition Jk := Build_jwk.
Definition Cl := Build_client.
Definition Jw := Build_jwt.
Definition Rd := Build_redir.
Definition Rq := Build_request.
Definition Se := Build_session.
Definition Ob := Build_obs.
Definition K := Build_c13case.

(* the generated files omit the effective form when it is the query's own ([] stands for "the values
   of the query") and name three lists that occur in most registrations *)
Definition eff_of (f : form) : list string := map (fun k => fget k f) watched.
Definition fill_eff (rq : request) (ob : obs) : obs :=
  match ob_eff ob with
  | [] => Ob (ob_req_err ob) (eff_of (q_form rq)) (ob_state ob) (ob_resp_err ob) (ob_keys ob) (ob_codes ob) (ob_access ob)
             (ob_oidc ob) (ob_status ob) (ob_q ob) (ob_f ob) (ob_b ob) (ob_states ob) (ob_json_err ob) (ob_redeem ob)
  | _ => ob
  end.
(* an item of a generated file: a request case, or the list of authorize endpoint handlers the composed
   provider really has (compared with the list the model's loop was written for) *)
Inductive c13item :=
| ICase (c : c13case)
| IOrder (names : list string)
(* the parameters of a request sent to the pushed-authorization endpoint by the correctly authenticated client:
   verdict, effective form, state *)
| IPush (cfg : config) (cid : string) (cl : option client) (rq : request) (err : string) (eff : list string) (state : string).
Definition KS cfg cid cl rq granted se now ob := ICase (K cfg cid cl rq granted se now (fill_eff rq ob)).
Definition RT7 : list string := ["code"; "token"; "id_token"; "code token"; "code id_token"; "id_token token"; "code id_token token"].
Definition SC4 : list string := ["openid"; "profile"; "offline"; "photos.*"].
Definition RM3 : list string := ["query"; "fragment"; "form_post"].

Definition lookup_of (cid : string) (cl : option client) : string -> option client :=
  fun id => if String.eqb id cid then cl else None.

(* ------------------------------------------------------------------ the model's observation *)
Definition proj (p : form) : list string := filter (fun k => has_param k p) interest.
Definition state_values (p : form) : list string :=
  map snd (filter (fun kv => String.eqb (fst kv) "state") p).
(* "" stands for "no error"; an error is never rendered as "" *)
Definition opt_str (o : option string) : string :=
  match o with Some e => if String.eqb e "" then "error" else e | None => "" end.
Definition is_place (a b : place) : bool :=
  match a, b with
  | PQuery, PQuery | PFragment, PFragment | PForm, PForm | PNone, PNone | PJson, PJson => true
  | _, _ => false
  end.

Definition model_obs (cfg : config) (cid : string) (cl : option client) (rq : request)
           (granted : list string) (se : session) (now : Z) : obs :=
  let ar0 := fst (new_authorize_request cfg (lookup_of cid cl) rq) in
  let o := authorize cfg (lookup_of cid cl) rq granted se now in
  let w := o_written o in
  let issued := match o_req_err o, o_resp_err o with None, None => true | _, _ => false end in
  {| ob_req_err := opt_str (o_req_err o);
     ob_eff := eff_of (a_form ar0);
     ob_state := a_state ar0;
     ob_resp_err := opt_str (o_resp_err o);
     ob_keys := proj (o_params o);
     ob_codes := x_codes (o_fx o);
     ob_access := x_access (o_fx o);
     ob_oidc := x_oidc (o_fx o);
     ob_status := w_status w;
     ob_q := if is_place (w_place w) PQuery then proj (w_params w) else [];
     ob_f := if is_place (w_place w) PFragment then proj (w_params w) else [];
     ob_b := if is_place (w_place w) PForm then proj (w_params w) else [];
     ob_states := if is_place (w_place w) PJson then [] else state_values (w_params w);
     ob_json_err := if is_place (w_place w) PJson then fget "error" (w_params w) else "";
     ob_redeem := if issued && has_param "code" (o_params o)
                  then match a_cl ar0 with
                       | Some c => match redeem_gate c with Some _ => 1 | None => 3 end
                       | None => 0
                       end
                  else 0 |}.

(* ------------------------------------------------------------------ corr *)
Definition neq_s (a b : string) := negb (String.eqb a b).
Definition neq_l (a b : list string) := negb (list_eqb a b).

(* the model does not predict whether an ungated redemption succeeds: 2 and 3 are one class *)
Definition redeem_class (n : nat) : nat := match n with 0 => 0 | 1 => 1 | _ => 2 end.

Definition diff_obs (m i : obs) : option string :=
  if neq_s (ob_req_err m) (ob_req_err i) then Some ("request verdict: model " ++ ob_req_err m ++ " impl " ++ ob_req_err i)
  else if neq_l (ob_eff m) (ob_eff i) then Some "effective form"
  else if neq_s (ob_state m) (ob_state i) then Some "request state"
  else if neq_s (ob_resp_err m) (ob_resp_err i) then Some ("response verdict: model " ++ ob_resp_err m ++ " impl " ++ ob_resp_err i)
  else if neq_l (ob_keys m) (ob_keys i) then Some "response parameters"
  else if negb (Nat.eqb (ob_codes m) (ob_codes i)) then Some "authorize codes stored"
  else if negb (Nat.eqb (ob_access m) (ob_access i)) then Some "access tokens stored"
  else if negb (Nat.eqb (ob_oidc m) (ob_oidc i)) then Some "oidc sessions stored"
  else if negb (Z.eqb (ob_status m) (ob_status i)) then Some "http status"
  else if neq_l (ob_q m) (ob_q i) then Some "query parameters"
  else if neq_l (ob_f m) (ob_f i) then Some "fragment parameters"
  else if neq_l (ob_b m) (ob_b i) then Some "form parameters"
  else if neq_l (ob_states m) (ob_states i) then Some "state values written"
  else if neq_s (ob_json_err m) (ob_json_err i) then Some "json error"
  else if negb (Nat.eqb (redeem_class (ob_redeem m)) (redeem_class (ob_redeem i))) then Some "token endpoint gate"
  else None.

(* ------------------------------------------------------------------ the monitor: C13 read as a checker *)

(* "as a set": duplicate-free and mutually included, compared like fosite compares arguments
   (ASCII case-insensitively) *)
Fixpoint nodup_ci (l : list string) : bool :=
  match l with
  | [] => true
  | x :: r => negb (in_slice_ci x r) && nodup_ci r
  end.
Definition subset_ci (a b : list string) : bool := forallb (fun x => in_slice_ci x b) a.
Definition same_set_ci (a b : list string) : bool :=
  nodup_ci a && nodup_ci b && subset_ci a b && subset_ci b a.

Definition has_key (k : string) (f : form) : bool := existsb (fun kv => String.eqb (fst kv) k) f.

(* "signed with a key and algorithm registered for that client (unsigned only where the
   registration permits)": some registered signature key of the family of the header algorithm,
   carrying the header's kid when one is given, produced the signature; an unsigned object needs a
   registration that names no algorithm or names "none".  "a request_uri only if pre-registered". *)
Definition key_fits (j : jwt) (k : jwk) : bool :=
  String.eqb (k_use k) "sig"
  && (String.eqb (j_kid j) "" || String.eqb (k_kid k) (j_kid j))
  && match alg_family (j_alg j), j_signer j with
     | Some rsa, Some m => Bool.eqb (k_rsa k) rsa && Nat.eqb (k_mat k) m
     | _, _ => false
     end.

Definition ro_signed_ok (cl : client) (ro : option robj) : bool :=
  match ro, c_jwks cl with
  | Some (RoJwt j), Some keys =>
      (String.eqb (c_ro_alg cl) "" || String.eqb (c_ro_alg cl) (j_alg j))
      && (if String.eqb (j_alg j) "none" then true else existsb (key_fits j) keys)
      && j_claims_ok j
  | _, _ => false
  end.

Definition ro_uri_ok (cl : client) (rq : request) : bool :=
  let u := fget "request_uri" (q_form rq) in
  String.eqb u "" || (mem u (c_req_uris cl) && q_fetch_ok rq).

Definition ro_claims (rq : request) : form :=
  match q_ro rq with Some (RoJwt j) => j_claims j | _ => [] end.

(* for every watched parameter but scope: the value the implementation works with is the one sent
   in the query, or the request object's when that object may be honoured *)
Definition origin_ok (honour : bool) (rq : request) (k v : string) : bool :=
  String.eqb v (fget k (q_form rq))
  || (honour && has_key k (ro_claims rq) && String.eqb v (fget k (ro_claims rq))).

Fixpoint origins_ok (honour : bool) (rq : request) (ks vs : list string) : bool :=
  match ks, vs with
  | k :: ks', v :: vs' => (String.eqb k "scope" || origin_ok honour rq k v) && origins_ok honour rq ks' vs'
  | _, _ => true
  end.

Definition eff_get (k : string) (ob : obs) : string := fget k (combine watched (ob_eff ob)).

Definition first_fail (l : list (bool * string)) : option string :=
  match List.find (fun c => negb (fst c)) l with
  | Some c => Some (snd c)
  | None => None
  end.

Definition monitor (c : c13case) : option string :=
  let ob := k_obs c in
  let cfg := k_cfg c in
  let rq := k_rq c in
  let cl_o := lookup_of (k_cid c) (k_cl c) (fget "client_id" (q_form rq)) in
  let accepted := String.eqb (ob_req_err ob) "" in
  let issued := accepted && String.eqb (ob_resp_err ob) "" in
  let min := min_entropy cfg in
  let rts := fields (eff_get "response_type" ob) in
  let changed := neq_l (ob_eff ob) (eff_of (q_form rq)) in
  let redirected := existsb (fun k => String.eqb k "error") (ob_q ob ++ ob_f ob ++ ob_b ob)%list in
  match cl_o with
  | None => if accepted then Some "accept_unknown_client"
            else if changed then Some "request_object_honoured"
            else if existsb (fun k => mem k ["access_token"; "id_token"]) (ob_q ob ++ ob_f ob ++ ob_b ob)%list then Some "token_for_unknown_client"
            else None
  | Some cl =>
    let honour := ro_signed_ok cl (q_ro rq) && ro_uri_ok cl rq && c_oidc cl
                  && args_has (fields (fget "scope" (q_form rq))) ["openid"] in
    let implicit := args_has (c_grants cl) ["implicit"] in
    first_fail [
      (* the request is accepted only if ... *)
      (negb accepted || negb (forallb (fun t => nodup_ci (fields t)) (c_rtypes cl))
         || existsb (fun t => same_set_ci rts (fields t)) (c_rtypes cl), "accept_response_type");
      (negb accepted || String.eqb (eff_get "response_mode" ob) ""
         || (c_rm_iface cl && mem (eff_get "response_mode" ob) (c_rmodes cl)), "accept_response_mode");
      (negb accepted || (Nat.leb min (String.length (ob_state ob)) && Nat.leb min (String.length (eff_get "state" ob))), "accept_state");
      (negb accepted || negb (in_slice_ci "openid" (fields (eff_get "scope" ob)))
         || negb (String.eqb (eff_get "redirect_uri" ob) ""), "accept_openid_redirect_uri");
      (* request objects and request_uri *)
      (negb changed || ro_uri_ok cl rq, "request_uri_unregistered");
      (negb changed || honour, "request_object_honoured");
      (origins_ok honour rq watched (ob_eff ob), "parameter_origin");
      (* tokens and grants *)
      (negb issued || negb (mem "id_token" (ob_keys ob)) || Nat.leb min (String.length (eff_get "nonce" ob)), "id_token_nonce");
      (negb (mem "access_token" (ob_keys ob)) || implicit, "access_token_without_implicit");
      (Nat.eqb (ob_access ob) 0 || implicit, "access_token_minted_without_implicit");
      (negb (mem "id_token" (ob_keys ob)) || implicit || in_slice_ci "code" rts, "id_token_without_implicit");
      (negb (Nat.eqb (ob_redeem ob) 3) || args_has (c_grants cl) ["authorization_code"], "redeem_without_grant");
      (* placement *)
      (negb (mem "access_token" (ob_q ob)) && negb (mem "id_token" (ob_q ob)), "token_in_query");
      (issued || negb (existsb (fun k => mem k ["access_token"; "id_token"; "code"]) (ob_q ob ++ ob_f ob ++ ob_b ob)%list), "token_in_error_response");
      (* state *)
      (String.eqb (ob_state ob) (eff_get "state" ob), "state_field");
      (negb (issued || redirected)
         || (negb (match ob_states ob with [] => true | _ => false end)
             && forallb (fun v => String.eqb v (ob_state ob)) (ob_states ob)), "state_echo")
    ]
  end.

Definition check (c : c13case) : verdict :=
  V (diff_obs (model_obs (k_cfg c) (k_cid c) (k_cl c) (k_rq c) (k_granted c) (k_se c) (k_now c)) (k_obs c))
    (monitor c).

(* C17 (push) and C13 (request objects), judged on the push verdict alone:
   - a pushed request that contains a request_uri - as a parameter, or as a claim of the request object it carries -
     is refused;
   - parameters of a request object are honoured only for a registered OpenID Connect client, an openid request, an
     object signed with a registered key and algorithm (a changed effective form means they were honoured) *)
Definition push_monitor (cid : string) (cl : option client) (rq : request) (err : string) (eff : list string) : option string :=
  let f := q_form rq in
  let carries_ro := negb (String.eqb (fget "request" f) "") in
  if String.eqb err "" && negb (String.eqb (fget "request_uri" f) "") then Some "pushed_request_with_request_uri_accepted"
  else if String.eqb err "" && carries_ro && negb (String.eqb (fget "request_uri" (ro_claims rq)) "")
          && negb (list_eqb eff (eff_of f))
  then Some "pushed_request_object_with_request_uri_claim_honoured"
  else match lookup_of cid cl (fget "client_id" f) with
       | None => if String.eqb err "" then Some "push_accepted_for_unknown_client" else None
       | Some c =>
           if negb (list_eqb eff (eff_of f)) &&
              negb (ro_signed_ok c (q_ro rq) && c_oidc c && args_has (fields (fget "scope" f)) ["openid"])
           then Some "request_object_honoured"
           else None
       end.

Definition check_item (i : c13item) : verdict :=
  match i with
  | ICase c => check c
  | IPush cfg cid cl rq err eff state =>
      let (ar, e) := new_pushed_authorize_request cfg (lookup_of cid cl) rq in
      V (if negb (String.eqb (opt_str e) err) then Some ("push verdict: model " ++ opt_str e ++ " / impl " ++ err)%string
         else if negb (list_eqb (eff_of (a_form ar)) eff) then Some "push: effective form"
         else if negb (String.eqb (a_state ar) state) then Some "push: state"
         else None)
        (push_monitor cid cl rq err eff)
  | IOrder names =>
      V (if list_eqb names handler_names then None else Some "authorize endpoint handlers of the composed provider differ from the model's list") None
  end.
