(* Property monitors: executable forms of the property statements, evaluated on the IMPLEMENTATION's
   trace (operations, observations, probe vectors).  They read nothing of the model's state: what they know
   about a credential (kind, owning client, grant family, PKCE parameters) is reconstructed from the
   operations and the implementation's own answers.  A monitor returns None when the trace satisfies the
   clause it encodes, or Some tag naming the violated clause. *)
From FositeModel Require Export Cases.CasesHist.

Record cinfo := {
  ci_kind : ckind;
  ci_client : nat;          (* client the credential was issued to *)
  ci_family : nat;          (* index of the first credential of the grant *)
  ci_pair : option nat;     (* the credential issued alongside (access <-> refresh of one response) *)
  ci_challenge : string;    (* codes: PKCE parameters of the authorization request *)
  ci_method : string;
  ci_redirect : string;     (* codes: redirect_uri of the authorization request ("" = none was sent) *)
  ci_scopes : list string;  (* granted scopes of the grant *)
  ci_aud : list aurl;       (* granted audience, as parsed by Go *)
  ci_subject : string;
  ci_issued : Z;            (* model-free clock reading when the credential was handed out *)
  ci_decision : nat         (* device codes: 0 undecided, 1 accepted, 2 rejected *)
}.

Record mstate := {
  m_creds : list cinfo;           (* one entry per credential handed out, in log order *)
  m_clients : list client;        (* current registrations *)
  m_redeemed : list nat;          (* codes redeemed successfully *)
  m_used_rt : list nat;           (* refresh tokens exchanged successfully *)
  m_dead : list nat;              (* families that must stay inactive *)
  m_dead_creds : list nat;        (* individual credentials that must stay inactive *)
  m_prev : list (option payload); (* probe vector after the previous step *)
  m_now : Z                       (* sum of the clock advances so far *)
}.

Definition m0 (cls : list client) : mstate :=
  {| m_creds := []; m_clients := cls; m_redeemed := []; m_used_rt := []; m_dead := []; m_dead_creds := []; m_prev := []; m_now := 0%Z |}.

Fixpoint memn (x : nat) (l : list nat) : bool :=
  match l with [] => false | y :: r => Nat.eqb x y || memn x r end.

Definition cred (m : mstate) (p : pres) : option (nat * cinfo) :=
  match p_ref p with
  | CRef i => match nth_error (m_creds m) i with Some c => Some (i, c) | None => None end
  | CUnknown => None
  end.

Fixpoint replace_nth {A} (l : list A) (i : nat) (v : A) : list A :=
  match l, i with
  | [], _ => []
  | _ :: r, 0 => v :: r
  | x :: r, S j => x :: replace_nth r j v
  end.

Definition client_has_grant (m : mstate) (c : nat) (g : string) : bool :=
  match nth_error (m_clients m) c with Some cl => args_has (cl_grants cl) [g] | None => false end.

(* credentials minted by a token response of grant family [fam] for client [c] *)
Definition token_infos (tnow : Z) (base : nat) (kinds : list ckind) (c fam : nat) (sc : list string) (aud : list aurl) (sub : string) : list cinfo :=
  match kinds with
  | [KAccess; KRefresh] =>
      [{| ci_kind := KAccess; ci_client := c; ci_family := fam; ci_pair := Some (S base); ci_challenge := ""; ci_method := ""; ci_redirect := "";
          ci_scopes := sc; ci_aud := aud; ci_subject := sub; ci_issued := tnow; ci_decision := 0 |};
       {| ci_kind := KRefresh; ci_client := c; ci_family := fam; ci_pair := Some base; ci_challenge := ""; ci_method := ""; ci_redirect := "";
          ci_scopes := sc; ci_aud := aud; ci_subject := sub; ci_issued := tnow; ci_decision := 0 |}]
  | _ => map (fun k => {| ci_kind := k; ci_client := c; ci_family := fam; ci_pair := None; ci_challenge := ""; ci_method := ""; ci_redirect := "";
                          ci_scopes := sc; ci_aud := aud; ci_subject := sub; ci_issued := tnow; ci_decision := 0 |}) kinds
  end.

(* bookkeeping after a step: new credentials, registrations, redeemed / used marks *)
Definition track (m : mstate) (o : op) (ob : obs) (probes : list (option payload)) : mstate :=
  let tnow := m_now m in
  let base := List.length (m_creds m) in
  let ok := String.eqb (o_err ob) "" in
  let add l := {| m_creds := (m_creds m ++ l)%list; m_clients := m_clients m; m_redeemed := m_redeemed m;
                  m_used_rt := m_used_rt m; m_dead := m_dead m; m_dead_creds := m_dead_creds m; m_prev := probes; m_now := m_now m |} in
  match o with
  | OAuthorize a =>
      if ok then add (map (fun k => {| ci_kind := k; ci_client := az_client a; ci_family := base; ci_pair := None;
                                        ci_challenge := az_challenge a; ci_method := az_method a; ci_redirect := az_redirect a;
                                        ci_scopes := az_granted a; ci_aud := az_gaud a; ci_subject := az_subject a; ci_issued := tnow;
                                        (* codes: 1 = the client was registered for refresh_token when the authorization was given
                                           (the code exchange reads the registration stored with the authorization request) *)
                                        ci_decision := if client_has_grant m (az_client a) "refresh_token" then 1 else 0 |})
                         (o_minted ob))
      else add []
  | ORedeem _ code _ _ _ _ =>
      match cred m code with
      | Some (i, c) =>
          if ok then
            let m' := add (token_infos tnow base (o_minted ob) (ci_client c) (ci_family c) (ci_scopes c) (ci_aud c) (ci_subject c)) in
            {| m_creds := m_creds m'; m_clients := m_clients m'; m_redeemed := i :: m_redeemed m'; m_used_rt := m_used_rt m';
               m_dead := m_dead m'; m_dead_creds := m_dead_creds m'; m_prev := probes; m_now := m_now m |}
          else add []
      | None => add (token_infos tnow base (o_minted ob) 0 base [] [] "")
      end
  | ORefresh _ tok _ =>
      match cred m tok with
      | Some (j, c) =>
          if ok then
            let m' := add (token_infos tnow base (o_minted ob) (ci_client c) (ci_family c) (ci_scopes c) (ci_aud c) (ci_subject c)) in
            {| m_creds := m_creds m'; m_clients := m_clients m'; m_redeemed := m_redeemed m'; m_used_rt := j :: m_used_rt m';
               m_dead := m_dead m'; m_dead_creds := m_dead_creds m'; m_prev := probes; m_now := m_now m |}
          else add []
      | None => add (token_infos tnow base (o_minted ob) 0 base [] [] "")
      end
  | OPassword auth _ _ _ g ga =>
      add (token_infos tnow base (o_minted ob) (match auth with Some c => c | None => 0 end) base g ga "uuid")
  | OClientCreds auth _ _ g ga =>
      add (token_infos tnow base (o_minted ob) (match auth with Some c => c | None => 0 end) base g ga "")
  | OAdvance ms =>
      {| m_creds := m_creds m; m_clients := m_clients m; m_redeemed := m_redeemed m; m_used_rt := m_used_rt m;
         m_dead := m_dead m; m_dead_creds := m_dead_creds m; m_prev := probes; m_now := (m_now m + ms)%Z |}
  | OSetClient id c =>
      {| m_creds := m_creds m; m_clients := replace_nth (m_clients m) id c; m_redeemed := m_redeemed m; m_used_rt := m_used_rt m;
         m_dead := m_dead m; m_dead_creds := m_dead_creds m; m_prev := probes; m_now := m_now m |}
  | OPush auth bc _ a =>
      let c := match bc, auth with Some b, _ => b | None, Some x => x | None, None => 0 end in
      add (map (fun k => {| ci_kind := k; ci_client := c; ci_family := base; ci_pair := None;
                            ci_challenge := az_challenge a; ci_method := az_method a; ci_redirect := az_redirect a;
                            ci_scopes := az_scopes a; ci_aud := az_aud a;
                            ci_subject := az_mode a;   (* request_uris: the pushed response_mode *)
                            ci_issued := tnow; ci_decision := 0 |}) (o_minted ob))
  | OAuthorizePAR _ uri a =>
      match cred m uri with
      | Some (pi, pc) =>
          (fun m' => {| m_creds := m_creds m'; m_clients := m_clients m'; m_redeemed := pi :: m_redeemed m'; m_used_rt := m_used_rt m';
                        m_dead := m_dead m'; m_dead_creds := m_dead_creds m'; m_prev := m_prev m'; m_now := m_now m' |})
          (add (map (fun k => {| ci_kind := k; ci_client := ci_client pc; ci_family := base; ci_pair := None;
                                ci_challenge := if String.eqb (ci_challenge pc) "" then az_challenge a else ci_challenge pc;
                                ci_method := if String.eqb (ci_method pc) "" then az_method a else ci_method pc; ci_redirect := ci_redirect pc;
                                ci_scopes := az_granted a; ci_aud := az_gaud a; ci_subject := az_subject a; ci_issued := tnow;
                                ci_decision := if client_has_grant m (ci_client pc) "refresh_token" then 1 else 0 |}) (o_minted ob)))
      | None => add (token_infos tnow base (o_minted ob) 0 base [] [] "")
      end
  | ODeviceAuth auth _ sc au =>
      add (map (fun k => {| ci_kind := k; ci_client := match auth with Some c => c | None => 0 end; ci_family := base; ci_pair := None;
                            ci_challenge := ""; ci_method := ""; ci_redirect := ""; ci_scopes := []; ci_aud := []; ci_subject := ""; ci_issued := tnow; ci_decision := 0 |}) (o_minted ob))
  | ODecide dev acc g ga sub _ =>
      match cred m dev with
      | Some (i, c) =>
          if ok then
            {| m_creds := replace_nth (m_creds m) i
                            {| ci_kind := ci_kind c; ci_client := ci_client c; ci_family := ci_family c; ci_pair := ci_pair c;
                               ci_challenge := ""; ci_method := ""; ci_redirect := ""; ci_scopes := g; ci_aud := ga; ci_subject := sub;
                               ci_issued := ci_issued c; ci_decision := if acc then 1 else 2 |};
               m_clients := m_clients m; m_redeemed := m_redeemed m; m_used_rt := m_used_rt m;
               m_dead := m_dead m; m_dead_creds := m_dead_creds m; m_prev := probes; m_now := m_now m |}
          else add []
      | None => add []
      end
  | ODevicePoll _ dev =>
      match cred m dev with
      | Some (i, c) =>
          if ok then
            let m' := add (token_infos tnow base (o_minted ob) (ci_client c) (ci_family c) (ci_scopes c) (ci_aud c) (ci_subject c)) in
            {| m_creds := m_creds m'; m_clients := m_clients m'; m_redeemed := i :: m_redeemed m'; m_used_rt := m_used_rt m';
               m_dead := m_dead m'; m_dead_creds := m_dead_creds m'; m_prev := probes; m_now := m_now m |}
          else add []
      | None => add (token_infos tnow base (o_minted ob) 0 base [] [] "")
      end
  | _ => add (token_infos tnow base (o_minted ob) 0 base [] [] "")
  end.

Definition with_dead (m : mstate) (fams creds : list nat) : mstate :=
  {| m_creds := m_creds m; m_clients := m_clients m; m_redeemed := m_redeemed m; m_used_rt := m_used_rt m;
     m_dead := (fams ++ m_dead m)%list; m_dead_creds := (creds ++ m_dead_creds m)%list; m_prev := m_prev m; m_now := m_now m |}.

(* every token-endpoint token of a dead family, and every dead credential, must probe inactive *)
Fixpoint dead_ok_from (m : mstate) (i : nat) (cs : list cinfo) (probes : list (option payload)) : bool :=
  match cs, probes with
  | c :: cs', p :: ps' =>
      (* a dead family covers every access and refresh token of the grant, the authorization endpoint's included;
         individually retired credentials of any kind *)
      (if (match ci_kind c with KAccess | KRefresh | KImplicit => memn (ci_family c) (m_dead m) | _ => false end) || memn i (m_dead_creds m)
       then match p with None => true | Some _ => false end
       else true) && dead_ok_from m (S i) cs' ps'
  | _, _ => true
  end.
Definition dead_ok (m : mstate) (probes : list (option payload)) : bool := dead_ok_from m 0 (m_creds m) probes.

Definition first_some (a b : option string) : option string := match a with Some x => Some x | None => b end.

(* ------------------------------------------------------------------ generic driver *)
(* [judge m o ob probes] looks at one step with the tracker state BEFORE the step and returns a violated clause
   and the families / credentials that must be dead from this step on *)
Definition judge_t := mstate -> op -> obs -> list (option payload) -> option string * list nat * list nat.

Fixpoint monitor_from (judge : judge_t) (m : mstate) (steps : list (op * obs * list (option payload))) : option string :=
  match steps with
  | [] => None
  | (o, ob, pr) :: rest =>
      match judge m o ob pr with
      | (Some t, _, _) => Some t
      | (None, fams, creds) =>
          let m1 := with_dead (track m o ob pr) fams creds in
          if dead_ok m1 pr then monitor_from judge m1 rest else Some "credential_of_a_dead_grant_reported_active"
      end
  end.

Definition monitor (judge : judge_t) (c : hcase) : option string :=
  monitor_from judge (m0 (case_clients c)) (impl_trace c).

Definition same_probes (m : mstate) (pr : list (option payload)) : bool := probes_eqb (m_prev m) pr.

(* ------------------------------------------------------------------ C01 *)
Definition judge_C01 : judge_t := fun m o ob pr =>
  match o with
  | ORedeem auth code _ _ _ _ =>
      match cred m code with
      | Some (i, c) =>
          if memn i (m_redeemed m) then
            if String.eqb (o_err ob) "" then (Some "code_redeemed_twice", [], [])
            else match auth with
                 | Some a =>
                     if client_has_grant m a "authorization_code" then
                       if String.eqb (o_err ob) "invalid_grant" then (None, [ci_family c], [])
                       else (Some "replay_not_answered_invalid_grant", [], [])
                     else (None, [], [])
                 | None => (None, [], [])
                 end
          else (None, [], [])
      | None => (None, [], [])
      end
  | _ => (None, [], [])
  end.

(* ------------------------------------------------------------------ C04 *)
Definition judge_C04 : judge_t := fun m o ob pr =>
  match o with
  | ORefresh auth tok _ =>
      match cred m tok with
      | Some (j, c) =>
          if String.eqb (o_err ob) "" then
            if memn j (m_used_rt m) then (Some "refresh_token_exchanged_twice", [], [])
            else match o_minted ob with
                 | [KAccess; KRefresh] =>
                     (* the presented token and the access token issued alongside it are retired *)
                     (None, [], j :: match ci_pair c with Some a => [a] | None => [] end)
                 | _ => (Some "exchange_did_not_return_a_new_pair", [], [])
                 end
          else if memn j (m_used_rt m) && negb (p_tampered tok) then
            match auth with
            | Some a =>
                if client_has_grant m a "refresh_token" then
                  if String.eqb (o_err ob) "invalid_grant" then (None, [ci_family c], [])
                  else (Some "reuse_not_answered_invalid_grant", [], [])
                else (None, [], [])
            | None => (None, [], [])
            end
          else (None, [], [])
      | None => (None, [], [])
      end
  | _ => (None, [], [])
  end.

(* ------------------------------------------------------------------ C08 *)
Definition probe_active (pr : list (option payload)) (i : nat) : bool :=
  match nth_error pr i with Some (Some _) => true | _ => false end.

Definition judge_C08 : judge_t := fun m o ob pr =>
  match o with
  | ORevoke auth tok _ =>
      match auth with
      | None => if same_probes m pr then (None, [], []) else (Some "unauthenticated_revocation_changed_something", [], [])
      | Some a =>
          match cred m tok with
          | Some (i, c) =>
              let live := probe_active (m_prev m) i in
              if negb (Nat.eqb (ci_client c) a) then
                (* another client's token *)
                if negb (same_probes m pr) then (Some "foreign_revocation_changed_something", [], [])
                else if live && negb (String.eqb (o_err ob) "unauthorized_client") then (Some "foreign_revocation_not_refused", [], [])
                else if negb live && (memn i (m_used_rt m) || memn i (m_dead_creds m) || memn (ci_family c) (m_dead m))
                        && negb (String.eqb (o_err ob) "")
                     then (Some "already_invalid_token_not_answered_with_success", [], [])
                else (None, [], [])
              else if negb live && (memn i (m_used_rt m) || memn i (m_dead_creds m) || memn (ci_family c) (m_dead m))
                      && negb (String.eqb (o_err ob) "")
                   then (Some "already_invalid_token_not_answered_with_success", [], [])
              else if String.eqb (o_err ob) "" then
                if live then (None, [], i :: match ci_pair c with Some p => [p] | None => [] end)
                else if (memn i (m_used_rt m) || memn i (m_dead_creds m) || memn (ci_family c) (m_dead m))
                     then (if same_probes m pr then (None, [], []) else (Some "revocation_of_an_already_invalid_token_changed_something", [], []))
                (* a token that only stopped being reported active (it expired, or refresh-token introspection is off) is still
                   the owner's token: the accepted request retires it and the token issued alongside it *)
                else (None, [], i :: match ci_pair c with Some p => [p] | None => [] end)
              else (None, [], [])
          | None =>
              if negb (String.eqb (o_err ob) "") then (Some "unknown_token_not_answered_with_success", [], [])
              else if same_probes m pr then (None, [], []) else (Some "revocation_of_unknown_token_changed_something", [], [])
          end
      end
  | _ => (None, [], [])
  end.

(* ------------------------------------------------------------------ C03 *)
Definition judge_C03 (cfg : config) : judge_t := fun m o ob pr =>
  match o with
  | ORedeem auth code _ v vh _ =>
      match cred m code with
      | Some (i, c) =>
          if String.eqb (o_err ob) "" then
            if negb (String.eqb (ci_challenge c) "") then
              (* the authorization request carried a challenge: the verifier must be well-formed and match *)
              let wf := Nat.leb 43 (String.length v) && Nat.leb (String.length v) 128 && verifier_chars_ok v in
              let matches := if String.eqb (ci_method c) "S256" then String.eqb vh (ci_challenge c) else String.eqb v (ci_challenge c) in
              if wf && matches then (None, [], [])
              else if String.eqb v "" then (Some "code_with_challenge_redeemed_without_verifier", [], [])
              else (Some "code_with_challenge_redeemed_with_wrong_verifier", [], [])
            else
              if cf_pkce_enforce cfg then (Some "pkce_enforced_but_code_without_challenge_redeemed", [], [])
              else match nth_error (m_clients m) (ci_client c) with
                   | Some cl => if cf_pkce_enforce_public cfg && cl_public cl
                                then (Some "pkce_enforced_for_public_clients_but_code_without_challenge_redeemed", [], [])
                                else (None, [], [])
                   | None => (None, [], [])
                   end
          else (None, [], [])
      | None => (None, [], [])
      end
  | OAuthorize a =>
      (* the PKCE rules concern responses that carry a code; response_type=token has none *)
      if String.eqb (o_err ob) "" && negb (String.eqb (az_challenge a) "")
         && match az_rtype a with RToken => false | _ => true end then
        if String.eqb (az_method a) "S256" then (None, [], [])
        else if (String.eqb (az_method a) "plain" || String.eqb (az_method a) "") then
          if cf_pkce_plain cfg then (None, [], []) else (Some "plain_challenge_accepted_although_disabled", [], [])
        else (Some "unknown_challenge_method_accepted", [], [])
      else (None, [], [])
  | OTokenOther _ =>
      (* a grant_type that is not exactly a registered one reaches no handler: in particular not the code exchange without its PKCE check *)
      if String.eqb (o_err ob) "" then (Some "tokens_issued_for_a_grant_type_no_handler_is_registered_for", [], []) else (None, [], [])
  | _ => (None, [], [])
  end.

(* ------------------------------------------------------------------ C02 *)
Definition judge_C02 (cfg : config) : judge_t := fun m o ob pr =>
  match o with
  | ORedeem auth code redirect _ _ _ =>
      match cred m code with
      | Some (i, c) =>
          if String.eqb (o_err ob) "" then
            match auth with
            | Some a => if Nat.eqb a (ci_client c) then
                          (* the code's lifetime (the hybrid handler rounds the expiry to a whole second: half a second of slack) *)
                          if Z.ltb (ci_issued c + cf_life_code cfg + 500) (m_now m) then (Some "code_redeemed_after_its_expiry", [], [])
                          else if negb (String.eqb (ci_redirect c) "") && negb (String.eqb (ci_redirect c) redirect)
                               then (Some "code_redeemed_with_a_redirect_uri_that_differs_from_the_authorization_request", [], [])
                          else if list_eqb (o_scopes ob) (ci_scopes c) then (None, [], []) else (Some "token_response_scope_differs_from_grant", [], [])
                        else (Some "code_redeemed_by_foreign_client", [], [])
            | None => (Some "code_redeemed_without_client_authentication", [], [])
            end
          else if memn i (m_redeemed m) then (None, [], [])
          else if same_probes m pr then (None, [], []) else (Some "refused_redemption_changed_token_state", [], [])
      | None => (None, [], [])
      end
  | _ => (None, [], [])
  end.

(* every active probe reports the grant's client, subject, scopes and audience (used by C02, C05, C09) *)
Fixpoint payloads_ok_from (cs : list cinfo) (probes : list (option payload)) : bool :=
  match cs, probes with
  | c :: cs', p :: ps' =>
      match p with
      | Some pl => ckind_eqb (pl_use pl) (match ci_kind c with KImplicit => KAccess | k => k end) && Nat.eqb (pl_client pl) (ci_client c) && String.eqb (pl_subject pl) (ci_subject c)
                   && list_eqb (pl_scopes pl) (ci_scopes c) && list_eqb (pl_aud pl) (map a_raw (ci_aud c))
      | None => true
      end && payloads_ok_from cs' ps'
  | _, _ => true
  end.

Fixpoint payload_monitor_from (m : mstate) (steps : list (op * obs * list (option payload))) : option string :=
  match steps with
  | [] => None
  | (o, ob, pr) :: rest =>
      let m1 := track m o ob pr in
      if payloads_ok_from (m_creds m1) pr then payload_monitor_from m1 rest
      else Some "active_token_reported_with_foreign_client_subject_scope_or_audience"
  end.
Definition payload_monitor (c : hcase) : option string :=
  payload_monitor_from (m0 (case_clients c)) (impl_trace c).

(* ------------------------------------------------------------------ C05 *)
Definition judge_C05 (cfg : config) : judge_t := fun m o ob pr =>
  match o with
  | ORefresh auth tok _ =>
      match cred m tok with
      | Some (j, c) =>
          if String.eqb (o_err ob) "" then
            match auth with
            | Some a =>
                if negb (Nat.eqb a (ci_client c)) then (Some "refresh_token_honoured_for_foreign_client", [], [])
                else if negb (client_has_grant m a "refresh_token") then (Some "refresh_honoured_for_client_without_refresh_grant", [], [])
                else match nth_error (m_clients m) a with
                     | Some cl =>
                         if negb (forallb (scope_match (cf_scope cfg) (cl_scopes cl)) (ci_scopes c))
                         then (Some "refresh_honoured_although_client_lost_a_granted_scope", [], [])
                         else if negb (aud_ok cfg (cl_aud cl) (ci_aud c))
                         then (Some "refresh_honoured_although_client_lost_a_granted_audience", [], [])
                         else if negb (list_eqb (o_scopes ob) (ci_scopes c)) then (Some "refresh_changed_the_granted_scopes", [], [])
                         else (None, [], [])
                     | None => (None, [], [])
                     end
            | None => (Some "refresh_honoured_without_client_authentication", [], [])
            end
          else (None, [], [])
      | None => (None, [], [])
      end
  | ORedeem auth code _ _ _ _ =>
      match cred m code with
      | Some (i, c) =>
          if String.eqb (o_err ob) "" && existsb (fun k => ckind_eqb k KRefresh) (o_minted ob) then
            if negb (match cf_refresh_scopes cfg with [] => true | sc => args_has_one_of (ci_scopes c) sc end)
            then (Some "refresh_token_issued_without_a_refresh_scope", [], [])
            else if Nat.eqb (ci_decision c) 1 || match auth with Some a => client_has_grant m a "refresh_token" | None => false end
                 then (None, [], [])
                 else (Some "code_flow_issued_refresh_token_to_client_without_refresh_grant", [], [])
          else (None, [], [])
      | None => (None, [], [])
      end
  | ODevicePoll auth dev =>
      match cred m dev with
      | Some (i, c) =>
          if String.eqb (o_err ob) "" && existsb (fun k => ckind_eqb k KRefresh) (o_minted ob) then
            if negb (match cf_refresh_scopes cfg with [] => true | sc => args_has_one_of (ci_scopes c) sc end)
            then (Some "refresh_token_issued_without_a_refresh_scope", [], [])
            else match auth with
                 | Some a => if client_has_grant m a "refresh_token" then (None, [], [])
                             else (Some "device_flow_issued_refresh_token_to_client_without_refresh_grant", [], [])
                 | None => (None, [], [])
                 end
          else (None, [], [])
      | None => (None, [], [])
      end
  | _ => (None, [], [])
  end.

(* ------------------------------------------------------------------ C07: an active probe never carries a passed expiry *)
(* position of the first access token (from the token or the authorization endpoint) among the minted credentials *)
Fixpoint minted_access_pos (l : list ckind) : option nat :=
  match l with
  | [] => None
  | KAccess :: _ | KImplicit :: _ => Some 0
  | _ :: r => option_map S (minted_access_pos r)
  end.

(* an advertised expires_in (whole seconds) lies within one second of the expiry the token's introspection reports *)
Definition advertised_ok (t : Z) (nprev : nat) (ob : obs) (pr : list (option payload)) : bool :=
  if String.eqb (o_err ob) "" then
    match minted_access_pos (o_minted ob) with
    | Some j =>
        match nth_error pr (nprev + j) with
        | Some (Some pl) =>
            match pl_exp pl with
            | Some e => Z.ltb (Z.abs (o_expires_in ob * 1000 - (e - t))) 1000
            | None => true
            end
        | _ => true
        end
    | None => true
    end
  else true.

(* [jwt]: the history ran with JWT access tokens. Their validation compares whole seconds (token/jwt verifyExp: now <= exp),
   so an access token is honoured during the second that starts at its expiry instant: a recorded finding with its own tag;
   anything later, or any other credential, gets the general tag *)
Definition probe_unexpired (t : Z) (p : option payload) : bool :=
  match p with Some pl => match pl_exp pl with Some e => Z.leb t e | None => true end | None => true end.
Definition probe_unexpired_jwt (t : Z) (p : option payload) : bool :=
  match p with
  | Some pl => match pl_exp pl with
               | Some e => Z.leb t e || (ckind_eqb (pl_use pl) KAccess && Z.ltb (t - e) 1000)
               | None => true end
  | None => true
  end.

(* which (client, grant) table entry the tokens minted by an operation must follow *)
Definition minting_grant (o : op) : option (nat * lgrant) :=
  match o with
  | ORedeem (Some c) _ _ _ _ _ => Some (c, LAuthCode)
  | ORefresh (Some c) _ _ => Some (c, LRefresh)
  | OPassword (Some c) _ _ _ _ _ => Some (c, LPassword)
  | OClientCreds (Some c) _ _ _ _ => Some (c, LClientCreds)
  | OAuthorize a => Some (az_client a, LImplicit)
  | ODevicePoll (Some c) _ => Some (c, LDevice)
  | _ => None
  end.
Fixpoint minted_refresh_pos (l : list ckind) : option nat :=
  match l with [] => None | KRefresh :: _ => Some 0 | _ :: r => option_map S (minted_refresh_pos r) end.

(* the expiry an introspection reports for a freshly minted token lies within half a second (rounding to whole
   seconds) of now + the client's override for exactly this grant and token type, else the server's default *)
Definition life_ok (jwt : bool) (cfg : config) (cls : list client) (t : Z) (nprev : nat) (o : op) (ob : obs) (pr : list (option payload)) : bool :=
  if String.eqb (o_err ob) "" then
    match minting_grant o with
    | Some (c, g) =>
        match nth_error cls c with
        | Some cl =>
            let near (pos : option nat) (life : Z) :=
              match pos with
              | Some j => if Z.ltb life 0 then true   (* "unlimited": the handler leaves whatever expiry the session already carries *)
                          else match nth_error pr (nprev + j) with
                          | Some (Some pl) => match pl_exp pl with
                                              | Some e => Z.leb (Z.abs (e - (t + life))) (if jwt then 999 else 500)   (* a JWT's exp claim is cut to whole seconds *)
                                              | None => Z.ltb life 0
                                              end
                          | _ => true
                          end
              | None => true
              end in
            near (minted_access_pos (o_minted ob)) (eff (override cl g false) (cf_life_at cfg)) &&
            near (minted_refresh_pos (o_minted ob)) (eff (override cl g true) (cf_life_rt cfg))
        | None => true
        end
    | None => true
    end
  else true.

Fixpoint clock_from (jwt : bool) (cfg : config) (cls : list client) (t : Z) (nprev : nat) (steps : list (op * obs * list (option payload))) : option string :=
  match steps with
  | [] => None
  | (o, ob, pr) :: rest =>
      let t' := match o with OAdvance ms => (t + ms)%Z | _ => t end in
      let cls' := match o with OSetClient id c => replace_nth cls id c | _ => cls end in
      if forallb (probe_unexpired t') pr
      then
        if negb (advertised_ok t' nprev ob pr) then Some "advertised_expires_in_differs_from_the_honoured_expiry"
        else if negb (life_ok jwt cfg cls t' nprev o ob pr) then Some "token_lifetime_differs_from_the_effective_lifespan_of_its_grant"
        else clock_from jwt cfg cls' t' (List.length pr) rest
      else if jwt && forallb (probe_unexpired_jwt t') pr then Some "jwt_access_token_honoured_within_the_second_after_its_expiry"
      else Some "token_reported_active_after_its_expiry"
  end.
Definition monitor_C07 (c : hcase) : option string := clock_from (is_jwt_case c) (case_cfg c) (case_clients c) 0%Z 0 (impl_trace c).

(* ------------------------------------------------------------------ C16 *)
Definition judge_C16 (cfg : config) (contract : bool) : judge_t := fun m o ob pr =>
  match o with
  | ODevicePoll auth dev =>
      match cred m dev with
      | Some (i, c) =>
          (* the expiry is the rounded instant stamped at the device endpoint, or - when the application replaced the session at
             the decision - requested_at + lifespan: a verdict is demanded only where both readings agree *)
          let e1 := Z.ltb (round_s (ci_issued c + cf_life_dev cfg)) (m_now m) in
          let e2 := Z.ltb (ci_issued c + cf_life_dev cfg) (m_now m) in
          let expired_ := e1 && e2 in
          let alive_ := negb e1 && negb e2 in
          let owner_ := match auth with Some a => Nat.eqb a (ci_client c) | None => false end in
          let granted_ := match auth with Some a => client_has_grant m a "urn:ietf:params:oauth:grant-type:device_code" | None => false end in
          if String.eqb (o_err ob) "" then
            if memn i (m_redeemed m) then (Some "device_code_yielded_tokens_twice", [], [])
            else if negb (Nat.eqb (ci_decision c) 1) then (Some "tokens_issued_without_approval", [], [])
            else if negb owner_ then (Some "tokens_issued_to_a_client_that_did_not_start_the_flow", [], [])
            else if expired_ then (Some "tokens_issued_after_device_code_expiry", [], [])
            else if p_tampered dev then (Some "tampered_device_code_accepted", [], [])
            else if list_eqb (o_scopes ob) (ci_scopes c) then (None, [], []) else (Some "device_tokens_scope_differs_from_decision", [], [])
          else if contract && granted_ && negb (p_tampered dev) && memn i (m_redeemed m) then
            (* the store reports the device code as already used: the tokens issued from it are revoked *)
            if String.eqb (o_err ob) "invalid_grant" then (None, [ci_family c], []) else (Some "replayed_device_code_not_answered_invalid_grant", [], [])
          else if granted_ && negb (p_tampered dev) && negb (memn i (m_redeemed m)) then
            (* the listed verdict is required when only its condition applies *)
            if owner_ && alive_ && Nat.eqb (ci_decision c) 0 && negb (String.eqb (o_err ob) "authorization_pending")
            then (Some "undecided_poll_not_answered_authorization_pending", [], [])
            else if owner_ && alive_ && Nat.eqb (ci_decision c) 2 && negb (String.eqb (o_err ob) "access_denied")
            then (Some "denied_poll_not_answered_access_denied", [], [])
            else if owner_ && expired_ && Nat.eqb (ci_decision c) 1 && negb (String.eqb (o_err ob) "expired_token")
            then (Some "expired_poll_not_answered_expired_token", [], [])
            else if negb owner_ && alive_ && Nat.eqb (ci_decision c) 1 && negb (String.eqb (o_err ob) "invalid_grant")
            then (Some "foreign_poll_not_answered_invalid_grant", [], [])
            else (None, [], [])
          else (None, [], [])
      | None => if String.eqb (o_err ob) "" then (Some "unknown_device_code_yielded_tokens", [], []) else (None, [], [])
      end
  | _ => (None, [], [])
  end.

(* ------------------------------------------------------------------ C17 *)
Definition judge_C17 (cfg : config) : judge_t := fun m o ob pr =>
  match o with
  | OPush auth bc ru _ =>
      if String.eqb (o_err ob) "" then
        match auth, bc with
        | None, _ => (Some "push_accepted_without_client_authentication", [], [])
        | Some a, Some b => if Nat.eqb a b then (if ru then (Some "push_containing_request_uri_accepted", [], []) else (None, [], []))
                            else (Some "push_processed_in_the_name_of_another_client", [], [])
        | Some _, None => if ru then (Some "push_containing_request_uri_accepted", [], []) else (None, [], [])
        end
      else (None, [], [])
  | OAuthorizePAR cp uri a =>
      if String.eqb (o_err ob) "" then
        match cred m uri with
        | Some (i, c) =>
            if memn i (m_redeemed m) then (Some "request_uri_started_a_second_authorization", [], [])
            else if negb (Nat.eqb cp (ci_client c)) then (Some "request_uri_used_by_another_client", [], [])
            else if Z.ltb (ci_issued c + cf_par_life cfg) (m_now m) then (Some "request_uri_honoured_after_expiry", [], [])
            else if negb (list_eqb (o_scopes ob) (if String.eqb (ci_subject c) "" || String.eqb (ci_subject c) "query" then [] else [ci_subject c]))
                 then (Some "authorization_did_not_proceed_with_the_pushed_response_mode_and_state", [], [])
            else (None, [], [])
        | None => (Some "unknown_request_uri_started_an_authorization", [], [])
        end
      else (None, [], [])
  | OAuthorize _ =>
      if String.eqb (o_err ob) "" && cf_par_enforced cfg then (Some "authorization_without_request_uri_although_pushing_is_enforced", [], [])
      else (None, [], [])
  | _ => (None, [], [])
  end.

(* ------------------------------------------------------------------ C09: an "active" answer needs a live, untampered, server-minted
   credential whose grant covers the required scopes; the endpoint answers authenticated callers only *)
Definition active_answer_ok (cfg : config) (m : mstate) (tok : pres) (scopes : list string) : option string :=
  match cred m tok with
  | None => Some "unknown_token_reported_active"
  | Some (i, c) =>
      if p_tampered tok then Some "tampered_token_reported_active"
      else if negb (probe_active (m_prev m) i) then Some "token_that_probes_inactive_reported_active"
      else if negb (match_scopes cfg (ci_scopes c) scopes) then Some "token_reported_active_although_a_required_scope_was_not_granted"
      else if ckind_eqb (ci_kind c) KRefresh && negb (cf_introspect_rt cfg) then Some "refresh_token_reported_active_although_refresh_token_introspection_is_disabled"
      else None
  end.
(* the kind an active answer reports is the credential's real kind *)
Definition reported_use_ok (m : mstate) (tok : pres) (ob : obs) : option string :=
  match cred m tok with
  | Some (i, c) => if list_eqb (o_scopes ob) [use_name (ci_kind c)] then None else Some "active_token_reported_with_the_wrong_token_use"
  | None => None
  end.

(* with refresh-token introspection disabled no refresh token is ever reported active, under any hint *)
Definition rt_silent (cfg : config) (pr : list (option payload)) : bool :=
  cf_introspect_rt cfg || forallb (fun p => match p with Some pl => negb (ckind_eqb (pl_use pl) KRefresh) | None => true end) pr.

Definition judge_C09 (cfg : config) : judge_t := fun m o ob pr =>
  if negb (rt_silent cfg pr) then (Some "refresh_token_reported_active_although_refresh_token_introspection_is_disabled", [], []) else
  match o with
  | OIntrospect tok _ scopes =>
      if String.eqb (o_err ob) "" then (first_some (active_answer_ok cfg m tok scopes) (reported_use_ok m tok ob), [], []) else (None, [], [])
  | OIntrospectEP cal tok _ scopes =>
      let answered := negb (String.eqb (o_err ob) "request_unauthorized") in
      let caller_fine :=
        match cal with
        | CallerClient (Some c) => match nth_error (m_clients m) c with Some _ => true | None => false end
        | CallerClient None => false
        | CallerBearer ct =>
            negb (pres_eqb ct tok) && negb (p_tampered ct) &&
            match cred m ct with
            | Some (j, cc) => probe_active (m_prev m) j && match ci_kind cc with KAccess | KImplicit => true | _ => false end
            | None => false
            end
        end in
      if answered && negb caller_fine then (Some "introspection_endpoint_answered_a_caller_without_valid_credentials", [], [])
      else if String.eqb (o_err ob) "" then (first_some (active_answer_ok cfg m tok scopes) (reported_use_ok m tok ob), [], [])
      else (None, [], [])
  | _ => (None, [], [])
  end.

(* ------------------------------------------------------------------ C12 (flows): an accepted request is covered by the
   registration of the client it was made for, under the configured strategies *)
Definition judge_C12 (cfg : config) : judge_t := fun m o ob pr =>
  match request_of o with
  | Some (c, sc, au) =>
      if String.eqb (o_err ob) "" then
        match nth_error (m_clients m) c with
        | Some cl =>
            if negb (scopes_ok cfg cl sc) then (Some "request_accepted_with_a_scope_the_registration_does_not_cover", [], [])
            else if negb (aud_ok cfg (cl_aud cl) au) then (Some "request_accepted_with_an_audience_the_registration_does_not_cover", [], [])
            else (None, [], [])
        | None => (Some "request_accepted_for_an_unregistered_client", [], [])
        end
      else (None, [], [])
  | None =>
      match o with
      | ORefresh (Some a) tok _ =>
          match cred m tok with
          | Some (i, c) =>
              if String.eqb (o_err ob) "" then
                match nth_error (m_clients m) a with
                | Some cl =>
                    if negb (scopes_ok cfg cl (ci_scopes c)) then (Some "refresh_honoured_although_client_lost_a_granted_scope", [], [])
                    else if negb (list_eqb (o_scopes ob) (ci_scopes c)) then (Some "refresh_changed_the_granted_scopes", [], [])
                    else (None, [], [])
                | None => (None, [], [])
                end
              else (None, [], [])
          | None => (None, [], [])
          end
      | _ => (None, [], [])
      end
  end.

(* ------------------------------------------------------------------ checks *)
Definition check_with (mon : hcase -> option string) (c : hcase) : verdict := V (hist_corr c) (mon c).

Definition check_C01 := check_with (monitor judge_C01).
Definition check_C02 := check_with (fun c => first_some (monitor (judge_C02 (case_cfg c)) c) (payload_monitor c)).
Definition check_C12H := check_with (fun c => first_some (monitor (judge_C12 (case_cfg c)) c) (payload_monitor c)).
Definition check_C03 := check_with (fun c => monitor (judge_C03 (case_cfg c)) c).
Definition check_C04 := check_with (monitor judge_C04).
Definition check_C05 := check_with (fun c => first_some (monitor (judge_C05 (case_cfg c)) c) (payload_monitor c)).
Definition check_C07 := check_with monitor_C07.
Definition check_C08 := check_with (monitor judge_C08).
(* C09 also reads the clock: "active exactly when ... it has not expired" (the expiry clauses of the C07 monitor) *)
Definition check_C09 := check_with (fun c => first_some (first_some (monitor (judge_C09 (case_cfg c)) c) (payload_monitor c)) (monitor_C07 c)).
Definition check_C16 := check_with (fun c => first_some (monitor (judge_C16 (case_cfg c) (is_contract_case c)) c) (payload_monitor c)).
Definition check_C17 := check_with (fun c => first_some (monitor (judge_C17 (case_cfg c)) c) (monitor (judge_C03 (case_cfg c)) c)).
