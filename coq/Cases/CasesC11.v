(* C11 cases: inputs (URI records computed by Go's standard library), the implementation's observed
   result, an executable form of the property (written from the property text, not from the model's
   loops) and [check].
     corr = None  iff the model (Model/Redirect.v) reproduces the implementation's observation
     mon  = None  iff the executable specification accepts the implementation's observation
   The monitor is one-directional, as the property is: it objects to redirects that the text forbids,
   not to refusals.  Proofs/MonitorC11.v proves  corr = None -> mon = None  for every case. *)
From FositeModel Require Export Cases.Common Model.Redirect.

(* ---------------------------------------------------------------- observations *)

(* the URL returned by MatchRedirectURIWithClientRedirectURIs, described by Go:
   String(), govalidator.IsRequestURL(String()), Fragment *)
Record rres := RR { rr_str : string; rr_requrl : bool; rr_frag : string }.

(* what was written to the http.ResponseWriter, split lexically by the harness:
   Location = base ["?" rawq] ["#" fragment]; qp / fp = url.ParseQuery of the two parts, flattened *)
Inductive wobs :=
| ORedirect (base : string) (hasq : bool) (rawq : string) (qp : pairs) (hasf : bool) (fp : pairs)
| OForm (action : string) (inputs : pairs)     (* form_post document: action URL and hidden inputs *)
| ODirect                                      (* JSON error document, no Location header *)
| OOther                                       (* anything else without a Location header / form *)
| OPanic.

Inductive c11case :=
| KMatch (req : purl) (regs : list purl) (impl : option rres)
| KValid (u : purl) (impl : bool)
| KSecure (u : purl) (secure strict localhost : bool)
| KReqValid (ru : option purl) (client : option (list purl)) (impl : bool)
| KWErr (ar : ar_state) (params : pairs) (o : wobs)
| KE2E (e : e2e) (params : pairs) (impl_err : bool) (o : wobs)
| KPar (e : e2e) (accepted : bool) (follow : option (pairs * bool * wobs)).

(* ---------------------------------------------------------------- multisets of pairs *)

Definition pair_eqb (a b : string * string) : bool :=
  String.eqb (fst a) (fst b) && String.eqb (snd a) (snd b).

Fixpoint remove1 (x : string * string) (l : pairs) : option pairs :=
  match l with
  | [] => None
  | y :: r => if pair_eqb x y then Some r
              else match remove1 x r with Some r' => Some (y :: r') | None => None end
  end.

Fixpoint perm_b (a b : pairs) : bool :=
  match a with
  | [] => match b with [] => true | _ => false end
  | x :: r => match remove1 x b with Some b' => perm_b r b' | None => false end
  end.

Definition has_key (k : string) (p : pairs) : bool := existsb (fun kv => String.eqb (fst kv) k) p.
(* the pairs whose key is not a key of the response parameters *)
Definition strip (params p : pairs) : pairs := filter (fun kv => negb (has_key (fst kv) params)) p.
Definition keys_within (p params : pairs) : bool := forallb (fun kv => has_key (fst kv) params) p.

(* ---------------------------------------------------------------- correspondence *)

Definition qspec_match (q : qspec) (rawq : string) (qp : pairs) : bool :=
  match q with QVerbatim r => String.eqb r rawq | QPairs p => perm_b p qp end.
Definition fspec_match (f : fspec) (hasf : bool) (fp : pairs) : bool :=
  match f with FrNone => negb hasf | FrParams p => hasf && perm_b p fp | FrOwn => hasf end.

Definition wmatch (m : mresp) (o : wobs) : bool :=
  match m, o with
  | MRedirect b hq q f, ORedirect b' hq' rq' qp' hf' fp' =>
      String.eqb b b' && Bool.eqb hq hq' && qspec_match q rq' qp' && fspec_match f hf' fp'
  | MForm a i, OForm a' i' => String.eqb a a' && perm_b i i'
  | MDirect, ODirect => true
  | MPanic, OPanic => true
  | _, _ => false
  end.

Definition rres_match (m : option purl) (o : option rres) : bool :=
  match m, o with
  | None, None => true
  | Some u, Some r => String.eqb (u_str u) (rr_str r) && Bool.eqb (u_requrl u) (rr_requrl r) && String.eqb (u_frag u) (rr_frag r)
  | _, _ => false
  end.

(* the one modelled piece of net/url: String() = base ["?" RawQuery] when there is no fragment *)
Definition str_model_ok (u : purl) : bool :=
  if u_ok u && String.eqb (u_frag u) "" then String.eqb (u_str u) (url_string_nofrag u) else true.
Definition strs_ok (l : list purl) : bool := forallb str_model_ok l.
Definition opt_list {A} (o : option A) : list A := match o with Some x => [x] | None => [] end.
Definition opt_regs (o : option (list purl)) : list purl := match o with Some l => l | None => [] end.

Definition corr_of (same strs : bool) : option string :=
  if negb strs then Some "URL.String() tail model differs from Go"
  else if same then None else Some "model and implementation differ".

(* ---------------------------------------------------------------- executable specification *)

Definition is_some {A} (o : option A) : bool := match o with Some _ => true | None => false end.
Definition is_none {A} (o : option A) : bool := match o with Some _ => false | None => true end.

(* RFC 8252 7.3 as the property words it: an http URI on a loopback IP literal whose host, path and
   query equal those of a registered URI (any port) *)
Definition loopback_rule_b (req b : purl) : bool :=
  u_ok b && String.eqb (u_scheme req) "http" && u_loop req
  && String.eqb (u_hostname b) (u_hostname req)
  && String.eqb (u_path b) (u_path req)
  && String.eqb (u_rawq b) (u_rawq req).

Definition registered_b (req : purl) (regs : list purl) : bool :=
  existsb (fun b => String.eqb (u_raw b) (u_raw req) || loopback_rule_b req b) regs.

(* parses, is absolute, has no fragment *)
Definition well_formed_b (u : purl) : bool := u_ok u && u_requrl u && String.eqb (u_frag u) "".

Definition qualifies_b (req : purl) (regs : list purl) : bool :=
  negb (String.eqb (u_raw req) "") && u_ok req && registered_b req regs && well_formed_b req.

(* the URIs the endpoint may redirect to for this request: the requested one when it qualifies (or
   a registered one, being string-identical to itself); without a redirect_uri the only registered
   one; otherwise none *)
Definition candidates (req : purl) (regs : list purl) : list purl :=
  if String.eqb (u_raw req) "" then
    match regs with
    | [b] => if well_formed_b b then [b] else []
    | _ => []
    end
  else if qualifies_b req regs then req :: filter well_formed_b regs
  else [].

Definition why_none (req : purl) (regs : list purl) : string :=
  if String.eqb (u_raw req) "" then
    match regs with
    | [b] => if negb (u_ok b && u_requrl b) then "missing_redirect_uri_and_registered_one_not_absolute"
             else "missing_redirect_uri_and_registered_one_has_fragment"
    | _ => "missing_redirect_uri_without_single_registered"
    end
  else if negb (u_ok req && registered_b req regs) then "unregistered"
  else if negb (u_requrl req) then "not_absolute"
  else "fragment".

Fixpoint srev_acc (s acc : string) : string :=
  match s with EmptyString => acc | String c r => srev_acc r (String c acc) end.
Definition srev (s : string) : string := srev_acc s "".

(* loopback/localhost hosts: "localhost", a name ending in ".localhost", or a loopback IP literal *)
Definition localhost_b (u : purl) : bool :=
  String.eqb (u_hostname u) "localhost"
  || has_prefix (srev ".localhost") (srev (u_hostname u))
  || u_loop u.

(* html/template refuses URLs whose scheme is not http, https or mailto and writes "#ZgotmplZ" instead:
   the form_post document then posts the response to the authorization server's own URL *)
Definition zgot_tag : string := "form_post:action_replaced_by_html_template".

(* does the written target denote candidate c with nothing of its own added or lost?
   None = yes *)
Definition target_check (c : purl) (params : pairs) (o : wobs) : option string :=
  match o with
  | ORedirect base hq rq qp hf fp =>
      if negb (String.eqb base (u_base c)) then Some "wrong_target"
      else if negb (String.eqb rq (u_rawq c) || perm_b (strip params qp) (strip params (u_q c))) then Some "query_altered"
      else if hf && negb (keys_within fp params) then Some "fragment_of_its_own"
      else None
  | OForm action _ =>
      if String.eqb action (url_string_nofrag c) then None
      else if String.eqb action "#ZgotmplZ" then Some zgot_tag
      else if String.eqb action (form_action c) then None   (* html/template's attribute escaping of the same URL *)
      else Some "wrong_target"
  | _ => None
  end.

Definition tag (pre t : string) : string := if String.eqb t zgot_tag then t else pre ++ t.

Definition redirects (o : wobs) : bool :=
  match o with ORedirect _ _ _ _ _ _ => true | OForm _ _ => true | _ => false end.
Definition is_direct (o : wobs) : bool := match o with ODirect => true | _ => false end.

Fixpoint first_target_check (cs : list purl) (params : pairs) (o : wobs) (first : option string) : option string :=
  match cs with
  | [] => first
  | c :: r => match target_check c params o with
              | None => None
              | Some t => first_target_check r params o (match first with None => Some t | f => f end)
              end
  end.

(* a written response against the request it answers *)
Definition mon_written (pre : string) (req : purl) (regs : list purl) (params : pairs) (o : wobs) : option string :=
  if negb (redirects o) then None
  else match candidates req regs with
       | [] => Some (pre ++ why_none req regs)
       | cs => match first_target_check cs params o None with
               | None => None
               | Some t => Some (tag pre t)
               end
       end.

(* code issuance over plain http only for loopback/localhost hosts (default checker), https or
   local http (strict checker) *)
Definition transport_ok (ck : checker) (c : purl) : bool :=
  match ck with
  | CkDefault => negb (String.eqb (u_scheme c) "http") || localhost_b c
  | CkStrict => String.eqb (u_scheme c) "https" || (String.eqb (u_scheme c) "http" && localhost_b c)
  | CkAny => true
  end.

Definition mon_match (req : purl) (regs : list purl) (impl : option rres) : option string :=
  match impl with
  | None => None
  | Some r =>
      match candidates req regs with
      | [] => Some ("match:" ++ why_none req regs)
      | cs =>
          if negb (existsb (fun c => String.eqb (u_str c) (rr_str r)) cs) then Some "match:wrong_target"
          else if negb (rr_requrl r) then Some "match:not_absolute"
          else if negb (String.eqb (rr_frag r) "") then Some "match:fragment"
          else None
      end
  end.

Definition mon_valid (u : purl) (impl : bool) : option string :=
  if impl && negb (u_requrl u) then Some "valid:not_absolute"
  else if impl && negb (String.eqb (u_frag u) "") then Some "valid:fragment"
  else None.

Definition mon_secure (u : purl) (secure strict localhost : bool) : option string :=
  if localhost && negb (localhost_b u) then Some "secure:localhost_too_wide"
  else if secure && negb (transport_ok CkDefault u) then Some "secure:http_non_local"
  else if strict && negb (transport_ok CkStrict u) then Some "secure:strict_too_wide"
  else None.

Definition mon_reqvalid (ru : option purl) (client : option (list purl)) (impl : bool) : option string :=
  if negb impl then None
  else match ru, client with
       | Some u, Some regs => if nonempty (candidates (u_re u) regs) then None else Some ("reqvalid:" ++ why_none (u_re u) regs)
       | _, _ => Some "reqvalid:no_uri_or_client"
       end.

(* the error writer on an arbitrary requester state: a redirect must target the state's own URI,
   and that URI (as the string it serialises to) must qualify *)
Definition state_qualifies (ar : ar_state) : bool :=
  match ar_redirect ar, ar_client ar with
  | Some u, Some regs => nonempty (candidates (u_re u) regs)
  | _, _ => false
  end.

Definition mon_werr (ar : ar_state) (params : pairs) (o : wobs) : option string :=
  if negb (redirects o) then
    (* "the error is rendered to the user agent directly" *)
    if negb (is_direct o) && negb (state_qualifies ar) then Some "werr:error_not_rendered_directly" else None
  else match ar_redirect ar, ar_client ar with
       | Some u, Some regs =>
           if String.eqb (u_raw (u_re u)) "" then Some "werr:empty_redirect_uri"   (* u.String() is empty *)
           else if negb (qualifies_b (u_re u) regs) then Some ("werr:" ++ why_none (u_re u) regs)
           else match target_check u params o with
                | None => None
                | Some t => Some (tag "werr:" t)
                end
       | _, _ => Some "werr:no_uri_or_client"
       end.

Definition head_transport_ok (ck : checker) (cs : list purl) : bool :=
  match cs with c :: _ => transport_ok ck c | [] => true end.

Definition mon_e2e (e : e2e) (params : pairs) (impl_err : bool) (o : wobs) : option string :=
  match mon_written "e2e:" (e_req e) (opt_regs (e_client e)) params o with
  | Some t => Some t
  | None =>
      if negb (redirects o) && negb (is_direct o) && negb (nonempty (candidates (e_req e) (opt_regs (e_client e))))
      then Some "e2e:error_not_rendered_directly" else
      (* a successful code response: the URI answered (the requested one, or the only registered
         one) must satisfy the transport rule *)
      if redirects o && negb impl_err && match e_rtype e with RCode => true | RToken => false end
         && negb (head_transport_ok (e_checker e) (candidates (e_req e) (opt_regs (e_client e))))
      then Some "e2e:code_over_insecure_http"
      else None
  end.

Definition mon_par (e : e2e) (accepted : bool) (follow : option (pairs * bool * wobs)) : option string :=
  if negb accepted then None
  else
    let cs := candidates (e_req e) (opt_regs (e_client e)) in
    match cs with
    | [] => Some ("par:" ++ why_none (e_req e) (opt_regs (e_client e)))
    | c :: _ =>
        (* the URI that was pushed is the requested one (or the only registered one) *)
        if negb (transport_ok (e_checker e) c) then Some "par:insecure_http_accepted"
        else match follow with
             | None => None
             | Some (params, ferr, o) => mon_written "par-follow:" (e_req e) (opt_regs (e_client e)) params o
             end
    end.

(* ---------------------------------------------------------------- check *)

Definition check (c : c11case) : verdict :=
  match c with
  | KMatch req regs impl =>
      V (corr_of (rres_match (match_redirect req regs) impl) (strs_ok (req :: regs)))
        (mon_match req regs impl)
  | KValid u impl =>
      V (corr_of (Bool.eqb (is_valid_redirect_uri u) impl) (str_model_ok u))
        (mon_valid u impl)
  | KSecure u secure strict localhost =>
      V (corr_of (Bool.eqb (is_redirect_uri_secure u) secure
                  && Bool.eqb (is_redirect_uri_secure_strict u) strict
                  && Bool.eqb (is_localhost u) localhost) true)
        (mon_secure u secure strict localhost)
  | KReqValid ru client impl =>
      V (corr_of (Bool.eqb (is_redirect_uri_valid ru client) impl) (strs_ok (opt_list ru ++ opt_regs client)))
        (mon_reqvalid ru client impl)
  | KWErr ar params o =>
      V (corr_of (wmatch (write_authorize_error ar params) o) (strs_ok (opt_list (ar_redirect ar) ++ opt_regs (ar_client ar))))
        (mon_werr ar params o)
  | KE2E e params impl_err o =>
      let (merr, m) := authorize_endpoint e params in
      V (corr_of (Bool.eqb merr impl_err && wmatch m o) (strs_ok (e_req e :: opt_regs (e_client e))))
        (mon_e2e e params impl_err o)
  | KPar e accepted follow =>
      V (corr_of (match pushed_authorize e, accepted, follow with
                  | None, false, None => true
                  | Some ar, true, None => true
                  | Some ar, true, Some (params, ferr, o) =>
                      let (merr, m) := authorize_from_par e ar params in
                      Bool.eqb merr ferr && wmatch m o
                  | _, _, _ => false
                  end) (strs_ok (e_req e :: opt_regs (e_client e))))
        (mon_par e accepted follow)
  end.
