(* C19 cases.  The lock table [ms] is produced by the translator (harness/c19_translate.go) from
   storage/*.go of the tree under test and is defined once per generated file.

   Static cases: one per syntactic element of the table (method x table accessed, method x mutex
   acquired, method), so that every broken element yields its own tag:
       unguarded:<method>:<table>    reacquire:<method>:<mutex>
       lockorder:<method>:<held>><acquired>    calls:<method>:<what>    duplicate-method
       held-at-return:<method>:<mutex>   unlock-not-held:<method>:<mutex>   deferred-unlock-not-held:<method>
   Dynamic cases: a pair of store methods hammered from goroutines under the race detector;
   [raced] is what the detector reported, [in_store] whether both racing accesses are inside
   methods of the store (storage/memory.go). *)
From FositeModel Require Export Cases.Common Model.ConcStore Model.Locks.

Fixpoint first_some {A} (f : A -> option string) (l : list A) : option string :=
  match l with
  | [] => None
  | x :: r => match f x with Some t => Some t | None => first_some f r end
  end.

(* first tag among the facts selected by [sel] *)
Definition find_tag (sel : fact -> bool) (ms : list method) : option string :=
  let fs := all_facts ms in
  let G := infer_guards fs in
  let rk := infer_ranks fs in
  first_some (fun f => if sel f then fact_tag G rk f else None) fs.

Definition sel_access (meth tbl : string) (f : fact) : bool :=
  match f with FAcc me t _ _ => String.eqb me meth && String.eqb t tbl | _ => false end.
Definition sel_acquire (meth m : string) (f : fact) : bool :=
  match f with FAcq me x _ _ => String.eqb me meth && String.eqb x m | _ => false end.
Definition sel_calls (meth : string) (f : fact) : bool :=
  match f with FErr me _ => String.eqb me meth | _ => false end.
(* return points and explicit unlocks of a method: is everything the method locked released? *)
Definition sel_return (meth : string) (f : fact) : bool :=
  match f with FRet me _ _ | FRel me _ _ => String.eqb me meth | _ => false end.

(* ------------------------------------------------------------------ schedule cases
   Two or three API operations run on the real provider over one MemoryStore; the harness lets
   exactly one storage call proceed at a time, in a chosen order.  [log] is that order: thread,
   call, what the store answered.  [digest] is the content of the store afterwards, [minted] the
   credentials the operations handed to their callers with their liveness afterwards (asked
   through the provider's introspection), [panics] the number of operations that panicked. *)
Definition entry := (nat * scall * cres)%type.

Definition cres_eqb (a b : cres) : bool :=
  match a, b with
  | K, K | NF, NF | Unk, Unk => true
  | Rq x, Rq y | Ina x, Ina y | Ivd x, Ivd y => Nat.eqb x y
  | _, _ => false
  end.

Definition call_name (c : scall) : string :=
  match c with
  | GCl _ => "GetClient" | CCo _ _ => "CreateAuthorizeCodeSession" | GCo _ => "GetAuthorizeCodeSession"
  | ICo _ => "InvalidateAuthorizeCodeSession" | CPk _ _ => "CreatePKCERequestSession" | GPk _ => "GetPKCERequestSession"
  | DPk _ => "DeletePKCERequestSession" | COi _ _ => "CreateOpenIDConnectSession" | GOi _ => "GetOpenIDConnectSession"
  | DOi _ => "DeleteOpenIDConnectSession" | CAt _ _ => "CreateAccessTokenSession" | GAt _ => "GetAccessTokenSession"
  | DAt _ => "DeleteAccessTokenSession" | CRt _ _ _ => "CreateRefreshTokenSession" | GRt _ => "GetRefreshTokenSession"
  | DRt _ => "DeleteRefreshTokenSession" | VRt _ => "RevokeRefreshToken" | VAt _ => "RevokeAccessToken"
  | Rot _ _ => "RotateRefreshToken" | CPa _ _ => "CreatePARSession" | GPa _ => "GetPARSession" | DPa _ => "DeletePARSession"
  | CDv _ _ _ => "CreateDeviceAuthSession" | GDv _ => "GetDeviceCodeSession" | IDv _ => "InvalidateDeviceCodeSession"
  | Oth n => n
  end.

(* correspondence: every answer of the store is the answer of the sequential model at that point *)
Fixpoint replay_check (clients : list nat) (s : cstore) (log : list entry) (i : nat) : cstore * option string :=
  match log with
  | [] => (s, None)
  | (_, c, res) :: r =>
      let (s', res') := sstep clients s c in
      if match c with Oth _ => true | _ => cres_eqb res' res end
      then replay_check clients s' r (S i)
      else (s', Some ("storage call " ++ nat_str i ++ " " ++ call_name c))
  end.

Fixpoint tab_eqb {A} (e : A -> A -> bool) (a b : tab A) : bool :=
  match a, b with
  | [], [] => true
  | (k, v) :: a', (k', v') :: b' => Nat.eqb k k' && e v v' && tab_eqb e a' b'
  | _, _ => false
  end.
Definition bn_eqb (x y : bool * nat) : bool := Bool.eqb (fst x) (fst y) && Nat.eqb (snd x) (snd y).
Definition nn_eqb (x y : nat * nat) : bool := Nat.eqb (fst x) (fst y) && Nat.eqb (snd x) (snd y).
Definition cstore_eqb (a b : cstore) : bool :=
  tab_eqb bn_eqb (c_codes a) (c_codes b) && tab_eqb Nat.eqb (c_at a) (c_at b) && tab_eqb bn_eqb (c_rt a) (c_rt b)
  && tab_eqb Nat.eqb (c_atidx a) (c_atidx b) && tab_eqb Nat.eqb (c_rtidx a) (c_rtidx b)
  && tab_eqb Nat.eqb (c_pkce a) (c_pkce b) && tab_eqb Nat.eqb (c_oidc a) (c_oidc b) && tab_eqb Nat.eqb (c_par a) (c_par b)
  && tab_eqb Nat.eqb (c_dev a) (c_dev b) && tab_eqb nn_eqb (c_devidx a) (c_devidx b).

(* --- the executable specification (from the property text, over the log only) *)
(* "token generation never returns the same value twice": the keys under which records are
   created are pairwise distinct per table (a device grant creates two) *)
Fixpoint nodupb (l : list nat) : bool :=
  match l with [] => true | x :: r => negb (existsb (Nat.eqb x) r) && nodupb r end.
Definition created_keys (kd : tkind) (calls : list scall) : list nat :=
  flat_map (fun c => match kd, c with
                     | TAccess, CAt k _ => [k] | TRefresh, CRt k _ _ => [k] | TCode, CCo k _ => [k]
                     | _, _ => [] end) calls.
Definition other_created_keys (calls : list scall) : list nat :=
  flat_map (fun c => match c with CPa k _ => [k] | CDv d u _ => [d; u] | _ => [] end) calls.
Definition distinct_creates (calls : list scall) : bool :=
  nodupb (created_keys TAccess calls) && nodupb (created_keys TRefresh calls) && nodupb (created_keys TCode calls)
  && nodupb (other_created_keys calls).

(* "every token handed to a caller is either active or was invalidated by one of the concurrent
   requests": a storage call after the token's creation that deletes its record, or revokes /
   rotates the request id it was created under, or invalidates the code *)
Definition creates (kd : tkind) (k : nat) (c : scall) : option nat :=
  match kd, c with
  | TAccess, CAt k' r => if Nat.eqb k' k then Some r else None
  | TRefresh, CRt k' _ r => if Nat.eqb k' k then Some r else None
  | TCode, CCo k' r => if Nat.eqb k' k then Some r else None
  | _, _ => None
  end.
Definition kills (kd : tkind) (k r : nat) (c : scall) : bool :=
  match kd, c with
  | TAccess, DAt k' => Nat.eqb k' k
  | TAccess, VAt r' => Nat.eqb r' r
  | TAccess, Rot r' _ => Nat.eqb r' r
  | TRefresh, DRt k' => Nat.eqb k' k
  | TRefresh, VRt r' => Nat.eqb r' r
  | TRefresh, Rot r' _ => Nat.eqb r' r
  | TCode, ICo k' => Nat.eqb k' k
  | _, _ => false
  end.
(* None: never created; Some b: created, and b says whether a later call kills it *)
Fixpoint invalidated_later (kd : tkind) (k : nat) (calls : list scall) : option bool :=
  match calls with
  | [] => None
  | c :: r => match creates kd k c with
              | Some rid => Some (existsb (kills kd k rid) r)
              | None => invalidated_later kd k r
              end
  end.

(* Revocation is effective for EVERY access token of the request (repaired store, 208b00a): an
   access token created under request id r and followed, later in the log, by RevokeAccessToken r
   must be dead at the end, whichever token of the request the index happens to point to.
   None: never created; Some b: created, b = a later RevokeAccessToken of its request id exists *)
Definition revokes_at (rid : nat) (c : scall) : bool :=
  match c with VAt r' => Nat.eqb r' rid | _ => false end.
Fixpoint revoked_later (k : nat) (calls : list scall) : option bool :=
  match calls with
  | [] => None
  | c :: r => match creates TAccess k c with
              | Some rid => Some (existsb (revokes_at rid) r)
              | None => revoked_later k r
              end
  end.
Definition revoked_dead (calls : list scall) (m : tkind * nat * bool) : bool :=
  match m with
  | (TAccess, k, true) => match revoked_later k calls with Some true => false | _ => true end
  | _ => true
  end.

Definition minted_ok (calls : list scall) (m : tkind * nat * bool) : bool :=
  let '(kd, k, alive) := m in
  match invalidated_later kd k calls with
  | None => false
  | Some killed => alive || killed
  end.

Definition sched_mon (clients : list nat) (log : list entry) (digest : cstore)
           (minted : list (tkind * nat * bool)) (panics : nat) : option string :=
  let calls := map (fun e => snd (fst e)) log in
  if negb (Nat.eqb panics 0) then Some "panic"
  else if negb (distinct_creates calls) then Some "duplicate-signature"
  else if negb (cstore_eqb (replay clients cs0 calls) digest) then Some "final-state-not-sequential"
  else if negb (forallb (minted_ok calls) minted) then Some "token-dead-without-invalidation"
  else if negb (forallb (revoked_dead calls) minted) then Some "revoked-access-token-alive"
  else None.

Definition sched_corr (clients : list nat) (log : list entry) (digest : cstore)
           (minted : list (tkind * nat * bool)) : option string :=
  match replay_check clients cs0 log 0 with
  | (_, Some d) => Some d
  | (s, None) =>
      if negb (cstore_eqb s digest) then Some "final store"
      else if forallb (fun m => let '(kd, k, alive) := m in Bool.eqb (live s kd k) alive) minted then None
      else Some "liveness of a handed-out token"
  end.

Inductive c19case :=
| KAccess (ms : list method) (meth tbl : string)
| KAcquire (ms : list method) (meth m : string)
| KCalls (ms : list method) (meth : string)
| KReturn (ms : list method) (meth : string)
| KNames (ms : list method)
| KAtomic (ms : list method) (meth : string)   (* all accesses of the method to a table it writes lie in one critical section *)
| KPair (ms : list method) (f g : string) (raced in_store : bool)
| KSched (clients : list nat) (log : list entry) (digest : cstore) (minted : list (tkind * nat * bool)) (panics : nat)
| KStress (config site1 site2 : string)     (* a pair of call sites the race detector reported under free-running load *)
| KStressClean (config : string) (requests : nat)
| KApi (scenario site1 site2 : string)      (* a race reported while the operations of one scenario ran free *)
| KLeak (meth mutex : string)               (* after a sequential call of meth the store's mutex could not be taken any more *)
| KHung (what : string)                     (* a store call (or a pair of calls from two goroutines) did not return *)
| KLeakClean (sequences : nat)
| KTranslator (msg : string).               (* the source contains a shape outside the translator's fragment: nothing static was checked *)

Definition check (c : c19case) : verdict :=
  match c with
  | KAccess ms meth tbl => V None (find_tag (sel_access meth tbl) ms)
  | KAcquire ms meth m => V None (find_tag (sel_acquire meth m) ms)
  | KCalls ms meth => V None (find_tag (sel_calls meth) ms)
  | KReturn ms meth => V None (find_tag (sel_return meth) ms)
  | KNames ms => V None (if names_unique ms then None else Some "duplicate-method")
  | KAtomic ms meth => V None (split_section ms meth)
  | KPair ms f g raced in_store =>
      V (if raced && in_store then
           match may_race ms f g with
           | Some _ => None
           | None => Some "a race inside the store that the lock model does not predict"
           end
         else None)
        (if raced then
           Some ((if in_store then "race:" else "race-outside-tables:") ++ f ++ "+" ++ g)
         else None)
  | KSched clients log digest minted panics =>
      V (sched_corr clients log digest minted) (sched_mon clients log digest minted panics)
  | KStress config a b => V None (Some ("stress-race:" ++ a ++ "|" ++ b))
  | KStressClean _ _ => V None None
  | KApi sc a b => V None (Some ("race-api:" ++ a ++ "|" ++ b))
  | KLeak meth mutex => V None (Some ("lock-leaked:" ++ meth ++ ":" ++ mutex))
  | KHung what => V None (Some ("store-call-hung:" ++ what))
  | KLeakClean _ => V None None
  | KTranslator msg => V (Some ("translator: " ++ msg)) None
  end.
