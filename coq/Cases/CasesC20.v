(* C20 cases: what the real Write* functions / error renderers produced (decoded back by the Go
   standard library), compared with the model ([corr]) and judged by an executable form of the
   property text ([mon]).  The monitor is written from the property statement, RFC 6749 5.2 /
   4.1.2.1, RFC 7009 2.2.1 and RFC 7662 2.3, not from the writer model. *)
From FositeModel Require Export Cases.Common Model.Errors Model.Writers Model.Secrecy.

(* ---------------------------------------------------------------- transport normalisation
   encoding/json replaces invalid UTF-8 by U+FFFD (modelled exactly, [utf8_coerce]); html/template
   treats invalid UTF-8 and NUL in its own ways and an HTML parser normalises CR / CRLF to LF, so on
   the form channel decoded strings are compared after collapsing every run of bytes >= 0x80 or NUL
   into one "?" and after newline normalisation (ASCII bytes exactly).  The URL channel is exact. *)
Definition high (c : ascii) : bool := match c with Ascii _ _ _ _ _ _ _ b7 => b7 end.
Definition is_nul (c : ascii) : bool :=
  match c with Ascii false false false false false false false false => true | _ => false end.
Definition cr : ascii := ascii_of_nat 13.
Definition lf : ascii := ascii_of_nat 10.

Fixpoint collapse (nul_too inrun : bool) (s : string) : string :=
  match s with
  | EmptyString => EmptyString
  | String c r =>
      if high c || (nul_too && is_nul c)
      then (if inrun then collapse nul_too true r else String "?" (collapse nul_too true r))
      else String c (collapse nul_too false r)
  end.
Fixpoint cr_norm (s : string) : string :=
  match s with
  | EmptyString => EmptyString
  | String c r =>
      if Ascii.eqb c cr
      then String lf (match r with
                      | String c2 r2 => if Ascii.eqb c2 lf then cr_norm r2 else cr_norm r
                      | EmptyString => EmptyString
                      end)
      else String c (cr_norm r)
  end.
(* JSON channel, exactly: what Go's encoding/json does to a string on the way out and back is
   replacing every byte that does not start a valid UTF-8 sequence (utf8.DecodeRuneInString, incl.
   the overlong / surrogate / > U+10FFFF exclusions) by U+FFFD *)
Definition bn (c : ascii) : N := N_of_ascii c.
Definition in_rng (lo hi : N) (c : ascii) : bool := N.leb lo (bn c) && N.leb (bn c) hi.
Definition is_b (n : N) (c : ascii) : bool := N.eqb (bn c) n.
Definition cont (c : ascii) : bool := in_rng 128 191 c.
Definition fffd : string := String (ascii_of_N 239) (String (ascii_of_N 191) (String (ascii_of_N 189) "")).
Definition valid2 (c c1 : ascii) : bool := in_rng 194 223 c && cont c1.
Definition valid3 (c c1 c2 : ascii) : bool :=
  ((is_b 224 c && in_rng 160 191 c1) || (in_rng 225 236 c && cont c1) || (is_b 237 c && in_rng 128 159 c1)
   || (in_rng 238 239 c && cont c1)) && cont c2.
Definition valid4 (c c1 c2 c3 : ascii) : bool :=
  ((is_b 240 c && in_rng 144 191 c1) || (in_rng 241 243 c && cont c1) || (is_b 244 c && in_rng 128 143 c1))
  && cont c2 && cont c3.
Fixpoint utf8_coerce (s : string) : string :=
  match s with
  | EmptyString => EmptyString
  | String c r =>
      if negb (high c) then String c (utf8_coerce r) else
      match r with
      | String c1 r1 =>
          if valid2 c c1 then String c (String c1 (utf8_coerce r1)) else
          match r1 with
          | String c2 r2 =>
              if valid3 c c1 c2 then String c (String c1 (String c2 (utf8_coerce r2))) else
              match r2 with
              | String c3 r3 =>
                  if valid4 c c1 c2 c3 then String c (String c1 (String c2 (String c3 (utf8_coerce r3))))
                  else fffd ++ utf8_coerce r
              | EmptyString => fffd ++ utf8_coerce r
              end
          | EmptyString => fffd ++ utf8_coerce r
          end
      | EmptyString => fffd
      end
  end.
Definition jnorm (s : string) : string := utf8_coerce s.
Definition fnorm (s : string) : string := collapse true false (cr_norm s).
Definition idn (s : string) : string := s.

Fixpoint str_has (c : ascii) (s : string) : bool :=
  match s with
  | EmptyString => false
  | String a r => Ascii.eqb a c || str_has c r
  end.

(* ---------------------------------------------------------------- comparisons *)
Definition slist_eqb (f : string -> string) (a b : list string) : bool := list_eqb (map f a) (map f b).
Definition vsub (f : string -> string) (a b : values) : bool :=
  forallb (fun kv => slist_eqb f (snd kv) (vget (fst kv) b)) a.
Definition veqb (f : string -> string) (a b : values) : bool := vsub f a b && vsub f b a.

Fixpoint jget (k : string) (o : jobj) : option jval :=
  match o with
  | [] => None
  | (k', v) :: r => if String.eqb k k' then Some v else jget k r
  end.
Definition jval_eqb (a b : jval) : bool :=
  match a, b with
  | JS x, JS y => String.eqb (jnorm x) (jnorm y)
  | JN x, JN y => Z.eqb x y
  | JB x, JB y => Bool.eqb x y
  | JNull, JNull => true
  | _, _ => false
  end.
Definition jsub (a b : jobj) : bool :=
  forallb (fun kv => match jget (fst kv) b with Some v => jval_eqb (snd kv) v | None => false end) a.
Definition jobj_eqb (a b : jobj) : bool := jsub a b && jsub b a.

Definition frag_eqb (f : string -> string) (a b : lfrag) : bool :=
  match a, b with
  | FNone, FNone => true
  | FRaw x, FRaw y => String.eqb x y
  | FParams x, FParams y => veqb f x y
  | _, _ => false
  end.
Definition loc_eqb (a b : location) : bool :=
  String.eqb (l_base a) (l_base b) && veqb idn (l_query a) (l_query b) && frag_eqb idn (l_frag a) (l_frag b).
Definition oloc_eqb (a b : option location) : bool :=
  match a, b with
  | None, None => true
  | Some x, Some y => loc_eqb x y
  | _, _ => false
  end.
Definition body_eqb (a b : body) : bool :=
  match a, b with
  | BEmpty, BEmpty => true
  | BJson x, BJson y => jobj_eqb x y
  | BForm l1 f1, BForm l2 f2 => loc_eqb l1 l2 && veqb fnorm f1 f2
  | BDelegated, BDelegated => true
  | _, _ => false
  end.

(* ---------------------------------------------------------------- observation of one writer call *)
Record obs := mkObs {
  o_written : bool;          (* anything was written (header, status or body) *)
  o_status : Z;
  o_cc : list string;        (* Cache-Control values *)
  o_pragma : list string;
  o_ct : list string;        (* Content-Type values *)
  o_loc : option location;   (* Location header, parsed back *)
  o_body : body;             (* body, parsed back *)
  o_scrub_same : bool        (* the same call with every debug text / foreign message blanked wrote byte-identical output *)
}.

Definition obs_of_model (r : option response) : obs :=
  match r with
  | None => mkObs false 200 [] [] [] None BEmpty true
  | Some r => mkObs true (r_status r) (vget h_cc (r_headers r)) (vget h_pragma (r_headers r))
                    (vget h_ct (r_headers r)) (r_loc r) (r_body r) true
  end.

Definition first_diff (l : list (bool * string)) : option string :=
  match filter (fun p => negb (fst p)) l with
  | [] => None
  | (_, d) :: _ => Some d
  end.

Definition corr_writer (cfg : wcfg) (c : wcall) (o : obs) : option string :=
  let m := obs_of_model (write cfg c) in
  first_diff [
    (Bool.eqb (o_written m) (o_written o), "written");
    (Z.eqb (o_status m) (o_status o), "status");
    (slist_eqb idn (o_cc m) (o_cc o), "cache-control");
    (slist_eqb idn (o_pragma m) (o_pragma o), "pragma");
    (slist_eqb idn (o_ct m) (o_ct o), "content-type");
    (oloc_eqb (o_loc m) (o_loc o), "location");
    (body_eqb (o_body m) (o_body o), "body");
    (c_expose cfg || o_scrub_same o, "debug-dependence") ].

(* ---------------------------------------------------------------- the monitor (executable specification) *)
Definition call_error (c : wcall) : option goerr :=
  match c with
  | WAccessError g | WAuthorizeError _ g | WParError g => Some g
  | WIntrospectionError og | WRevocationResponse _ _ og => og
  | _ => None
  end.

(* the candidates for "the error" of a Go error value: every RFC6749Error of the chain, or the
   catch-all when there is none *)
Definition err_candidates (g : goerr) : list rfcerr :=
  match g_rfcs g with [] => [as_rfc g] | l => l end.

Definition js_is (k : string) (j : jobj) (v : string) : bool :=
  match jget k j with Some (JS s) => String.eqb s v | _ => false end.
Definition js_no_dq (k : string) (j : jobj) : bool :=
  match jget k j with Some (JS s) => negb (str_has dq s) | _ => true end.

(* RFC 6749 5.2: JSON object with the error code, HTTP status of that error, JSON content type *)
Definition json_error_ok (g : goerr) (o : obs) : bool :=
  match o_body o with
  | BJson j =>
      existsb (fun e => js_is "error" j (e_name e) && Z.eqb (o_status o) (e_code e)) (err_candidates g)
      && slist_eqb idn (o_ct o) [ct_json]
      && match o_loc o with None => true | Some _ => false end
  | _ => false
  end.

Definition params_error_ok (g : goerr) (p : values) : bool :=
  existsb (fun e => String.eqb (vfirst "error" p) (e_name e)) (err_candidates g).

Definition is_inactive_body (o : obs) : bool :=
  match o_body o with
  | BJson j => (match jget "active" j with Some (JB false) => true | _ => false end)
               && (match jget "error" j with None => true | Some _ => false end)
               && Z.eqb (o_status o) 200
  | _ => false
  end.

(* where the description is carried (the first value is the library's; a registered redirect URI
   may carry further values of the same key in its own query) *)
Definition no_dq (s : string) : bool := negb (str_has dq s).
Definition desc_no_dq (o : obs) : bool :=
  match o_body o with
  | BJson j => js_no_dq "error_description" j
  | _ => true
  end.

Definition redirect_params (ar : areq) (o : obs) : option (location * values * (string -> string)) :=
  if String.eqb (a_mode ar) "form_post" then
    match o_body o, o_loc o with
    | BForm act f, None => if Z.eqb (o_status o) 200 then Some (act, f, fnorm) else None
    | _, _ => None
    end
  else
    match o_loc o, o_body o with
    | Some l, BEmpty =>
        if Z.eqb (o_status o) 303 then
          if String.eqb (a_mode ar) "fragment"
          then match l_frag l with FParams p => Some (l, p, idn) | FNone => Some (l, [], idn) | FRaw _ => None end
          else Some (l, l_query l, idn)
        else None
    | _, _ => None
    end.

Definition token_invalid (g : goerr) : bool :=
  err_is g "not_found" 404 || err_is g "token_inactive" 401 || err_is g "invalid_token" 401 || err_is g "invalid_token" 400.

Definition tag_if (b : bool) (t : string) : option string := if b then None else Some t.
Definition first_tag (l : list (option string)) : option string :=
  match filter (fun o => match o with Some _ => true | None => false end) l with
  | x :: _ => x
  | [] => None
  end.

Definition mon_error (cfg : wcfg) (c : wcall) (o : obs) : option string :=
  match c with
  | WAccessError g | WParError g => tag_if (json_error_ok g o) "error_wellformed"
  | WAuthorizeError ar g =>
      if mem (a_mode ar) (c_custom_modes cfg) then None   (* the integrator's handler writes *)
      else if negb (a_valid ar) then tag_if (json_error_ok g o) "error_wellformed"
      else match redirect_params ar o with
           | None => Some "error_wellformed"
           | Some (l, p, f) =>
               first_tag [ tag_if (params_error_ok g p) "error_wellformed";
                           tag_if (String.eqb (l_base l) (u_base (a_uri ar))) "redirect_target";
                           tag_if (String.eqb (f (vfirst "state" p)) (f (a_state ar))) "reflect_state";
                           tag_if (c_legacy cfg || no_dq (vfirst "error_description" p)) "description_dquote" ]
           end
  | WIntrospectionError (Some g) =>
      if err_is g "token_inactive" 401 then tag_if (is_inactive_body o) "introspection_inactive_as_error"
      else tag_if (is_inactive_body o || json_error_ok g o) "error_wellformed"
  | WRevocationResponse _ _ (Some g) =>
      (* RFC 7009 2.2: an invalid token is answered 200; every other error needs an error response *)
      if json_error_ok g o then None
      else if token_invalid g && Z.eqb (o_status o) 200 then None
      else if Z.eqb (o_status o) 200 && (match o_body o with BEmpty => true | _ => false end)
           then Some "revocation_error_answered_200"
           else Some "error_wellformed"
  | _ => None
  end.

Definition mon_success (cfg : wcfg) (c : wcall) (o : obs) : option string :=
  match c with
  | WAuthorizeResponse ar _ params =>
      let m := a_mode ar in
      if String.eqb m "form_post" || String.eqb m "query" || String.eqb m "" || String.eqb m "fragment" then
        match redirect_params ar o with
        | None => Some "response_wellformed"
        | Some (l, p, f) =>
            first_tag [ tag_if (String.eqb (l_base l) (u_base (a_uri ar))) "redirect_target";
                        tag_if (forallb (fun kv => match snd kv with
                                                   | v :: _ => String.eqb (f (vfirst (fst kv) p)) (f v)
                                                   | [] => true
                                                   end) params) "reflect_params" ]
        end
      else None
  | _ => None
  end.

Definition mon_writer (cfg : wcfg) (c : wcall) (o : obs) : option string :=
  if negb (o_written o) then
    match c with WIntrospectionError None => None | _ => Some "no_response" end
  else
    first_tag [
      tag_if (slist_eqb idn (o_cc o) ["no-store"] && slist_eqb idn (o_pragma o) ["no-cache"]) "cache_headers";
      mon_error cfg c o;
      mon_success cfg c o;
      tag_if (c_expose cfg || o_scrub_same o) "debug_leak";
      match call_error c with
      | Some _ => tag_if (c_legacy cfg || desc_no_dq o) "description_dquote"
      | None => None
      end ].

(* ---------------------------------------------------------------- function-level error rendering *)
Definition corr_err (e : rfcerr) (desc : string) (js : jobj) (vals : values) (same : bool) : option string :=
  first_diff [
    (String.eqb (get_description e) desc, "GetDescription");
    (jobj_eqb (marshal_json e) js, "MarshalJSON");
    (veqb idn (to_values e) vals, "ToValues");
    (e_expose e || same, "debug-dependence") ].

Definition mon_err (e : rfcerr) (desc : string) (js : jobj) (vals : values) (same : bool) : option string :=
  first_tag [
    tag_if (negb (str_has dq desc)) "description_dquote";
    tag_if (e_legacy e || (js_no_dq "error_description" js && no_dq (vfirst "error_description" vals))) "description_dquote";
    tag_if (js_is "error" js (e_name e) && String.eqb (vfirst "error" vals) (e_name e)) "error_wellformed";
    tag_if (e_expose e || same) "debug_leak" ].

(* ---------------------------------------------------------------- the error table read from errors.go *)
Record tentry := mkT { t_var : string; t_name : string; t_code : Z }.

(* HTTP status the RFCs prescribe: RFC 6749 5.2 (token endpoint errors: 400, invalid_client 401),
   RFC 6749 4.1.2.1 codes when rendered as JSON (access_denied 403, server_error 500,
   temporarily_unavailable 503: the HTTP meaning of the code), RFC 6750 3.1 (invalid_token 401),
   RFC 8628 3.5 (400), OIDC Core 3.1.2.6 and RFC 9101 (400). *)
Definition rfc_status (name : string) : option Z :=
  if mem name ["invalid_request"; "invalid_grant"; "unauthorized_client"; "unsupported_grant_type";
               "invalid_scope"; "unsupported_response_type"; "authorization_pending"; "slow_down";
               "expired_token"; "login_required"; "interaction_required"; "consent_required";
               "invalid_request_uri"; "invalid_request_object"; "request_not_supported";
               "request_uri_not_supported"; "registration_not_supported"] then Some 400%Z
  else if String.eqb name "invalid_client" then Some 401%Z
  else if String.eqb name "invalid_token" then Some 401%Z
  else if String.eqb name "access_denied" then Some 403%Z
  else if String.eqb name "server_error" then Some 500%Z
  else if String.eqb name "temporarily_unavailable" then Some 503%Z
  else None.

Definition entry_ok (t : tentry) : bool :=
  match rfc_status (t_name t) with
  | Some s => Z.eqb (t_code t) s
  | None => Z.leb 400 (t_code t) && Z.leb (t_code t) 599
  end.
Definition required_vars : list string :=
  ["ErrInvalidRequest"; "ErrInvalidClient"; "ErrInvalidGrant"; "ErrUnauthorizedClient"; "ErrUnsupportedGrantType";
   "ErrInvalidScope"; "ErrAccessDenied"; "ErrServerError"; "ErrTemporarilyUnavailable"; "ErrUnsupportedResponseType";
   "ErrAuthorizationPending"; "ErrSlowDown"; "ErrDeviceExpiredToken"].
Definition table_complete (t : list tentry) : bool :=
  forallb (fun v => existsb (fun x => String.eqb (t_var x) v) t) required_vars.

(* the first offending entry, as a tag *)
Definition mon_table (t : list tentry) : option string :=
  if negb (table_complete t) then Some "errtable_incomplete"
  else match filter (fun x => negb (entry_ok x)) t with
       | [] => None
       | x :: _ => Some ("errtable_status:" ++ t_var x)
       end.
Definition table_ok (t : list tentry) : bool := match mon_table t with None => true | Some _ => false end.

(* ---------------------------------------------------------------- storage traffic *)
Record secret := mkSec { s_kind : string; s_val : string }.
(* one call observed at the storage interface by the recording wrapper *)
Record scall := mkCall {
  sc_method : string;
  sc_src : endpoint;            (* which request was being served *)
  sc_keys : list string;        (* every string argument of the call *)
  sc_input : values;            (* form of the request being served (given for calls that store a request) *)
  sc_form : option values       (* form of the request object handed to the store *)
}.

(* strings.Contains, the oracle of the monitor: independent of the model *)
Fixpoint contains (needle hay : string) : bool :=
  has_prefix needle hay || match hay with String _ r => contains needle r | EmptyString => false end.
Definition leaks_in (secs : list secret) (v : string) : list string :=
  map s_kind (filter (fun s => nonempty (s_val s) && contains (s_val s) v) secs).
Definition scan_keys (secs : list secret) (keys : list string) : option string :=
  match flat_map (leaks_in secs) keys with k :: _ => Some k | [] => None end.
Definition scan_form (secs : list secret) (f : option values) : list string :=
  match f with
  | None => []
  | Some f => flat_map (fun kv => (leaks_in secs (fst kv) ++ flat_map (leaks_in secs) (snd kv))%list) f
  end.

(* Reading: Authenticate(name, secret) is the storage layer's credential check; its argument is
   neither a key nor a stored request form and is not scanned. *)
Definition exempt (m : string) : bool := String.eqb m "Authenticate".

Definition is_oidc_method (m : string) : bool :=
  mem m ["CreateOpenIDConnectSession"; "GetOpenIDConnectSession"; "DeleteOpenIDConnectSession"].

(* tag of one call from what leaked; the three shapes recorded as findings get their own tags *)
Definition key_tag (m : string) (k : option string) : option string :=
  match k with
  | None => None
  | Some kind =>
      if is_oidc_method m && String.eqb kind "authorization_code" then Some "oidc_session_keyed_by_full_code"
      else if String.eqb m "DeleteOpenIDConnectSession" && String.eqb kind "device_code" then Some "oidc_device_delete_full_code"
      else Some ("storage_leak_key:" ++ m ++ ":" ++ kind)
  end.
Definition form_tag (m : string) (leaky : bool) : option string :=
  if leaky then
    if String.eqb m "CreatePARSession" then Some "par_stores_raw_form" else Some ("storage_leak_form:" ++ m)
  else None.
Definition known_tag (t : string) : bool :=
  mem t ["oidc_session_keyed_by_full_code"; "par_stores_raw_form"].

Definition opt_list {A} (o : option A) : list A := match o with Some x => [x] | None => [] end.
(* every tag of a log; a tag that is not one of the recorded findings is reported first *)
Definition prioritise (tags : list string) : option string :=
  match filter (fun t => negb (known_tag t)) tags with
  | t :: _ => Some t
  | [] => match tags with t :: _ => Some t | [] => None end
  end.
Definition call_tags (kl : option string) (fl : bool) (m : string) : list string :=
  (opt_list (key_tag m kl) ++ opt_list (form_tag m fl))%list.
Definition mon_store (secs : list secret) (log : list scall) : option string :=
  prioritise (flat_map (fun c =>
    if exempt (sc_method c) then []
    else call_tags (scan_keys secs (sc_keys c))
                   (match scan_form secs (sc_form c) with [] => false | _ => true end) (sc_method c)) log).

Definition ovalues_eqb (a b : option values) : bool :=
  match a, b with
  | None, None => true
  | Some x, Some y => veqb idn x y
  | _, _ => false
  end.
Definition ostr_eqb (a b : option string) : bool :=
  match a, b with
  | None, None => true
  | Some x, Some y => String.eqb x y
  | _, _ => false
  end.
Definition nonnil {A} (l : list A) : bool := match l with [] => false | _ => true end.

Definition corr_call (secs : list secret) (c : scall) : option string :=
  match site_of (sc_method c) (sc_src c) with
  | None => Some ("unknown-call:" ++ sc_method c)
  | Some s =>
      if negb (ovalues_eqb (expected_form s (sc_input c)) (sc_form c)) then Some ("stored-form:" ++ sc_method c)
      else if exempt (sc_method c) then None
      else if negb (ostr_eqb (model_key_leak s) (scan_keys secs (sc_keys c))) then Some ("key:" ++ sc_method c)
      else if negb (Bool.eqb (nonnil (model_form_leak (sc_src c) s (sc_input c))) (nonnil (scan_form secs (sc_form c))))
           then Some ("form-leak:" ++ sc_method c)
      else None
  end.
Definition corr_store (secs : list secret) (log : list scall) : option string :=
  match flat_map (fun c => opt_list (corr_call secs c)) log with d :: _ => Some d | [] => None end.

(* Request.Sanitize, function level: the stored form is exactly the allowed part of the form *)
Definition mon_sanitize (a d : list string) (form stored : values) : option string :=
  first_tag [
    tag_if (forallb (fun kv => mem (fst kv) (a ++ d) && slist_eqb idn (snd kv) (vget (fst kv) form)) stored) "sanitize_keeps_disallowed";
    tag_if (forallb (fun kv => negb (mem (fst kv) (a ++ d)) || slist_eqb idn (snd kv) (vget (fst kv) stored)) form) "sanitize_drops_allowed" ].

(* white-lists read from the source *)
Definition model_wl (name : string) : option (list string * endpoint) :=
  if String.eqb name "defaultAllowedParameters" then Some (default_allowed, ETokenCode)
  else if String.eqb name "oidcParameters" then Some (wl_oidc, EAuthorize)
  else if String.eqb name "pkce" then Some (wl_pkce, EAuthorize)
  else if String.eqb name "authcode" then Some (wl_authcode, EAuthorize)
  else None.
Definition corr_wl (name : string) (l : list string) : option string :=
  match model_wl name with
  | Some (m, _) => if list_eqb m l then None else Some ("whitelist differs from the model: " ++ name)
  | None => Some ("unknown whitelist " ++ name)
  end.
Definition mon_wl (name : string) (l : list string) : option string :=
  let src := match model_wl name with Some (_, e) => e | None => ETokenCode end in
  tag_if (negb (existsb (secret_param src) l)) ("whitelist_has_secret:" ++ name).

(* storage call sites read from the source: x.Create...Session(ctx, key, ..., request) *)
Record csite := mkCS { cs_where : string; cs_method : string; cs_key : string; cs_sanitized : bool }.
(* a key expression is acceptable when it names a signature or the PAR request URI *)
Definition key_expr_ok (k : string) : bool := contains "ignature" k || String.eqb k "requestURI".
Definition mon_site (c : csite) : list string :=
  ((if cs_sanitized c then []
    else [if String.eqb (cs_method c) "CreatePARSession" then "par_stores_raw_form"
          else ("unsanitized_store_call:" ++ cs_where c)%string])
   ++
   (if key_expr_ok (cs_key c) then []
    else [if is_oidc_method (cs_method c) then "oidc_session_keyed_by_full_code"
          else ("suspicious_storage_key:" ++ cs_where c)%string]))%list.
Definition mon_sites (l : list csite) : option string := prioritise (flat_map mon_site l).

Definition model_site (m : string) : option site := find (fun s => String.eqb (st_method s) m) site_table.
Definition corr_site (c : csite) : option string :=
  match model_site (cs_method c) with
  | None => Some ("unknown-method:" ++ cs_where c)
  | Some s =>
      if negb (Bool.eqb (cs_sanitized c) (match st_form s with RawForm => false | _ => true end))
      then Some ("sanitize:" ++ cs_where c)
      else if negb (Bool.eqb (key_expr_ok (cs_key c)) (match st_key s with KeyOpaque => true | KeyComplete _ => false end))
      then Some ("key:" ++ cs_where c)
      else None
  end.
Definition corr_sites (l : list csite) : option string :=
  match flat_map (fun c => opt_list (corr_site c)) l with d :: _ => Some d | [] => None end.

(* ---------------------------------------------------------------- cases *)
Inductive c20case :=
| KW (cfg : wcfg) (c : wcall) (o : obs)
| KE (e : rfcerr) (desc : string) (js : jobj) (vals : values) (same : bool)
| KTable (t : list tentry)
| KSan (allowed defaults : list string) (form : values) (stored : values)
| KWl (name : string) (l : list string)
| KSites (l : list csite)
| KHint (where_ field : string)     (* a WithHint/WithDescription call whose argument is the text of a Go error; "" = none *)
| KStore (flow : string) (secrets : list secret) (log : list scall).

Definition check (c : c20case) : verdict :=
  match c with
  | KW cfg c o => V (corr_writer cfg c o) (mon_writer cfg c o)
  | KE e d j v s => V (corr_err e d j v s) (mon_err e d j v s)
  | KTable t => V None (mon_table t)
  | KSan a d f s => V (corr_b (veqb idn (sanitize_form (a ++ d) f) s)) (mon_sanitize a d f s)
  | KWl n l => V (corr_wl n l) (mon_wl n l)
  | KSites l => V (corr_sites l) (mon_sites l)
  | KHint w f => V None (if String.eqb w "" then None else Some ("error_text_in_client_visible_field:" ++ w)%string)
  | KStore _ secs log => V (corr_store secs log) (mon_store secs log)
  end.
