(* Strings as fosite inspects them: Go's strings.Split / Join / TrimRight / HasPrefix,
   lists of strings, ASCII lower-casing.  Model definitions only (executable). *)
From Coq Require Export List String Ascii Bool Arith ZArith Lia.
Export ListNotations.
Open Scope string_scope.

Definition dot : ascii := "."%char.
Definition slash : ascii := "/"%char.
Definition space : ascii := " "%char.

(* strings.Split(s, sep) for a one-byte separator: never returns the empty list *)
Fixpoint split (sep : ascii) (s : string) : list string :=
  match s with
  | EmptyString => [EmptyString]
  | String c r =>
      if Ascii.eqb c sep then EmptyString :: split sep r
      else match split sep r with
           | h :: t => String c h :: t
           | [] => [String c EmptyString]
           end
  end.

(* strings.Join(l, sep) for a one-byte separator *)
Fixpoint join (sep : ascii) (l : list string) : string :=
  match l with
  | [] => EmptyString
  | [x] => x
  | x :: r => x ++ String sep (join sep r)
  end.

Definition str_eqb (a b : string) : bool := String.eqb a b.

Fixpoint mem (x : string) (l : list string) : bool :=
  match l with
  | [] => false
  | y :: r => if String.eqb x y then true else mem x r
  end.

(* strings.ToLower restricted to ASCII (the harness only uses ASCII in these positions) *)
Definition lower_ascii (c : ascii) : ascii :=
  let n := nat_of_ascii c in
  if andb (Nat.leb 65 n) (Nat.leb n 90) then ascii_of_nat (n + 32) else c.
Fixpoint lower (s : string) : string :=
  match s with
  | EmptyString => EmptyString
  | String c r => String (lower_ascii c) (lower r)
  end.

(* fosite.StringInSlice: case-insensitive membership *)
Fixpoint in_slice_ci (x : string) (l : list string) : bool :=
  match l with
  | [] => false
  | y :: r => if String.eqb (lower y) (lower x) then true else in_slice_ci x r
  end.

(* Arguments.Has / HasOneOf / ExactOne *)
Definition args_has (r : list string) (items : list string) : bool :=
  forallb (fun i => in_slice_ci i r) items.
Definition args_has_one_of (r : list string) (items : list string) : bool :=
  existsb (fun i => in_slice_ci i r) items.
Definition args_exact_one (r : list string) (name : string) : bool :=
  match r with
  | [x] => String.eqb x name
  | _ => false
  end.

(* strings.TrimRight(s, "/") *)
Fixpoint trim_right (c : ascii) (s : string) : string :=
  match s with
  | EmptyString => EmptyString
  | String a r =>
      match trim_right c r with
      | EmptyString => if Ascii.eqb a c then EmptyString else String a EmptyString
      | t => String a t
      end
  end.

Fixpoint take (n : nat) (s : string) : string :=
  match n, s with
  | 0, _ => EmptyString
  | S k, EmptyString => EmptyString
  | S k, String a r => String a (take k r)
  end.

Fixpoint has_prefix (p s : string) : bool :=
  match p, s with
  | EmptyString, _ => true
  | String a p', String b s' => if Ascii.eqb a b then has_prefix p' s' else false
  | String _ _, EmptyString => false
  end.

Fixpoint list_eqb (a b : list string) : bool :=
  match a, b with
  | [], [] => true
  | x :: a', y :: b' => String.eqb x y && list_eqb a' b'
  | _, _ => false
  end.

Fixpoint last_str (l : list string) : string :=
  match l with
  | [] => EmptyString
  | [x] => x
  | _ :: r => last_str r
  end.

(* bytes given as numbers: used by the harness for strings that are not valid UTF-8 source text *)
Fixpoint s_of (l : list nat) : string :=
  match l with
  | [] => EmptyString
  | n :: r => String (ascii_of_nat n) (s_of r)
  end.
