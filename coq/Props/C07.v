(* C07 — nothing is honoured after it has expired.  Statements only (credential kinds of the core model:
   authorization codes, opaque access tokens, refresh tokens; the other kinds are added with their flows). *)
From FositeModel Require Import Base.Str Model.Scope Model.Core Model.Flows Proofs.StepProps.

Theorem C07_code_not_redeemed_after_expiry :
  forall cfg s auth code redirect v vh,
  o_err (snd (redeem cfg s auth code redirect v vh)) = "" ->
  exists k r, key_of s code = Some k /\ codes (st s) k = Some (true, r) /\ not_expired (s_exp_code (r_sess r)) (now s).
Proof.
  intros cfg s auth code redirect v vh H.
  destruct (redeem_ok_facts cfg s auth code redirect v vh H) as [k [r [cl [F _]]]]. exists k, r. destruct F. auto.
Qed.
Print Assumptions C07_code_not_redeemed_after_expiry.

Theorem C07_access_token_not_honoured_after_expiry :
  forall cfg s tok h scopes p,
  introspect cfg s tok h scopes = Some p -> pl_use p = KAccess -> not_expired (pl_exp p) (now s).
Proof. exact access_honoured_not_expired. Qed.
Print Assumptions C07_access_token_not_honoured_after_expiry.

Theorem C07_refresh_token_not_honoured_after_expiry :
  forall cfg s tok h scopes p,
  introspect cfg s tok h scopes = Some p -> pl_use p = KRefresh -> not_expired (pl_exp p) (now s).
Proof. exact refresh_honoured_not_expired. Qed.
Print Assumptions C07_refresh_token_not_honoured_after_expiry.

Theorem C07_refresh_grant_respects_expiry :
  forall cfg s auth tok,
  o_err (snd (refresh_flow cfg s auth tok)) = "" ->
  exists k r, key_of s tok = Some k /\ refresh (st s) k = Some (true, r) /\ not_expired (s_exp_rt (r_sess r)) (now s).
Proof.
  intros cfg s auth tok H.
  destruct (refresh_ok_facts cfg s auth tok H) as [k [r [cl [H1 [H2 [_ [_ [_ [_ [_ [_ [H3 _]]]]]]]]]]]]. eauto.
Qed.
Print Assumptions C07_refresh_grant_respects_expiry.

(* expires_in, multiplied out, lands within one second before the instant the token stops being honoured *)
Theorem C07_expires_in_consistent_with_expiry :
  forall cfg se now_ e, s_exp_at se = Some e -> (now_ <= e)%Z ->
  (0 <= e - (now_ + 1000 * expires_in se cfg now_) < 1000)%Z.
Proof. exact expires_in_consistent. Qed.
Print Assumptions C07_expires_in_consistent_with_expiry.

Theorem C07_unlimited_refresh_token_never_expires :
  forall cfg s key tampered scopes r k,
  key = Some k -> refresh (st s) k = Some (true, r) -> s_exp_rt (r_sess r) = None ->
  tampered = false -> match_scopes cfg (r_gscopes r) scopes = true ->
  forall t, introspect_refresh cfg (set_now s t) key tampered scopes <> None.
Proof. exact unlimited_refresh_never_expires. Qed.
Print Assumptions C07_unlimited_refresh_token_never_expires.
