(* C07 — nothing is honoured after it has expired.  Statements only (credential kinds of the core model:
   authorization codes, opaque access tokens, refresh tokens; the other kinds are added with their flows). *)
From FositeModel Require Import Base.Str Model.Scope Model.Core Model.Flows Cases.CasesHist Cases.Monitors Proofs.StepProps
     Proofs.NowStep Proofs.ClientsStep Proofs.LogStep Proofs.MonitorC07 Proofs.MonitorC07b Proofs.MonitorC07c Proofs.CorrMonitor.

Theorem C07_code_not_redeemed_after_expiry :
  forall cfg s auth code redirect v vh,
  o_err (snd (redeem cfg s auth code redirect v vh)) = "" ->
  exists k r, key_of s code = Some k /\ codes (st s) k = Some (true, r) /\ not_expired (s_exp_code (r_sess r)) (now s).
Proof.
  intros cfg s auth code redirect v vh H.
  destruct (redeem_ok_facts cfg s auth code redirect v vh H) as [k [r [cl [F _]]]]. exists k, r. destruct F. auto.
Qed.
Print Assumptions C07_code_not_redeemed_after_expiry.

Theorem C07_access_token_not_honoured_after_expiry :
  forall cfg s tok h scopes p,
  introspect cfg s tok h scopes = Some p -> pl_use p = KAccess -> not_expired (pl_exp p) (now s).
Proof. exact access_honoured_not_expired. Qed.
Print Assumptions C07_access_token_not_honoured_after_expiry.

Theorem C07_refresh_token_not_honoured_after_expiry :
  forall cfg s tok h scopes p,
  introspect cfg s tok h scopes = Some p -> pl_use p = KRefresh -> not_expired (pl_exp p) (now s).
Proof. exact refresh_honoured_not_expired. Qed.
Print Assumptions C07_refresh_token_not_honoured_after_expiry.

Theorem C07_refresh_grant_respects_expiry :
  forall cfg s auth tok,
  o_err (snd (refresh_flow cfg s auth tok)) = "" ->
  exists k r, key_of s tok = Some k /\ refresh (st s) k = Some (true, r) /\ not_expired (s_exp_rt (r_sess r)) (now s).
Proof.
  intros cfg s auth tok H.
  destruct (refresh_ok_facts cfg s auth tok H) as [k [r [cl [H1 [H2 [_ [_ [_ [_ [_ [_ [H3 _]]]]]]]]]]]]. eauto.
Qed.
Print Assumptions C07_refresh_grant_respects_expiry.

(* expires_in, multiplied out, lands within one second before the instant the token stops being honoured *)
Theorem C07_expires_in_consistent_with_expiry :
  forall cfg se now_ e, s_exp_at se = Some e -> (now_ <= e)%Z ->
  (0 <= e - (now_ + 1000 * expires_in se cfg now_) < 1000)%Z.
Proof. exact expires_in_consistent. Qed.
Print Assumptions C07_expires_in_consistent_with_expiry.

Theorem C07_unlimited_refresh_token_never_expires :
  forall cfg s key tampered scopes r k,
  key = Some k -> refresh (st s) k = Some (true, r) -> s_exp_rt (r_sess r) = None ->
  tampered = false -> match_scopes cfg (r_gscopes r) scopes = true ->
  forall t, introspect_refresh cfg (set_now s t) key tampered scopes <> None.
Proof. exact unlimited_refresh_never_expires. Qed.
Print Assumptions C07_unlimited_refresh_token_never_expires.

(* ------------------------------------------------------------------ per-client lifetime overrides (client_with_custom_token_lifespans.go) *)
From FositeModel Require Import Proofs.C12Flows Proofs.C07Life.

Theorem C07_override_reads_its_own_field : forall cl l,
  cl_life cl = Some l ->
  override cl LAuthCode false = lf_ac_at l /\ override cl LAuthCode true = lf_ac_rt l /\
  override cl LClientCreds false = lf_cc_at l /\ override cl LClientCreds true = None /\
  override cl LImplicit false = lf_im_at l /\ override cl LImplicit true = None /\
  override cl LPassword false = lf_pw_at l /\ override cl LPassword true = lf_pw_rt l /\
  override cl LRefresh false = lf_rt_at l /\ override cl LRefresh true = lf_rt_rt l /\
  override cl LDevice false = None /\ override cl LDevice true = None.
Proof. exact override_reads_its_own_field. Qed.
Print Assumptions C07_override_reads_its_own_field.

Theorem C07_no_table_no_override : forall cl g rt,
  cl_life cl = None -> override cl g rt = None.
Proof. exact no_table_no_override. Qed.
Print Assumptions C07_no_table_no_override.

Theorem C07_override_takes_precedence : forall v d,
  eff (Some v) d = v /\ eff None d = d.
Proof. exact override_takes_precedence. Qed.
Print Assumptions C07_override_takes_precedence.

Theorem C07_eff_cfg_touches_only_token_lifetimes : forall cfg cl g,
  let c := eff_cfg cfg cl g in
  cf_life_at c = eff (override cl g false) (cf_life_at cfg) /\ cf_life_rt c = eff (override cl g true) (cf_life_rt cfg) /\
  cf_life_code c = cf_life_code cfg /\ cf_life_dev c = cf_life_dev cfg /\ cf_par_life c = cf_par_life cfg /\
  cf_scope c = cf_scope cfg /\ cf_aud_exact c = cf_aud_exact cfg /\ cf_refresh_scopes c = cf_refresh_scopes cfg /\
  cf_pkce_enforce c = cf_pkce_enforce cfg /\ cf_pkce_enforce_public c = cf_pkce_enforce_public cfg /\ cf_pkce_plain c = cf_pkce_plain cfg /\
  cf_introspect_rt c = cf_introspect_rt cfg /\ cf_par_enforced c = cf_par_enforced cfg.
Proof. exact eff_cfg_touches_only_token_lifetimes. Qed.
Print Assumptions C07_eff_cfg_touches_only_token_lifetimes.

Theorem C07_redeem_lifetimes : forall cfg s auth code redirect v vh,
  o_err (snd (redeem cfg s auth code redirect v vh)) = "" ->
  exists c cl ka r, auth = Some c /\ clients s c = Some cl /\
    access (st (fst (redeem cfg s auth code redirect v vh))) ka = Some r /\
    s_exp_at (r_sess r) = Some (round_s (now s + eff (override cl LAuthCode false) (cf_life_at cfg))) /\
    (0 <= eff (override cl LAuthCode true) (cf_life_rt cfg) ->
     s_exp_rt (r_sess r) = Some (round_s (now s + eff (override cl LAuthCode true) (cf_life_rt cfg))))%Z.
Proof. exact redeem_lifetimes. Qed.
Print Assumptions C07_redeem_lifetimes.

Theorem C07_refresh_lifetimes : forall cfg s auth tok,
  o_err (snd (refresh_flow cfg s auth tok)) = "" ->
  exists c cl ka r, auth = Some c /\ clients s c = Some cl /\
    access (st (fst (refresh_flow cfg s auth tok))) ka = Some r /\
    s_exp_at (r_sess r) = Some (round_s (now s + eff (override cl LRefresh false) (cf_life_at cfg))) /\
    (0 <= eff (override cl LRefresh true) (cf_life_rt cfg) ->
     s_exp_rt (r_sess r) = Some (round_s (now s + eff (override cl LRefresh true) (cf_life_rt cfg))))%Z.
Proof. exact refresh_lifetimes. Qed.
Print Assumptions C07_refresh_lifetimes.

Theorem C07_password_lifetimes : forall cfg s c ok sc au g ga,
  o_err (snd (password_flow cfg s (Some c) ok sc au g ga)) = "" ->
  exists cl ka r, clients s c = Some cl /\
    access (st (fst (password_flow cfg s (Some c) ok sc au g ga))) ka = Some r /\
    s_exp_at (r_sess r) = Some (round_s (now s + eff (override cl LPassword false) (cf_life_at cfg))).
Proof. exact password_lifetimes. Qed.
Print Assumptions C07_password_lifetimes.

Theorem C07_client_credentials_lifetimes : forall cfg s c sc au g ga,
  o_err (snd (client_credentials_flow cfg s (Some c) sc au g ga)) = "" ->
  exists cl ka r, clients s c = Some cl /\
    access (st (fst (client_credentials_flow cfg s (Some c) sc au g ga))) ka = Some r /\
    s_exp_at (r_sess r) = Some (now s + eff (override cl LClientCreds false) (cf_life_at cfg))%Z.
Proof. exact client_credentials_lifetimes. Qed.
Print Assumptions C07_client_credentials_lifetimes.

Theorem C07_implicit_lifetime : forall cfg s cl a ec,
  s_exp_at (implicit_session cfg s cl a ec) = Some (round_s (now s + eff (override cl LImplicit false) (cf_life_at cfg))).
Proof. exact implicit_lifetime. Qed.
Print Assumptions C07_implicit_lifetime.

Theorem C07_device_poll_uses_server_lifetimes : forall cfg s auth dev,
  o_err (snd (device_poll cfg s auth dev)) = "" ->
  exists ka r, access (st (fst (device_poll cfg s auth dev))) ka = Some r /\
    s_exp_at (r_sess r) = Some (round_s (now s + cf_life_at cfg)).
Proof. exact device_poll_uses_server_lifetimes. Qed.
Print Assumptions C07_device_poll_uses_server_lifetimes.

(* the clock of the model moves only with OAdvance (so the monitor's clock, which adds up the advances, is the model's) *)
Theorem C07_only_advance_moves_the_clock : forall cfg s o,
  now (fst (step cfg s o)) = match o with OAdvance ms => (now s + ms)%Z | _ => now s end.
Proof. exact now_step. Qed.
Print Assumptions C07_only_advance_moves_the_clock.

(* the expiry clause of the history monitor (Cases/Monitors.v clock_from: every probe that reports a credential active
   carries an expiry that has not passed) holds of the model's own trace of every history, whatever the configuration and
   registrations: the tags it would report are never produced.  An implementation trace that carries one of them therefore
   differs from every trace of the model. *)
Theorem C07_monitor_expiry_clause_holds_of_every_model_trace : forall cfg cls h jwt,
  let r := clock_from jwt cfg cls 0%Z 0 (trace cfg (state0 (clients_of cls)) h) in
  r <> Some "token_reported_active_after_its_expiry"%string /\
  r <> Some "jwt_access_token_honoured_within_the_second_after_its_expiry"%string.
Proof. exact monitor_expiry_clause_sound. Qed.
Print Assumptions C07_monitor_expiry_clause_holds_of_every_model_trace.

(* the log of issued credentials grows by exactly the credentials an operation's observation reports as minted, in that
   order: a presentation's index (CRef i) is the position of the credential among everything the server handed out,
   which is how the harness numbers the implementation's credentials *)
Theorem C07_log_grows_by_the_minted_credentials : forall cfg s o,
  exists new, log (fst (step cfg s o)) = (log s ++ new)%list /\ map i_kind new = o_minted (snd (step cfg s o)).
Proof. exact log_step_minted. Qed.
Print Assumptions C07_log_grows_by_the_minted_credentials.

(* "lifetimes advertised in responses are consistent with the instant at which the credential stops being honoured", as the
   monitor states it (advertised_ok: the expires_in of a token response lies within one second of the expiry that the
   introspection of the freshly minted access token reports), together with the expiry clause: neither tag is ever
   produced on the model's own trace, for every configuration, registration and history *)
Theorem C07_monitor_expiry_and_advertised_clauses_hold_of_every_model_trace : forall cfg cls h jwt,
  let r := clock_from jwt cfg cls 0%Z 0 (trace cfg (state0 (clients_of cls)) h) in
  r <> Some "token_reported_active_after_its_expiry"%string /\
  r <> Some "jwt_access_token_honoured_within_the_second_after_its_expiry"%string /\
  r <> Some "advertised_expires_in_differs_from_the_honoured_expiry"%string.
Proof. exact monitor_expiry_and_advertised_clauses_sound. Qed.
Print Assumptions C07_monitor_expiry_and_advertised_clauses_hold_of_every_model_trace.

(* only OSetClient changes the registrations *)
Theorem C07_only_set_client_changes_the_registrations : forall cfg s o,
  clients (fst (step cfg s o)) = match o with OSetClient id c => upd (clients s) id (Some c) | _ => clients s end.
Proof. exact clients_step. Qed.
Print Assumptions C07_only_set_client_changes_the_registrations.

(* the whole C07 history monitor - expiry clause, advertised lifetime, and "the lifetime of every minted access and
   refresh token is the client's override for exactly this grant and token type, else the server default" - accepts the
   model's own trace of every history, for every configuration and registration list *)
Theorem C07_monitor_accepts_every_model_trace : forall cfg cls h jwt,
  clock_from jwt cfg cls 0%Z 0 (trace cfg (state0 (clients_of cls)) h) = None.
Proof. exact monitor_C07_accepts_every_model_trace. Qed.
Print Assumptions C07_monitor_accepts_every_model_trace.

(* and a case that the correspondence check accepts (same observations, same probe vectors at every step) is a case on
   which the monitor is silent: the implementation's trace is then the model's *)
Theorem C07_correspondence_implies_monitor_silence : forall cfg cls steps,
  hist_corr (HCase cfg cls steps) = None -> monitor_C07 (HCase cfg cls steps) = None.
Proof. exact correspondence_implies_monitor_C07. Qed.
Print Assumptions C07_correspondence_implies_monitor_silence.
