(* C06 — only server-minted, untampered tokens are accepted (HMAC and JWT).
   Only statements: each is closed by [exact <lemma>] and followed by Print Assumptions.
   Vocabulary (Proofs/HmacProofs.v): [wf tok kd sd] = the string is <key>.<signature> cut at its first
   dot, both parts non-empty and decodable; [long s] = the secret has at least 32 bytes; [reaches keys] =
   some secret of the trial list authenticates the string, is long, and is preceded by long secrets
   only; [sf_mac s] = HMAC(secret s, decoded key part) equals the decoded signature part.

   Clause "freshly minted tokens, codes and request URIs never repeat": this is a statement about
   crypto/rand and is NOT a theorem here; it is measured on every run (case KFresh: multiset of minted
   values, byte statistics) and listed as an assumption. *)
From FositeModel Require Import Base.Str Model.Hmac Model.Jwt Proofs.HmacProofs Proofs.JwtProofs
  Cases.CasesC06 Proofs.MonitorC06.
From Coq Require Import Permutation.

(* ---- opaque tokens: Validate ---- *)
Theorem C06_validate_accept_iff : forall tok kd sd g rot,
  validate tok kd sd g rot = None <-> wf tok kd sd /\ reaches (key_list g rot).
Proof. exact validate_accept_iff. Qed.
Print Assumptions C06_validate_accept_iff.

Theorem C06_accepted_only_if_authenticated : forall tok kd sd g rot,
  validate tok kd sd g rot = None ->
  wf tok kd sd /\ exists s, In s (key_list g rot) /\ long s /\ sf_mac s = true.
Proof. exact validate_sound. Qed.
Print Assumptions C06_accepted_only_if_authenticated.

Theorem C06_unauthenticated_rejected : forall tok kd sd g rot,
  (forall s, In s (key_list g rot) -> long s -> sf_mac s = false) ->
  validate tok kd sd g rot <> None.
Proof. exact validate_rejects_unauthenticated. Qed.
Print Assumptions C06_unauthenticated_rejected.

Theorem C06_malformed_rejected : forall tok kd sd g rot,
  ~ wf tok kd sd -> validate tok kd sd g rot <> None.
Proof. exact validate_rejects_malformed. Qed.
Print Assumptions C06_malformed_rejected.

(* rotated-secret lists of any length and order, all secrets long: membership alone decides *)
Theorem C06_rotation_order_free : forall tok kd sd g rot g' rot',
  Forall long (key_list g rot) -> Permutation (key_list g rot) (key_list g' rot') ->
  (validate tok kd sd g rot = None <-> validate tok kd sd g' rot' = None).
Proof. exact validate_order_free. Qed.
Print Assumptions C06_rotation_order_free.

(* the quirk: a short secret reached before a match is an error (even if a later secret matches) *)
Theorem C06_short_secret_reached_is_error : forall tok kd sd g rot,
  validate tok kd sd g rot = Some EShort <->
  exists pre s post, key_list g rot = (pre ++ s :: post)%list /\ (sf_len s < 32)%N /\
                     Forall (fun x => long x /\ wf tok kd sd /\ sf_mac x = false) pre.
Proof. exact validate_short_iff. Qed.
Print Assumptions C06_short_secret_reached_is_error.

Theorem C06_no_secret_configured : forall tok kd sd g rot,
  validate tok kd sd g rot = Some ENoSecret <-> sf_len g = 0%N /\ rot = [].
Proof. exact validate_no_secret_iff. Qed.
Print Assumptions C06_no_secret_configured.

(* ---- minting ---- *)
Theorem C06_generate_refuses_short_secret : forall gl e h, generate gl e h = None <-> (gl < 32)%N.
Proof. exact generate_refuses_short. Qed.
Print Assumptions C06_generate_refuses_short_secret.

Theorem C06_generate_entropy : forall gl e h kl sl,
  generate gl e h = Some (kl, sl) ->
  (32 <= gl)%N /\ (32 <= kl)%Z /\ (e <= kl)%Z /\ kl = Z.max (if Z.eqb e 0 then 32 else e)%Z 32%Z /\ sl = h.
Proof. exact generate_entropy. Qed.
Print Assumptions C06_generate_entropy.

Theorem C06_user_code_signature_refuses_short_secret : forall gl,
  hmac_for_string_ok gl = false <-> (gl < 32)%N.
Proof. exact hmac_for_string_refuses_short. Qed.
Print Assumptions C06_user_code_signature_refuses_short_secret.

(* ---- the mutation catalogue on symbolic tokens (perfect-MAC idealisation), every secret list ---- *)
Theorem C06_minted_accept_iff : forall tok kd sd o k g rot,
  sym_validate tok kd sd (minted o k) g rot = None <->
  wf tok kd sd /\
  exists pre len post, (if N.ltb 0 (snd g) then g :: rot else rot) = (pre ++ (o, len) :: post)%list /\
                       Forall (fun p => 32 <= snd p)%N pre /\ (32 <= len)%N.
Proof. exact minted_accept_iff. Qed.
Print Assumptions C06_minted_accept_iff.

Theorem C06_altered_random_part_rejected : forall tok kd sd o k k' g rot,
  k' <> k -> sym_validate tok kd sd (ST k' (SMac o k)) g rot <> None.
Proof. exact altered_key_rejected. Qed.
Print Assumptions C06_altered_random_part_rejected.

Theorem C06_altered_signature_part_rejected : forall tok kd sd k g rot,
  sym_validate tok kd sd (ST k SJunk) g rot <> None.
Proof. exact altered_signature_rejected. Qed.
Print Assumptions C06_altered_signature_part_rejected.

Theorem C06_unknown_secret_rejected : forall tok kd sd o k g rot,
  (forall id len, In (id, len) (g :: rot) -> id <> o) ->
  sym_validate tok kd sd (minted o k) g rot <> None.
Proof. exact unknown_secret_rejected. Qed.
Print Assumptions C06_unknown_secret_rejected.

Theorem C06_short_secret_never_authenticates : forall tok kd sd t g rot,
  (forall id len, In (id, len) (g :: rot) -> sym_mac id t = true -> (len < 32)%N) ->
  sym_validate tok kd sd t g rot <> None.
Proof. exact short_secret_refused. Qed.
Print Assumptions C06_short_secret_never_authenticates.

(* ---- Signature() versus validate(): Split into exactly two parts versus Cut at the first dot ---- *)
Theorem C06_signature_of_cut : forall tok k g,
  cut dot tok = Some (k, g) -> signature tok = if has_char dot g then "" else g.
Proof. exact signature_of_cut. Qed.
Print Assumptions C06_signature_of_cut.

Theorem C06_signature_without_dot : forall tok, cut dot tok = None -> signature tok = "".
Proof. exact signature_nodot. Qed.
Print Assumptions C06_signature_without_dot.

(* ---- prefixes ---- *)
Theorem C06_prefixed_with_prefix : forall k t kd sd g rot,
  strat_validate true k (prefix_of k ++ t) kd sd g rot = validate t kd sd g rot.
Proof. exact prefixed_validate_with_prefix. Qed.
Print Assumptions C06_prefixed_with_prefix.

Theorem C06_prefixed_without_prefix : forall k t kd sd g rot,
  has_prefix (prefix_of k) t = false -> strat_validate true k t kd sd g rot = validate t kd sd g rot.
Proof. exact prefixed_validate_without_prefix. Qed.
Print Assumptions C06_prefixed_without_prefix.

Theorem C06_signature_prefix_free : forall k t, strat_signature (prefix_of k ++ t) = strat_signature t.
Proof. exact signature_prefix_free. Qed.
Print Assumptions C06_signature_prefix_free.

(* ---- end to end: introspection / refresh / code redemption / device poll ---- *)
Theorem C06_honoured_iff : forall ep p k stored tok kd sd g rot,
  e2e ep p k stored tok kd sd g rot = "" <->
  In (strat_signature tok) stored /\ strat_validate p k tok kd sd g rot = None.
Proof. exact e2e_honoured_iff. Qed.
Print Assumptions C06_honoured_iff.

Theorem C06_honoured_only_if_authenticated : forall ep p k stored tok kd sd g rot,
  e2e ep p k stored tok kd sd g rot = "" ->
  In (strat_signature tok) stored /\ wf (strat_trim p k tok) kd sd /\
  exists s, In s (key_list g rot) /\ long s /\ sf_mac s = true.
Proof. exact e2e_sound. Qed.
Print Assumptions C06_honoured_only_if_authenticated.

(* ---- JWT access tokens ---- *)
Theorem C06_jwt_parse_accept_iff : forall vk f,
  parse_with_claims vk f = None <->
  structure_ok f /\ claims_ok f /\
  ((j_alg f = "none" /\ vk = VNoneMagic) \/ (alg_fits vk (j_alg f) = true /\ j_sig f = true)).
Proof. exact parse_accept_iff. Qed.
Print Assumptions C06_jwt_parse_accept_iff.

Theorem C06_jwt_accepted_only_signed_asymmetric : forall pk f,
  standard_key pk = true -> jwt_validate pk f = "" ->
  structure_ok f /\ claims_ok f /\ j_sig f = true /\ asymmetric (j_alg f) = true /\
  mem (j_alg f) sym_algs = false /\ j_alg f <> "none".
Proof. exact jwt_accept_standard. Qed.
Print Assumptions C06_jwt_accepted_only_signed_asymmetric.

(* The clause at full strength, for WHATEVER key object the operator configures,
     forall pk f, jwt_validate pk f = "" -> asymmetric (j_alg f) = true /\ j_alg f <> "none"
   is false of the faithful model; the two witnesses are configurations that exist only by explicit
   operator opt-in (an opaque signer publishing a symmetric JSONWebKey / the constant
   jwt.UnsafeAllowNoneSignatureType as its public key).  The clause is proved above for the documented
   key types and characterised below for all keys. *)
Theorem C06_jwt_any_key_asymmetric_refuted :
  exists pk f, jwt_validate pk f = "" /\ asymmetric (j_alg f) = false /\ j_sig f = true.
Proof. exact jwt_any_key_asymmetric_refuted. Qed.
Print Assumptions C06_jwt_any_key_asymmetric_refuted.

Theorem C06_jwt_any_key_none_refuted :
  exists pk f, jwt_validate pk f = "" /\ j_alg f = "none" /\ j_sig f = false.
Proof. exact jwt_any_key_none_refuted. Qed.
Print Assumptions C06_jwt_any_key_none_refuted.

Theorem C06_jwt_none_needs_optin : forall pk f,
  jwt_validate pk f = "" -> j_alg f = "none" -> decode_key pk = Some VNoneMagic.
Proof. exact jwt_none_needs_optin. Qed.
Print Assumptions C06_jwt_none_needs_optin.

Theorem C06_jwt_symmetric_needs_symmetric_key : forall pk f,
  jwt_validate pk f = "" -> mem (j_alg f) sym_algs = true -> decode_key pk = Some VSym.
Proof. exact jwt_symmetric_needs_symmetric_key. Qed.
Print Assumptions C06_jwt_symmetric_needs_symmetric_key.

Theorem C06_jwt_signed_needs_signature : forall pk f,
  jwt_validate pk f = "" -> j_alg f <> "none" -> j_sig f = true.
Proof. exact jwt_signed_needs_signature. Qed.
Print Assumptions C06_jwt_signed_needs_signature.

Theorem C06_jwt_introspection_sound : forall stored tok pk f,
  standard_key pk = true -> jwt_e2e stored tok pk f = true ->
  In (jwt_signature tok) stored /\ j_sig f = true /\ asymmetric (j_alg f) = true /\ j_alg f <> "none".
Proof. exact jwt_e2e_sound. Qed.
Print Assumptions C06_jwt_introspection_sound.

Theorem C06_jwt_minting_roundtrip : forall pk, (pk = PRsa \/ pk = PEc true) ->
  exists a vk, gen_alg pk = Some a /\ decode_key pk = Some vk /\ alg_fits vk a = true /\ asymmetric a = true.
Proof. exact gen_alg_roundtrip. Qed.
Print Assumptions C06_jwt_minting_roundtrip.

(* quirks of the key handling (availability, not acceptance of forged tokens) *)
Theorem C06_jwk_by_value_never_validates : forall a inner f,
  priv_fits inner a = true ->
  gen_alg (PJwkVal a inner) = Some a /\ jwt_validate (PJwkVal a inner) f = "error:500".
Proof. exact jwk_value_mints_but_never_validates. Qed.
Print Assumptions C06_jwk_by_value_never_validates.

Theorem C06_opaque_signer_mints_xor_validates : forall algs pub f a,
  gen_alg (POpaque algs pub) = Some a -> jwt_validate (POpaque algs pub) f <> "".
Proof. exact opaque_signer_mints_xor_validates. Qed.
Print Assumptions C06_opaque_signer_mints_xor_validates.

(* ---- the executable specification evaluated on the implementation's answers never contradicts the model ---- *)
Theorem C06_monitor_silent_on_model : forall c,
  has_model c = true -> corr (check c) = None -> mon (check c) = None.
Proof. exact monitor_silent_on_model. Qed.
Print Assumptions C06_monitor_silent_on_model.
