(* C20 -- responses leak nothing and storage never sees a secret.
   Only statements: each is closed by [exact <lemma>] and followed by Print Assumptions.
   First half (error rendering, writers): errors.go / the Write* functions as modelled in
   Model/Errors.v and Model/Writers.v.  Second half (storage): Model/Secrecy.v. *)
From FositeModel Require Import Base.Str Model.Errors Model.Writers Model.Secrecy Cases.CasesC20
  Proofs.WritersProofs Proofs.MonitorC20 Proofs.SecrecyProofs.

(* ------------------------------------------------------------------ error rendering, all strings *)

(* GetDescription never contains a double quote, for any description, hint and debug text
   (quotes, control bytes, HTML, invalid UTF-8 are all just bytes here) *)
Theorem C20_description_has_no_double_quote : forall e, ~ In dq (chars (get_description e)).
Proof. exact description_no_dquote. Qed.
Print Assumptions C20_description_has_no_double_quote.

(* GetDescription is: description, then " hint" if a hint exists, then " debug" if debug exists and
   exposure is on; quotes neutralised *)
Theorem C20_description_spec : forall e, description_spec e (get_description e).
Proof. exact get_description_spec. Qed.
Print Assumptions C20_description_spec.

(* with exposure off, no rendering depends on the debug text *)
Theorem C20_description_hides_debug : forall e d1 d2,
  e_expose e = false -> get_description (with_debug d1 e) = get_description (with_debug d2 e).
Proof. exact description_hides_debug. Qed.
Print Assumptions C20_description_hides_debug.

Theorem C20_json_hides_debug : forall e d1 d2,
  e_expose e = false -> marshal_json (with_debug d1 e) = marshal_json (with_debug d2 e).
Proof. exact marshal_json_hides_debug. Qed.
Print Assumptions C20_json_hides_debug.

Theorem C20_values_hide_debug : forall e d1 d2,
  e_expose e = false -> to_values (with_debug d1 e) = to_values (with_debug d2 e).
Proof. exact to_values_hides_debug. Qed.
Print Assumptions C20_values_hide_debug.

(* the switch is real: with exposure on the debug text is rendered *)
Theorem C20_debug_rendered_when_exposed : forall e,
  e_expose e = true -> e_debug e <> "" ->
  exists prefix, get_description e = prefix ++ " " ++ replace_dq (e_debug e).
Proof. exact description_shows_debug. Qed.
Print Assumptions C20_debug_rendered_when_exposed.

(* ------------------------------------------------------------------ every Write* function *)

(* debug detail only when the operator enabled it: with SendDebugMessagesToClients off, blanking
   every debug text and foreign error message changes nothing in the response of any writer, for
   every error chain, format, response mode, redirect URI and state *)
Theorem C20_writers_hide_debug : forall cfg c,
  c_expose cfg = false -> write cfg (scrub_call c) = write cfg c.
Proof. exact writers_hide_debug. Qed.
Print Assumptions C20_writers_hide_debug.

Theorem C20_writers_noninterference : forall cfg c1 c2,
  c_expose cfg = false -> scrub_call c1 = scrub_call c2 -> write cfg c1 = write cfg c2.
Proof. exact writers_noninterference. Qed.
Print Assumptions C20_writers_noninterference.

(* every response is marked no-store / no-cache, on every path of every writer, whatever headers
   the responder adds *)
Theorem C20_every_writer_sets_cache_headers : forall cfg c r,
  write cfg c = Some r ->
  vget "Cache-Control" (r_headers r) = ["no-store"] /\ vget "Pragma" (r_headers r) = ["no-cache"].
Proof. exact writers_set_cache_headers. Qed.
Print Assumptions C20_every_writer_sets_cache_headers.

Theorem C20_writers_always_respond : forall cfg c, write cfg c = None -> c = WIntrospectionError None.
Proof. exact writers_always_respond. Qed.
Print Assumptions C20_writers_always_respond.

(* JSON error responses: RFC error code in the body, the error's status on the wire *)
Theorem C20_json_error_wellformed : forall cfg g,
  let r := write_json_error cfg g in
  let e := as_rfc g in
  r_status r = e_code e /\ r_loc r = None /\ vget "Content-Type" (r_headers r) = [ct_json] /\
  exists j, r_body r = BJson j /\ jget "error" j = Some (JS (e_name e)) /\
            (c_legacy cfg = false -> exists d, jget "error_description" j = Some (JS d) /\ ~ In dq (chars d)).
Proof. exact json_error_shape. Qed.
Print Assumptions C20_json_error_wellformed.

(* authorization-endpoint errors: JSON when the redirect URI is unusable, otherwise parameters of
   the registered target in the place the response mode names *)
Theorem C20_authorize_error_wellformed : forall cfg ar g,
  mem (a_mode ar) (c_custom_modes cfg) = false ->
  let r := write_authorize_error cfg ar g in
  let e := as_rfc g in
  (a_valid ar = false ->
     r_status r = e_code e /\ r_loc r = None /\ exists j, r_body r = BJson j /\ jget "error" j = Some (JS (e_name e))) /\
  (a_valid ar = true ->
     exists target params,
       vfirst "error" params = e_name e /\ vfirst "state" params = a_state ar /\
       l_base target = u_base (a_uri ar) /\
       (c_legacy cfg = false -> ~ In dq (chars (vfirst "error_description" params))) /\
       ((a_mode ar = "form_post" /\ r_status r = 200%Z /\ r_loc r = None /\ r_body r = BForm target params) \/
        (a_mode ar = "fragment" /\ r_status r = 303%Z /\ r_body r = BEmpty /\
           r_loc r = Some target /\ l_frag target = FParams params /\ l_query target = u_query (a_uri ar)) \/
        (a_mode ar <> "form_post" /\ a_mode ar <> "fragment" /\ r_status r = 303%Z /\ r_body r = BEmpty /\
           r_loc r = Some target /\ l_frag target = FNone /\ l_query target = params))).
Proof. exact authorize_error_shape. Qed.
Print Assumptions C20_authorize_error_wellformed.

(* revocation endpoint: FULL CLAUSE (false): "for every error e handed to WriteRevocationResponse the
   response carries e's RFC code and status".  What holds is the characterisation below; the full
   clause is refuted by the two theorems after it (finding: revocation_error_answered_200). *)
Theorem C20_revocation_response_partial : forall sir sic og,
  let r := write_revocation_response sir sic og in
  match og with
  | None => r_status r = 200%Z /\ r_body r = BEmpty
  | Some g =>
      if err_is g (e_name sir) (e_code sir) then
        r_status r = e_code sir /\ exists j, r_body r = BJson j /\ jget "error" j = Some (JS (e_name sir))
      else if err_is g (e_name sic) (e_code sic) then
        r_status r = e_code sic /\ exists j, r_body r = BJson j /\ jget "error" j = Some (JS (e_name sic))
      else r_status r = 200%Z /\ r_body r = BEmpty
  end.
Proof. exact revocation_shape. Qed.
Print Assumptions C20_revocation_response_partial.

Theorem C20_revocation_error_status_refuted :
  exists g, (e_name (as_rfc g) = "temporarily_unavailable" /\ e_code (as_rfc g) = 503%Z) /\
            r_status (write_revocation_response std_ir std_ic (Some g)) = 200%Z /\
            r_body (write_revocation_response std_ir std_ic (Some g)) = BEmpty.
Proof. exact revocation_status_refuted. Qed.
Print Assumptions C20_revocation_error_status_refuted.

Theorem C20_revocation_unauthorized_client_refuted :
  exists g, (e_name (as_rfc g) = "unauthorized_client" /\ e_code (as_rfc g) = 400%Z) /\
            r_status (write_revocation_response std_ir std_ic (Some g)) = 200%Z /\
            r_body (write_revocation_response std_ir std_ic (Some g)) = BEmpty.
Proof. exact revocation_status_refuted_unauthorized_client. Qed.
Print Assumptions C20_revocation_unauthorized_client_refuted.

(* the error table read from errors.go on every run: a table accepted by [table_ok] gives every
   RFC code its prescribed status, and that status is what the JSON error writers put on the wire
   for any hint / debug text / format / switch *)
Theorem C20_error_table_sound : forall t,
  table_ok t = true ->
  (forall x, In x t -> forall s, rfc_status (t_name x) = Some s -> t_code x = s) /\
  (forall x, In x t -> rfc_status (t_name x) = None -> (400 <= t_code x <= 599)%Z) /\
  (forall v, In v required_vars -> exists x, In x t /\ t_var x = v).
Proof. exact table_ok_sound. Qed.
Print Assumptions C20_error_table_sound.

Theorem C20_table_status_on_the_wire : forall t,
  table_ok t = true ->
  forall x, In x t -> forall s, rfc_status (t_name x) = Some s ->
  forall cfg desc hint debug rest tail,
    let e := mkErr (t_name x) desc hint (t_code x) debug false false in
    let r := write_json_error cfg (mkGo (e :: rest) tail) in
    r_status r = s /\ exists j, r_body r = BJson j /\ jget "error" j = Some (JS (t_name x)).
Proof. exact table_status_on_the_wire. Qed.
Print Assumptions C20_table_status_on_the_wire.

(* the executable specification (monitor) evaluated on the model's own response never alarms,
   except with the tag of the recorded revocation finding *)
Theorem C20_monitor_is_model_writers : forall cfg c,
  wf_call c -> mon_writer cfg c (obs_of_model (write cfg c)) = model_alarm c.
Proof. exact monitor_on_model. Qed.
Print Assumptions C20_monitor_is_model_writers.

Theorem C20_monitor_is_model_renderers : forall e,
  mon_err e (get_description e) (marshal_json e) (to_values e) true = None.
Proof. exact err_monitor_on_model. Qed.
Print Assumptions C20_monitor_is_model_renderers.

(* ------------------------------------------------------------------ storage *)

(* Request.Sanitize keeps exactly the white-listed parameters *)
Theorem C20_sanitize_spec : forall allowed form k vs,
  In (k, vs) (sanitize_form allowed form) <-> In (k, vs) form /\ In k allowed.
Proof. exact sanitize_spec. Qed.
Print Assumptions C20_sanitize_spec.

(* FULL CLAUSE (false): "for every storage call site and every request form, the stored form holds
   no secret-bearing parameter and the key is not a complete credential".
   Proved: all call sites except CreatePARSession (forms) and except the OpenID Connect session
   methods (keys); the exceptions are refuted below (findings par_stores_raw_form,
   oidc_session_keyed_by_full_code; the device flow's deletion by the complete device code was repaired). *)
Theorem C20_stored_forms_secret_free_partial : forall m src s input f k vs,
  site_of m src = Some s -> m <> "CreatePARSession" ->
  expected_form s input = Some f -> In (k, vs) f -> secret_param src k = false.
Proof. exact stored_forms_secret_free. Qed.
Print Assumptions C20_stored_forms_secret_free_partial.

Theorem C20_storage_keys_opaque_partial : forall m src s,
  site_of m src = Some s -> ~ In m oidc_methods -> st_key s = KeyOpaque.
Proof. exact storage_keys_opaque. Qed.
Print Assumptions C20_storage_keys_opaque_partial.

Theorem C20_oidc_session_keyed_by_full_code_refuted :
  exists s, site_of "CreateOpenIDConnectSession" EAuthorize = Some s /\ st_key s = KeyComplete "authorization_code".
Proof. exact oidc_session_keyed_by_full_code_refuted. Qed.
Print Assumptions C20_oidc_session_keyed_by_full_code_refuted.

Theorem C20_oidc_device_session_keyed_by_signature : forall m s,
  In m oidc_methods -> site_of m ETokenDevice = Some s -> st_key s = KeyOpaque.
Proof. exact oidc_device_session_keyed_by_signature. Qed.
Print Assumptions C20_oidc_device_session_keyed_by_signature.

Theorem C20_par_stores_raw_form_refuted :
  exists s input f, site_of "CreatePARSession" EPar = Some s /\ expected_form s input = Some f /\
                    In ("client_secret", ["the secret"]) f /\ secret_param EPar "client_secret" = true.
Proof. exact par_stores_raw_form_refuted. Qed.
Print Assumptions C20_par_stores_raw_form_refuted.

(* the monitor's string search and the sanitiser: secrets that sit only under non-white-listed
   parameters are not found in the stored form *)
Theorem C20_sanitised_form_scans_clean : forall secs allowed input,
  (forall k vs, In (k, vs) input -> In k allowed ->
     leaks_in secs k = [] /\ forall v, In v vs -> leaks_in secs v = []) ->
  scan_form secs (Some (sanitize_form allowed input)) = [].
Proof. exact sanitised_form_scans_clean. Qed.
Print Assumptions C20_sanitised_form_scans_clean.

(* on storage traffic that matches the model the monitor reports nothing or a recorded finding *)
Theorem C20_store_monitor_is_model : forall secs log,
  corr_store secs log = None -> mon_store secs log = model_store_tag log.
Proof. exact store_monitor_on_model. Qed.
Print Assumptions C20_store_monitor_is_model.

Theorem C20_store_monitor_only_known_findings : forall secs log,
  corr_store secs log = None ->
  match mon_store secs log with None => True | Some t => known_tag t = true end.
Proof. exact store_monitor_only_known_findings. Qed.
Print Assumptions C20_store_monitor_only_known_findings.

Theorem C20_sanitize_monitor_is_model : forall a d form,
  NoDup (map fst form) -> mon_sanitize a d form (sanitize_form (a ++ d) form) = None.
Proof. exact sanitize_monitor_on_model. Qed.
Print Assumptions C20_sanitize_monitor_is_model.

(* the storage call sites read from the Go sources on every run (x.Create...Session(ctx, key, ...,
   request)): when they agree with the model's table, the syntactic check reports nothing or a
   recorded finding; any other unsanitised request or non-signature key expression is an alarm *)
Theorem C20_call_sites_only_known_findings : forall l,
  corr_sites l = None ->
  match mon_sites l with None => True | Some t => known_tag t = true end.
Proof. exact sites_monitor_only_known_findings. Qed.
Print Assumptions C20_call_sites_only_known_findings.
