(* C03 — PKCE binding cannot be bypassed or downgraded.  Statements only. *)
From FositeModel Require Import Base.Str Model.Scope Model.Core Model.Flows Proofs.StepProps Proofs.C03Proofs Cases.CasesHist Cases.Monitors Proofs.MonitorC03.

(* per attempt: with a stored PKCE record carrying a challenge, redemption succeeds only with a well-formed
   verifier that transforms to that challenge under the stored method; without a record only when PKCE is
   not enforced for this client and no verifier is sent *)
Theorem C03_redeem_requires_matching_verifier :
  forall cfg s auth code redirect v vh,
  o_err (snd (redeem cfg s auth code redirect v vh)) = "" ->
  exists k r cl, key_of s code = Some k /\ codes (st s) k = Some (true, r) /\ clients s (r_client r) = Some cl /\
    match pkce (st s) k with
    | Some pr =>
        pkce_validate cfg (r_challenge pr) (r_method pr) (r_cl pr) = None /\
        ((r_challenge pr = "" /\ v = "" /\ cf_pkce_enforce cfg = false) \/
         (r_challenge pr <> "" /\ verifier_well_formed v /\
          (if String.eqb (r_method pr) "S256" then vh = r_challenge pr else v = r_challenge pr)))
    | None => v = "" /\ pkce_no_pkce cfg cl = None
    end.
Proof.
  intros cfg s auth code redirect v vh H.
  destruct (redeem_ok_facts cfg s auth code redirect v vh H) as [k [r [cl [F _]]]].
  exists k, r, cl. destruct F. auto.
Qed.
Print Assumptions C03_redeem_requires_matching_verifier.

(* the method is fixed at authorization time, for the code flow and for the hybrid flow (where the code is the second
   credential of the response): the record written there carries the request's challenge and method *)
Theorem C03_challenge_and_method_fixed_at_authorization :
  forall cfg s a,
  az_rtype a <> RToken -> o_err (snd (authorize cfg s a)) = "" ->
  exists cl, clients s (az_client a) = Some cl /\ pkce_validate cfg (az_challenge a) (az_method a) cl = None /\
  let s' := fst (authorize cfg s a) in
  exists k, nth_error (log s') (List.length (log s) + code_pos a) = Some {| i_kind := KCode; i_key := k; i_rid := next_rid s; i_endpoint_token := false |} /\
    (az_challenge a = "" /\ az_method a = "" -> pkce (st s') k = pkce (st s) k) /\
    (~ (az_challenge a = "" /\ az_method a = "") ->
       exists pr, pkce (st s') k = Some pr /\ r_challenge pr = az_challenge a /\ r_method pr = az_method a /\ r_cl pr = cl).
Proof. exact authorize_code_stores_challenge. Qed.
Print Assumptions C03_challenge_and_method_fixed_at_authorization.

(* enforcement and "plain only if enabled", at the authorization endpoint (code flow; the hybrid flow's gate is part of
   the statement above) and again at the token endpoint *)
Theorem C03_authorization_gate :
  forall cfg s a, az_rtype a = RCode -> o_err (snd (authorize cfg s a)) = "" ->
  exists cl, clients s (az_client a) = Some cl /\ pkce_validate cfg (az_challenge a) (az_method a) cl = None.
Proof. exact authorize_pkce_gate. Qed.
Print Assumptions C03_authorization_gate.

Theorem C03_gate_meaning :
  forall cfg challenge method cl,
  pkce_validate cfg challenge method cl = None ->
  (challenge = "" /\ pkce_no_pkce cfg cl = None) \/
  (challenge <> "" /\ (method = "S256" \/ ((method = "plain" \/ method = "") /\ cf_pkce_plain cfg = true))).
Proof. exact pkce_validate_ok. Qed.
Print Assumptions C03_gate_meaning.

Theorem C03_no_pkce_only_when_not_enforced :
  forall cfg cl, pkce_no_pkce cfg cl = None ->
  cf_pkce_enforce cfg = false /\ (cf_pkce_enforce_public cfg = true -> cl_public cl = false).
Proof. exact pkce_no_pkce_ok. Qed.
Print Assumptions C03_no_pkce_only_when_not_enforced.

(* THE FULL STATEMENT over histories: "this stays true after any number of failed attempts".  [h2] is any
   history after the authorization — failed attempts with wrong, malformed or missing verifiers included.
   (Before the repair recorded as A1 in known_findings.json this statement was refuted by the model and by the
   implementation: the handler consumed the PKCE session before validating the verifier.) *)
Theorem C03_binding_holds_after_any_history :
  forall cfg cls h1 a h2 auth redirect v vh tampered,
  let s1 := run cfg (state0 cls) h1 in
  az_rtype a <> RToken -> o_err (snd (authorize cfg s1 a)) = "" -> az_challenge a <> "" ->
  let s2 := run cfg (fst (authorize cfg s1 a)) h2 in
  let code := {| p_ref := CRef (List.length (log s1) + code_pos a); p_tampered := tampered |} in
  o_err (snd (redeem cfg s2 auth code redirect v vh)) = "" ->
  verifier_well_formed v /\
  (if String.eqb (az_method a) "S256" then vh = az_challenge a else v = az_challenge a) /\
  (az_method a = "S256" \/ ((az_method a = "plain" \/ az_method a = "") /\ cf_pkce_plain cfg = true)).
Proof. exact pkce_binding. Qed.
Print Assumptions C03_binding_holds_after_any_history.

(* the clauses of the history monitor that do not read its tracker accept the model's answer in every state: only S256,
   or plain / no method where plain is enabled, is accepted for a challenge at the authorization endpoint (code and hybrid
   flow); a token request under a grant type that no handler owns yields nothing *)
Theorem C03_monitor_challenge_method_clause_holds_of_the_model : forall cfg m s a pr,
  fst (fst (judge_C03 cfg m (OAuthorize a) (snd (step cfg s (OAuthorize a))) pr)) = None.
Proof. exact judge_C03_authorize_sound. Qed.
Print Assumptions C03_monitor_challenge_method_clause_holds_of_the_model.

Theorem C03_monitor_unowned_grant_type_clause_holds_of_the_model : forall cfg m s auth pr,
  fst (fst (judge_C03 cfg m (OTokenOther auth) (snd (step cfg s (OTokenOther auth))) pr)) = None.
Proof. exact judge_C03_other_grant_sound. Qed.
Print Assumptions C03_monitor_unowned_grant_type_clause_holds_of_the_model.
