(* C10 — client authentication guards every client-authenticated endpoint.
   Only statements: each is closed by [exact <lemma>] and followed by Print Assumptions.
   [cmp] is the hasher's verdict function (bcrypt is not modelled): every theorem holds for all of
   them, for every store (list of registrations) and every request. *)
From FositeModel Require Import Base.Str Model.ClientAuth Proofs.ClientAuthProofs Cases.CasesC10 Proofs.MonitorC10.

(* The Go-shaped authenticate accepts a request as client c exactly when the declarative
   specification does: credentials presented per RFC 6749 2.3.1 name the registered client c, the
   registered token_endpoint_auth_method permits the transports used, and c is public or the
   secret is accepted for the current or a rotated hash; or a valid private_key_jwt assertion. *)
Theorem C10_authenticate_characterised : forall cmp st rq c,
  authenticate cmp st rq = AOk c <-> by_secret cmp st rq c \/ by_assertion st rq c.
Proof. exact authenticate_ok_iff. Qed.
Print Assumptions C10_authenticate_characterised.

(* clause 1: acting as a confidential client needs proof of knowledge of the current or a rotated
   secret through a permitted transport, or a valid private_key_jwt assertion *)
Theorem C10_confidential_needs_secret_or_assertion : forall cmp st rq c,
  authenticate cmp st rq = AOk c -> c_public c = false ->
  In c st /\
  ((exists s, presents rq (c_id c) s /\ knows cmp c s /\ method_permits c rq) \/
   (c_method c = m_pkjwt /\ r_ahas rq = true /\ assertion_valid_for (c_id c) rq)).
Proof. exact confidential_needs_proof. Qed.
Print Assumptions C10_confidential_needs_secret_or_assertion.

(* clause 3a: public clients are identified without a secret *)
Theorem C10_public_identified_without_secret : forall cmp st rq c,
  authenticate cmp st rq = AOk c -> c_public c = true ->
  In c st /\ ((exists s, presents rq (c_id c) s /\ method_permits c rq) \/ c_method c = m_pkjwt).
Proof. exact public_identified. Qed.
Print Assumptions C10_public_identified_without_secret.

(* clause 2, the enumerated bad presentations *)
Theorem C10_unknown_client_refused : forall cmp st rq i s,
  r_atype rq = "" -> presents rq i s -> lookup st i = None ->
  authenticate cmp st rq = AErr EInvalidClient.
Proof. exact unknown_client_refused. Qed.
Print Assumptions C10_unknown_client_refused.

(* wrong, empty, another client's secret: anything the hasher does not accept for this client *)
Theorem C10_wrong_secret_refused : forall cmp st rq i s c,
  r_atype rq = "" -> presents rq i s -> lookup st i = Some c -> c_public c = false ->
  ~ knows cmp c s -> authenticate cmp st rq = AErr EInvalidClient.
Proof. exact wrong_secret_refused. Qed.
Print Assumptions C10_wrong_secret_refused.

Theorem C10_disallowed_method_refused : forall cmp st rq i s c,
  r_atype rq = "" -> presents rq i s -> lookup st i = Some c -> ~ method_permits c rq ->
  authenticate cmp st rq = AErr EInvalidClient.
Proof. exact disallowed_method_refused. Qed.
Print Assumptions C10_disallowed_method_refused.

(* malformed / absent header and no client_id in the body, or undecodable header components *)
Theorem C10_no_credentials_refused : forall cmp st rq,
  r_atype rq = "" -> (forall i s, ~ presents rq i s) ->
  authenticate cmp st rq = AErr EInvalidRequest.
Proof. exact no_credentials_refused. Qed.
Print Assumptions C10_no_credentials_refused.

(* clause 2, class of every refusal: "every other presentation (wrong, empty, another client's
   secret, unknown client, disallowed method, malformed header) is rejected as invalid_client or
   invalid_request".  Holds for every refused request that carries no client assertion, and for
   every refused client assertion that is not a replay of a jti the store already knows (the code
   answers those jti_known; the replay memory is the subject of property C15, see DESIGN 6.0).
   Since commit 37f391e this includes assertions with unacceptable time claims (formerly answered
   with a plain error; the monitor keeps the tag assertion_time_claims_rejected_as_server_error). *)
Theorem C10_refusal_class : forall cmp st rq e,
  authenticate cmp st rq = AErr e ->
  (r_atype rq <> jwt_bearer_type \/ as_jti_known (r_as rq) = false) ->
  e = EInvalidClient \/ e = EInvalidRequest.
Proof. exact refusal_class. Qed.
Print Assumptions C10_refusal_class.

(* the same without side condition: the only third answer is jti_known for a known jti *)
Theorem C10_refusal_class_or_jti_replay : forall cmp st rq e,
  authenticate cmp st rq = AErr e ->
  e = EInvalidClient \/ e = EInvalidRequest \/
  (e = EJtiKnown /\ r_atype rq = jwt_bearer_type /\ as_jti_known (r_as rq) = true).
Proof. exact authenticate_err_class. Qed.
Print Assumptions C10_refusal_class_or_jti_replay.

(* clause 2 at the endpoints: when authentication fails, the endpoint returns the error before
   any handler (hence before any storage function) is called and acts for nobody.  Token endpoint:
   unless grant_type is exactly jwt-bearer and the RFC 7523 switch is on. *)
Theorem C10_token_failure_guarded : forall cmp st switch hs rq g houts e,
  table_ok hs = true ->
  authenticate cmp st rq = AErr e ->
  (switch = false \/ grant_types g <> [jwt_bearer_grant]) ->
  let o := token_endpoint cmp st switch hs rq g houts in
  ob_calls o = [] /\ ob_client o = "" /\ (ob_res o = ecode_str e \/ ob_res o = "invalid_request").
Proof. exact token_failure_guarded. Qed.
Print Assumptions C10_token_failure_guarded.

Theorem C10_revocation_failure_guarded : forall cmp st n rq houts e,
  authenticate cmp st rq = AErr e ->
  revoke_endpoint cmp st n rq houts = Obs (ecode_str e) "" [].
Proof. exact revoke_rejects_before_handlers. Qed.
Print Assumptions C10_revocation_failure_guarded.

Theorem C10_par_failure_guarded : forall cmp st rq u e,
  authenticate cmp st rq = AErr e -> par_endpoint cmp st rq u = Obs (par_err e) "" [].
Proof. exact par_rejects. Qed.
Print Assumptions C10_par_failure_guarded.

Theorem C10_device_failure_guarded : forall cmp st rq e,
  authenticate cmp st rq = AErr e -> device_endpoint cmp st rq = Obs (ecode_str e) "" [].
Proof. exact device_rejects. Qed.
Print Assumptions C10_device_failure_guarded.

(* clause 3c: "a handler processes a request without client authentication only if it explicitly
   allows that".  [table_ok] is evaluated on the handler table that the harness reads from the Go
   source on every run (case 0 of every run); over any such table a token-endpoint handler runs
   either in the name of the authenticated client or, with no client, only for grant_type
   jwt-bearer with GrantTypeJWTBearerCanSkipClientAuth turned on. *)
Theorem C10_only_the_switch_skips : forall cmp st switch hs rq g houts,
  table_ok hs = true ->
  let o := token_endpoint cmp st switch hs rq g houts in
  ob_calls o <> [] ->
  (exists c, authenticate cmp st rq = AOk c /\ ob_client o = c_id c) \/
  (ob_client o = "" /\ switch = true /\ grant_types g = [jwt_bearer_grant]).
Proof. exact only_the_switch_skips. Qed.
Print Assumptions C10_only_the_switch_skips.

(* clause 3b: public clients never obtain tokens through client_credentials (the request phase
   ends with invalid_grant; the response phase that mints tokens is not reached), and neither does
   a caller that failed authentication *)
Theorem C10_public_never_client_credentials : forall cmp st switch hs rq g houts c,
  table_ok hs = true ->
  authenticate cmp st rq = AOk c -> c_public c = true ->
  grant_types g = ["client_credentials"] ->
  ob_res (token_endpoint cmp st switch hs rq g houts) = "invalid_grant".
Proof. exact public_never_client_credentials. Qed.
Print Assumptions C10_public_never_client_credentials.

Theorem C10_unauthenticated_never_client_credentials : forall cmp st switch hs rq g houts e,
  table_ok hs = true ->
  authenticate cmp st rq = AErr e -> grant_types g = ["client_credentials"] ->
  ob_calls (token_endpoint cmp st switch hs rq g houts) = [].
Proof. exact unauthenticated_never_client_credentials. Qed.
Print Assumptions C10_unauthenticated_never_client_credentials.

(* clause 1 at the endpoints: in whose name a request is processed *)
Theorem C10_revocation_acts_as_authenticated : forall cmp st n rq houts,
  let o := revoke_endpoint cmp st n rq houts in
  (ob_calls o <> [] \/ ob_res o = "") ->
  exists c, authenticate cmp st rq = AOk c /\ (ob_calls o <> [] -> ob_client o = c_id c).
Proof. exact revoke_acts_as_authenticated. Qed.
Print Assumptions C10_revocation_acts_as_authenticated.

Theorem C10_device_acts_as_authenticated : forall cmp st rq,
  let o := device_endpoint cmp st rq in
  ob_res o = "" ->
  exists c, authenticate cmp st rq = AOk c /\ ob_client o = c_id c /\ r_fid rq = c_id c.
Proof. exact device_acts_as_authenticated. Qed.
Print Assumptions C10_device_acts_as_authenticated.

(* PAR (full strength since commit 59b9417): an accepted push was authenticated and is processed
   in the name of the authenticated client; a body client_id naming another registered client is
   refused with invalid_request.  The monitor keeps the tag
   par_client_id_not_bound_to_authenticated_client for the former behaviour. *)
Theorem C10_par_acts_as_authenticated : forall cmp st rq u,
  let o := par_endpoint cmp st rq u in
  ob_res o = "" ->
  exists c, authenticate cmp st rq = AOk c /\ ob_client o = c_id c.
Proof. exact par_acts_as_authenticated. Qed.
Print Assumptions C10_par_acts_as_authenticated.

Theorem C10_par_other_client_refused : forall cmp st rq c c',
  authenticate cmp st rq = AOk c -> r_fid rq <> "" -> lookup st (r_fid rq) = Some c' ->
  c_id c' <> c_id c ->
  par_endpoint cmp st rq false = Obs "invalid_request" "" [].
Proof. exact par_other_client_refused. Qed.
Print Assumptions C10_par_other_client_refused.

(* the executable specification evaluated on the implementation's observations names exactly the
   client the model authenticates, and the monitor never alarms on the model's own observation,
   on any input *)
Theorem C10_spec_who_is_model : forall cmp st rq,
  spec_who cmp st rq = client_of (authenticate cmp st rq).
Proof. exact spec_who_is_model. Qed.
Print Assumptions C10_spec_who_is_model.

Theorem C10_monitor_accepts_model : forall cmp cf st ep rq houts changed final,
  table_ok (cf_handlers cf) = true -> no_empty_id st ->
  let o := run_endpoint cmp cf st ep rq houts in
  (ob_res o <> "" -> (ob_calls o = [] \/ is_cc_grant ep = true) -> changed = false) ->
  monitor cmp cf st ep rq o changed final = None.
Proof. exact monitor_accepts_model. Qed.
Print Assumptions C10_monitor_accepts_model.

(* client credentials in the request URI (no authentication method permits that transport): they take no part at the
   token, revocation and device-authorization endpoints ... *)
Theorem C10_uri_credentials_ignored_outside_par : forall cmp cf st ep rq u houts,
  is_par ep = false -> run_endpoint_uri cmp cf st ep rq u houts = run_endpoint cmp cf st ep rq houts.
Proof. exact uri_credentials_ignored_outside_par. Qed.
Print Assumptions C10_uri_credentials_ignored_outside_par.

(* ... and at the pushed-authorization endpoint the clause is false of the faithful model and of the code (known finding
   C10-par-credentials-from-request-uri): body and header entitle the request to act as nobody, the secret stands in
   the URI, and the request is processed in the name of a confidential client *)
Theorem C10_par_uri_credentials_refuted :
  exists cmp cf st rq u houts,
    spec_who cmp st rq = None /\
    (exists c, In c st /\ c_public c = false /\
       ob_res (run_endpoint_uri cmp cf st (EPAR false) rq u houts) = "" /\
       ob_client (run_endpoint_uri cmp cf st (EPAR false) rq u houts) = c_id c).
Proof. exact par_uri_credentials_refuted. Qed.
Print Assumptions C10_par_uri_credentials_refuted.
