(* C14 — ID Tokens are bound to the right client, user, nonce and tokens.
   Only statements: each is closed by [exact <lemma>] and followed by Print Assumptions.
   Model: Model/IDToken.v (GenerateIDToken, ComputeHash, ValidatePrompt, the five issuing paths).
   Specification: Proofs/IDTokenProofs.v ([issuable], [issued_claims], [requirement_unmet]),
   Proofs/C14Proofs.v ([bound_to]), Cases/CasesC14.v ([hash_of_jwa], the executable monitor). *)
From FositeModel Require Import Base.Str Model.IDToken Proofs.IDTokenProofs Cases.CasesC14
  Proofs.C14Proofs Proofs.MonitorC14.
Local Open Scope Z_scope.

(* ---- the strategy decides exactly the specification: an ID token comes out iff issuance is
   allowed (non-empty subject; unless refreshing: auth_time not in the future, max_age, prompt=none,
   prompt=login, id_token_hint satisfied; expiry not in the past; nonce long enough), and then the
   session claims / the token are the specified ones *)
Theorem C14_generate_decides_spec : forall g cid lifespan f p c now c' t,
  generate g cid lifespan f p c now = (c', OTok t) <->
  issuable g lifespan f p c now /\ c' = issued_claims g cid lifespan f c now /\ t = to_map c'.
Proof. exact generate_spec. Qed.
Print Assumptions C14_generate_decides_spec.

(* ---- every issued token: subject = the session's (non-empty), aud contains the client (and
   nothing but the client and the session's audience), iss = the session's or the configured one,
   nonce = the request's nonce unchanged (the session's when the request has none), exp in the
   future, iat = now, at_hash / c_hash as prepared by the flow, custom claims never override a
   standard claim *)
Theorem C14_issued_token_claims : forall g cid lifespan f p c now c' t,
  generate g cid lifespan f p c now = (c', OTok t) ->
  c_sub c <> "" /\ t_sub t = c_sub c /\
  In cid (t_aud t) /\ (forall a, In a (t_aud t) -> a = cid \/ In a (c_aud c)) /\
  t_iss t = (if String.eqb (c_iss c) "" then g_iss g else c_iss c) /\
  t_nonce t = (if String.eqb (fget "nonce" f) "" then c_nonce c else fget "nonce" f) /\
  t_exp t = Some (exp_of lifespan c now) /\ now <= exp_of lifespan c now /\
  t_iat t = Some now /\ t_rat t = c_rat c /\
  t_at t = c_at c /\ t_ch t = c_ch c /\
  (forall k v, In (k, v) (t_extra t) -> In (k, v) (c_extra c) /\ ~ In k std_claims).
Proof. exact generate_token_claims. Qed.
Print Assumptions C14_issued_token_claims.

(* ---- expiry: not before now; the pre-set one if the session has one, else now + lifetime
   (3600 s when the lifetime handed in is 0) *)
Theorem C14_expiry : forall g cid lifespan f p c now c' t,
  generate g cid lifespan f p c now = (c', OTok t) ->
  exists e, t_exp t = Some e /\ now <= e /\
    match c_exp c with
    | Some preset => e = preset
    | None => e = now + life_of lifespan
    end.
Proof. exact generate_expiry. Qed.
Print Assumptions C14_expiry.

(* ---- max_age, prompt=none, prompt=login, id_token_hint the session does not satisfy make
   issuance fail (everywhere except on refresh, where they are not evaluated) *)
Theorem C14_unmet_requirement_refused : forall g cid lifespan f p c now,
  ~ is_refresh f -> requirement_unmet f p c ->
  exists c' e, generate g cid lifespan f p c now = (c', OErr e).
Proof. exact generate_refuses_unmet. Qed.
Print Assumptions C14_unmet_requirement_refused.

Theorem C14_empty_subject_refused : forall g cid lifespan f p c now,
  c_sub c = "" -> exists c' e, generate g cid lifespan f p c now = (c', OErr e).
Proof. exact generate_needs_subject. Qed.
Print Assumptions C14_empty_subject_refused.

(* the same requirements at the authorization endpoint, prompt read as a list *)
Theorem C14_authorization_refuses_unmet : forall g public secure f p c now,
  requirement_unmet_at_authorization f p c -> exists e, validate_prompt g public secure f p c now = Some e.
Proof. exact validate_prompt_refuses_unmet. Qed.
Print Assumptions C14_authorization_refuses_unmet.

(* ---- implicit and hybrid flows: an ID token in an authorization response implies openid was
   granted, a nonce was sent and is echoed, the token is bound to client / subject / issuer /
   expiry, at_hash is that of the access token of the same response, c_hash that of the code of
   the same response, and no requirement of the request was unmet *)
Theorem C14_authorization_endpoint : forall g cl h a c now t,
  r_idt (authorize_step g cl h a c now) = Some t ->
  let r := authorize_step g cl h a c now in
  has_openid (a_granted a) = true /\
  fget "nonce" (a_form a) <> "" /\
  bound_to g (cl_id cl) (eff_life g cl GImplicit) (fget "nonce" (a_form a)) c now t /\
  (r_at r = true -> t_at t = HOf (hash_of_hdr h) (a_token a)) /\
  (r_code r = true -> t_ch t = HOf (hash_of_hdr h) (a_code a)) /\
  ~ requirement_unmet_at_authorization (a_form a) (a_parsed a) c.
Proof. exact authorization_endpoint_id_token. Qed.
Print Assumptions C14_authorization_endpoint.

(* ---- code redemption, device grant *)
Theorem C14_redemption : forall g cl h st at_ c now t,
  x_idt (redeem_step g cl h st at_ c now) = Some t ->
  exists s, st = Some s /\ has_openid (s_granted s) = true /\
    bound_to g (cl_id (s_client s)) (eff_life g cl GCode) (fget "nonce" (s_form s)) c now t /\
    t_at t = HOf (hash_of_hdr h) at_ /\ t_ch t = c_ch c /\
    (fget "grant_type" (s_form s) <> "refresh_token" -> ~ requirement_unmet (s_form s) (s_parsed s) c).
Proof. exact redemption_id_token. Qed.
Print Assumptions C14_redemption.

Theorem C14_device : forall g cl h st at_ c now t,
  x_idt (device_step g cl h st at_ c now) = Some t ->
  exists s, st = Some s /\ has_openid (s_granted s) = true /\
    bound_to g (cl_id (s_client s)) (eff_life g cl GDevice) (fget "nonce" (s_form s)) c now t /\
    t_at t = HOf (hash_of_hdr h) at_ /\ t_ch t = c_ch c /\
    (fget "grant_type" (s_form s) <> "refresh_token" -> ~ requirement_unmet (s_form s) (s_parsed s) c).
Proof. exact device_id_token. Qed.
Print Assumptions C14_device.

(* ---- the code flow end to end: the token obtained for a code carries the client, subject and
   nonce of the AUTHORIZATION request (the nonce goes through the sanitized, stored request), the
   at_hash of the token response's access token, no c_hash or that of the redeemed code, and
   the authorization request's max_age / prompt / id_token_hint were satisfied *)
Theorem C14_code_flow_binding : forall g cl h a c now1 cl2 at2 now2 t,
  let r1 := authorize_step g cl h a c now1 in
  r_err r1 = None ->
  x_idt (redeem_step g cl2 h (r_stored r1) at2 (r_claims r1) now2) = Some t ->
  has_openid (a_granted a) = true /\
  c_sub c <> "" /\ t_sub t = c_sub c /\
  In (cl_id cl) (t_aud t) /\
  t_nonce t = (if String.eqb (fget "nonce" (a_form a)) "" then c_nonce c else fget "nonce" (a_form a)) /\
  t_at t = HOf (hash_of_hdr h) at2 /\
  (c_ch c = HNone -> t_ch t = HNone \/ t_ch t = HOf (hash_of_hdr h) (a_code a)) /\
  (exists e, t_exp t = Some e /\ now2 <= e) /\
  ~ requirement_unmet_at_authorization (a_form a) (a_parsed a) c.
Proof. exact code_flow_binding. Qed.
Print Assumptions C14_code_flow_binding.

(* the white-list read from the source keeps the four parameters (applied to the extracted list
   by evaluation in the generated case file: KWhitelist) *)
Theorem C14_whitelist_keeps : forall wl f,
  whitelist_ok wl = true ->
  fget "nonce" (sanitize wl f) = fget "nonce" f /\ fget "max_age" (sanitize wl f) = fget "max_age" f /\
  fget "prompt" (sanitize wl f) = fget "prompt" f /\ fget "id_token_hint" (sanitize wl f) = fget "id_token_hint" f.
Proof. exact whitelist_keeps. Qed.
Print Assumptions C14_whitelist_keeps.

(* ---- refresh: same rules for the new access token, c_hash dropped, expiry recomputed *)
Theorem C14_refresh : forall g cl h granted f at_ c now t,
  x_idt (refresh_step g cl h granted f at_ c now) = Some t ->
  has_openid granted = true /\
  c_sub c <> "" /\ t_sub t = c_sub c /\ In (cl_id cl) (t_aud t) /\
  t_iss t = (if String.eqb (c_iss c) "" then g_iss g else c_iss c) /\
  t_at t = HOf (hash_of_hdr h) at_ /\ t_ch t = HNone /\
  t_exp t = Some (now + life_of (eff_life g cl GRefresh)) /\ now <= now + life_of (eff_life g cl GRefresh) /\
  t_nonce t = (if String.eqb (fget "nonce" f) "" then c_nonce c else fget "nonce" f).
Proof. exact refresh_id_token. Qed.
Print Assumptions C14_refresh.

(* Clause "a refreshed ID token's nonce, when present, is the authorization request's" (DESIGN 6.0):
     forall ..., x_idt (refresh_step g cl h granted f at_ c now) = Some t -> t_nonce t = c_nonce c
   holds when the refresh request carries no nonce parameter ... *)
Theorem C14_refresh_nonce_partial : forall g cl h granted f at_ c now t,
  fget "nonce" f = "" ->
  x_idt (refresh_step g cl h granted f at_ c now) = Some t -> t_nonce t = c_nonce c.
Proof. exact refresh_nonce_kept. Qed.
Print Assumptions C14_refresh_nonce_partial.

(* ... and is FALSE otherwise (finding): the nonce of the refresh request replaces it *)
Theorem C14_refresh_nonce_refuted :
  exists g cl h granted f at_ c now t,
    x_idt (refresh_step g cl h granted f at_ c now) = Some t /\
    c_nonce c = "nonce-of-the-authorization" /\ t_nonce t = "smuggled-nonce-0123456789".
Proof. exact refresh_nonce_refuted. Qed.
Print Assumptions C14_refresh_nonce_refuted.

(* ---- Clause "at_hash / c_hash equal the left half of the hash, chosen by the token's algorithm":
     forall ..., r_idt (authorize_step g cl h a c now) = Some t -> r_at r = true ->
                 hash_is (key_alg (g_key g)) (t_at t) (a_token a) = true
   holds when the session header's alg names the same hash function as the signing key's
   algorithm ([header_consistent]; e.g. RS256/ES256 keys with an empty header) ... *)
Theorem C14_hashes_follow_token_alg_partial : forall g cl h a c now t,
  header_consistent g h ->
  r_idt (authorize_step g cl h a c now) = Some t ->
  let r := authorize_step g cl h a c now in
  (r_at r = true -> hash_is (key_alg (g_key g)) (t_at t) (a_token a) = true) /\
  (r_code r = true -> hash_is (key_alg (g_key g)) (t_ch t) (a_code a) = true).
Proof. exact hashes_follow_token_alg. Qed.
Print Assumptions C14_hashes_follow_token_alg_partial.

(* ... and is FALSE in general (finding A6): ES384 JWK key, session header without alg *)
Theorem C14_hash_by_token_alg_refuted :
  exists g cl h a c now t,
    r_idt (authorize_step g cl h a c now) = Some t /\ r_at (authorize_step g cl h a c now) = true /\
    key_alg (g_key g) = "ES384" /\ t_at t = HOf SHA256 (a_token a) /\
    hash_is (key_alg (g_key g)) (t_at t) (a_token a) = false.
Proof. exact hash_by_token_alg_refuted. Qed.
Print Assumptions C14_hash_by_token_alg_refuted.

(* ---- the monitor evaluated on the implementation's observations accepts whatever the model
   produces (model_idt: signed with the configured key), up to the two findings *)
Theorem C14_monitor_is_model_generate : forall g cid life f p c now,
  mon_opt (expect_gen g cid life f p c now)
          (model_idt g (match snd (generate g cid life f p c now) with OTok t => Some t | OErr _ => None end)) = None.
Proof. exact mon_gen_is_model. Qed.
Print Assumptions C14_monitor_is_model_generate.

Theorem C14_monitor_is_model_authorize : forall g cl h a c now,
  let r := authorize_step g cl h a c now in
  let m := mon_opt (expect_auth g cl h a c now (r_code r) (r_at r)) (model_idt g (r_idt r)) in
  (m = None \/ m = Some "hash_alg_from_session_header") /\ (header_consistent g h -> m = None).
Proof. exact mon_auth_is_model. Qed.
Print Assumptions C14_monitor_is_model_authorize.

Theorem C14_monitor_is_model_redeem : forall g cl h (present : bool) ocl a at_ c now,
  fget "grant_type" (a_form a) <> "refresh_token" ->
  (c_ch c = HNone \/ c_ch c = HOf (hash_of_hdr h) (a_code a)) ->
  let r := redeem_step g cl h (if present then Some (mk_stored ocl a) else None) at_ c now in
  let m := mon_opt (expect_redeem g cl ocl h a at_ c now) (model_idt g (x_idt r)) in
  (m = None \/ m = Some "hash_alg_from_session_header") /\ (header_consistent g h -> m = None).
Proof. exact mon_redeem_is_model. Qed.
Print Assumptions C14_monitor_is_model_redeem.

Theorem C14_monitor_is_model_device : forall g cl h s at_ c now,
  fget "grant_type" (s_form s) <> "refresh_token" ->
  let r := device_step g cl h (Some s) at_ c now in
  let m := mon_opt (expect_device g cl h s at_ c now) (model_idt g (x_idt r)) in
  (m = None \/ m = Some "hash_alg_from_session_header") /\ (header_consistent g h -> m = None).
Proof. exact mon_device_is_model. Qed.
Print Assumptions C14_monitor_is_model_device.

Theorem C14_monitor_is_model_refresh : forall g cl h granted f at_ c now auth_nonce,
  (c_nonce c = "" \/ c_nonce c = auth_nonce) ->
  let r := refresh_step g cl h granted f at_ c now in
  let m := mon_opt (expect_refresh g cl h granted f at_ c now auth_nonce) (model_idt g (x_idt r)) in
  (m = None \/ exists t, m = Some t /\ is_refresh_finding t) /\
  (header_consistent g h -> (fget "nonce" f = "" \/ fget "nonce" f = auth_nonce) -> m = None).
Proof. exact mon_refresh_is_model. Qed.
Print Assumptions C14_monitor_is_model_refresh.
