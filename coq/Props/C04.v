(* C04 — refresh tokens rotate: one use each; reuse kills the whole token family.  Statements only. *)
From FositeModel Require Import Base.Str Model.Scope Model.Core Model.Flows Proofs.Decay Proofs.C04Proofs Cases.CasesHist Cases.Monitors Proofs.MonitorC04.

(* each refresh token is exchanged successfully at most once, and a successful exchange returns a new pair *)
Theorem C04_refresh_token_single_use :
  forall cfg cls h1 auth tok h2 auth' tok',
  let s1 := run cfg (state0 cls) h1 in
  let res1 := refresh_flow cfg s1 auth tok in
  o_err (snd res1) = "" ->
  o_minted (snd res1) = [KAccess; KRefresh] /\
  (let s2 := run cfg (fst res1) h2 in
   key_of s2 tok' = key_of s1 tok ->
   let res2 := refresh_flow cfg s2 auth' tok' in
   o_err (snd res2) <> "" /\ o_minted (snd res2) = [] /\
   (forall c cl, auth' = Some c -> clients s2 c = Some cl ->
                 args_has (cl_grants cl) ["refresh_token"] = true -> o_err (snd res2) = "invalid_grant")).
Proof. exact refresh_token_single_use. Qed.
Print Assumptions C04_refresh_token_single_use.

(* the exchange retires everything the grant had handed out before: the presented refresh token, the access
   token issued alongside it, and every older generation are inactive from then on, after any history *)
Theorem C04_exchange_retires_previous_generation :
  forall cfg cls h1 auth tok h2,
  let s1 := run cfg (state0 cls) h1 in
  let res1 := refresh_flow cfg s1 auth tok in
  o_err (snd res1) = "" ->
  exists k r, key_of s1 tok = Some k /\ refresh (st s1) k = Some (true, r) /\
  forall i e tampered hint scopes,
    nth_error (log s1) i = Some e -> i_rid e = r_id r ->
    introspect cfg (run cfg (fst res1) h2) {| p_ref := CRef i; p_tampered := tampered |} hint scopes = None.
Proof. exact rotation_retires_old_pair. Qed.
Print Assumptions C04_exchange_retires_previous_generation.

(* presenting an already-used refresh token (authenticated client that may use the grant): invalid_grant, and
   every credential of that grant — the newest pair included — is inactive from then on *)
Theorem C04_reuse_kills_the_family :
  forall cfg cls h1 c cl tok k r h2 i e tampered hint scopes,
  let s1 := run cfg (state0 cls) h1 in
  clients s1 c = Some cl -> args_has (cl_grants cl) ["refresh_token"] = true ->
  key_of s1 tok = Some k -> refresh (st s1) k = Some (false, r) ->
  let res := refresh_flow cfg s1 (Some c) tok in
  o_err (snd res) = "invalid_grant" /\ o_minted (snd res) = [] /\
  (let s2 := run cfg (fst res) h2 in
   nth_error (log s2) i = Some e -> i_rid e = r_id r ->
   introspect cfg s2 {| p_ref := CRef i; p_tampered := tampered |} hint scopes = None).
Proof. exact reuse_kills_family. Qed.
Print Assumptions C04_reuse_kills_the_family.

(* ... while tokens of other grants are unaffected by the reuse handling *)
Theorem C04_reuse_spares_other_grants :
  forall cfg cls h1 c cl tok k r i e tampered hint scopes,
  let s1 := run cfg (state0 cls) h1 in
  clients s1 c = Some cl -> args_has (cl_grants cl) ["refresh_token"] = true ->
  key_of s1 tok = Some k -> refresh (st s1) k = Some (false, r) ->
  nth_error (log s1) i = Some e -> i_rid e <> r_id r ->
  introspect cfg (fst (refresh_flow cfg s1 (Some c) tok)) {| p_ref := CRef i; p_tampered := tampered |} hint scopes
  = introspect cfg s1 {| p_ref := CRef i; p_tampered := tampered |} hint scopes.
Proof. exact reuse_spares_other_grants. Qed.
Print Assumptions C04_reuse_spares_other_grants.

(* the history monitor (Cases/Monitors.v judge_C04) on the model: whatever the tracker state, the model's answer to a
   refresh never trips the clause "an accepted exchange returns a new access/refresh pair", and a presented token the
   tracker has not seen exchanged never trips any clause *)
Theorem C04_monitor_pair_clause_holds_of_the_model : forall cfg m s auth tok sm pr,
  fst (fst (judge_C04 m (ORefresh auth tok sm) (snd (step cfg s (ORefresh auth tok sm))) pr))
  <> Some "exchange_did_not_return_a_new_pair".
Proof. exact judge_C04_pair_clause_sound. Qed.
Print Assumptions C04_monitor_pair_clause_holds_of_the_model.
Theorem C04_monitor_silent_on_a_token_not_yet_exchanged : forall cfg m s auth tok sm pr j c,
  cred m tok = Some (j, c) -> memn j (m_used_rt m) = false ->
  fst (fst (judge_C04 m (ORefresh auth tok sm) (snd (step cfg s (ORefresh auth tok sm))) pr)) = None.
Proof. exact judge_C04_fresh_token_sound. Qed.
Print Assumptions C04_monitor_silent_on_a_token_not_yet_exchanged.
