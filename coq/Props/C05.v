(* C05 — refreshing never widens a grant and never crosses clients.  Statements only. *)
From FositeModel Require Import Base.Str Model.Scope Model.Core Model.Flows Proofs.StepProps.

(* a refresh is honoured only for the issuing client, which must still be registered for the refresh_token
   grant and still be allowed every originally granted scope and audience; the new records carry the original
   subject/session, granted scopes and granted audience, whatever else the request contains *)
Theorem C05_refresh_honoured_only_within_the_grant :
  forall cfg s auth tok,
  o_err (snd (refresh_flow cfg s auth tok)) = "" ->
  exists k r cl,
    key_of s tok = Some k /\ refresh (st s) k = Some (true, r) /\ p_tampered tok = false /\
    auth = Some (r_client r) /\ clients s (r_client r) = Some cl /\
    args_has (cl_grants cl) ["refresh_token"] = true /\
    scopes_ok cfg cl (r_gscopes r) = true /\ aud_ok cfg (cl_aud cl) (r_gaud r) = true /\
    not_expired (s_exp_rt (r_sess r)) (now s) /\
    (match cf_refresh_scopes cfg with [] => true | sc => args_has_one_of (r_gscopes r) sc end) = true /\
    let res := refresh_flow cfg s auth tok in
    o_scopes (snd res) = r_gscopes r /\
    (exists ka, access (st (fst res)) ka = Some (minted_record (eff_cfg cfg cl LRefresh) s r cl)) /\
    (exists kr, refresh (st (fst res)) kr = Some (true, minted_record (eff_cfg cfg cl LRefresh) s r cl)).
Proof. exact refresh_ok_facts. Qed.
Print Assumptions C05_refresh_honoured_only_within_the_grant.

Theorem C05_refresh_request_parameters_ignored :
  forall cfg s auth tok sm sm', step cfg s (ORefresh auth tok sm) = step cfg s (ORefresh auth tok sm').
Proof. exact refresh_ignores_smuggled. Qed.
Print Assumptions C05_refresh_request_parameters_ignored.

(* code flow: a refresh token is issued only if the grant contains a configured refresh scope (when any is
   configured) and the client the authorization was written for is registered for refresh_token *)
Theorem C05_code_flow_refresh_token_issuance :
  forall cfg s auth code redirect v vh,
  o_err (snd (redeem cfg s auth code redirect v vh)) = "" ->
  In KRefresh (o_minted (snd (redeem cfg s auth code redirect v vh))) ->
  exists k r, key_of s code = Some k /\ codes (st s) k = Some (true, r) /\ can_refresh cfg (r_gscopes r) (r_cl r) = true.
Proof.
  intros cfg s auth code redirect v vh H Hin.
  destruct (redeem_ok_facts cfg s auth code redirect v vh H) as [k [r [cl [F [_ [_ [_ G]]]]]]].
  exists k, r. destruct F. destruct (G Hin). auto.
Qed.
Print Assumptions C05_code_flow_refresh_token_issuance.

(* the refresh clauses of the history monitor (Cases/Monitors.v judge_C05) on the model: for a tracker whose view of the
   presented token (client, granted scopes, granted audience) is the stored record's and whose registrations are the
   state's, the judge is silent on the model's answer to every refresh request *)
From FositeModel Require Import Cases.CasesHist Cases.Monitors Proofs.MonitorC12H.
Theorem C05_monitor_refresh_clauses_hold_of_the_model : forall cfg m s auth tok sm pr j c,
  cred m tok = Some (j, c) ->
  (forall a, nth_error (m_clients m) a = clients s a) ->
  (forall k r, key_of s tok = Some k -> refresh (st s) k = Some (true, r) ->
     ci_client c = r_client r /\ ci_scopes c = r_gscopes r /\ ci_aud c = r_gaud r) ->
  judge_C05 cfg m (ORefresh auth tok sm) (snd (step cfg s (ORefresh auth tok sm))) pr = (None, [], []).
Proof. exact judge_C05_refresh_sound. Qed.
Print Assumptions C05_monitor_refresh_clauses_hold_of_the_model.
