(* C19 — one provider and the reference store are safe under concurrent requests.
   Only statements: each is closed by [exact <lemma>] and followed by Print Assumptions.

   The lock table [ms] the theorems quantify over is DATA: on every run the harness translates
   storage/*.go of the tree under test into a [list method] and evaluates [lock_discipline_ok]
   and the per-element tags on it inside the generated case files (reflection); the theorems
   below hold for every table and are applied to the one of the current tree. *)
From FositeModel Require Import Base.Str Model.Locks Proofs.LocksProofs Proofs.LocksExamples
  Model.ConcStore Cases.CasesC19 Proofs.MonitorC19 Proofs.SchedProofs.

(* every event sequence a thread can produce by running methods of an accepted table — any
   control flow through the method bodies, returns at the marked return points, calls to other
   store methods expanded, deferred releases, explicit unlocks — keeps the discipline at run time:
   guards held at every access, no re-acquisition, acquisitions in rank order, every unlock of a
   held mutex, everything released when the method returns *)
Theorem C19_paths_keep_discipline : forall ms p,
  lock_discipline_ok ms = true -> tpath ms p ->
  run (G_of ms) (rk_of ms) [] p = Some [].
Proof. exact ok_tpath. Qed.
Print Assumptions C19_paths_keep_discipline.

(* "no execution has a data race" on the store's tables: for any number of threads, each running
   any sequence of store methods, under any interleaving of their events, no reachable state has
   two threads about to access the same table with one of them writing *)
Theorem C19_no_conflicting_access : forall ms,
  lock_discipline_ok ms = true ->
  forall progs, Forall (tpath ms) progs ->
  forall s, steps (init progs) s -> ~ race s.
Proof. exact no_race. Qed.
Print Assumptions C19_no_conflicting_access.

(* "no execution deadlocks" inside the store: in every reachable state all threads have finished
   or some thread can take a step (sync.RWMutex with writer preference: a pending writer blocks
   new readers) *)
Theorem C19_no_deadlock : forall ms,
  lock_discipline_ok ms = true ->
  forall progs, Forall (tpath ms) progs ->
  forall s, steps (init progs) s -> finished s \/ exists s', step s s'.
Proof. exact no_deadlock. Qed.
Print Assumptions C19_no_deadlock.

(* the tags reported by the monitor are exactly the checker's objections *)
Theorem C19_tags_iff_rejected : forall ms, diagnose ms = [] <-> lock_discipline_ok ms = true.
Proof. exact diagnose_nil_ok. Qed.
Print Assumptions C19_tags_iff_rejected.

(* monitor = model for the static cases: quiet on an accepted table, and on a rejected table one
   of the cases the harness enumerates (one per element of the table) alarms *)
Theorem C19_static_cases_quiet : forall ms sel, lock_discipline_ok ms = true -> find_tag sel ms = None.
Proof. exact static_cases_quiet. Qed.
Print Assumptions C19_static_cases_quiet.

Theorem C19_static_cases_complete : forall ms,
  lock_discipline_ok ms = false ->
  names_unique ms = false \/ exists f, In f (all_facts ms) /\ find_tag (sel_of f) ms <> None.
Proof. exact static_cases_complete. Qed.
Print Assumptions C19_static_cases_complete.

(* monitor = model for the pair cases: on an accepted table the pairwise lockset criterion predicts
   no race for any two methods, so a race reported by the detector inside the store is a
   correspondence failure *)
Theorem C19_accepted_table_predicts_no_race : forall ms f g,
  lock_discipline_ok ms = true -> may_race ms f g = None.
Proof. exact ok_no_predicted_race. Qed.
Print Assumptions C19_accepted_table_predicts_no_race.

(* Finding A4 (pinned tree): the shape `RevokeRefreshToken` has there — RefreshTokens read and
   written under the index mutex only — is rejected, and the rejection is semantic: with one
   thread in GetRefreshTokenSession and one in RevokeRefreshToken a state with a read and a write
   of RefreshTokens both enabled is reachable.  With the table mutex taken after the index mutex
   the same table is accepted. *)
Theorem C19_pinned_revoke_shape_refuted :
  lock_discipline_ok tbl_pinned = false /\
  exists progs s, Forall (tpath tbl_pinned) progs /\ steps (init progs) s /\ race s.
Proof. exact (conj pinned_rejected pinned_shape_races). Qed.
Print Assumptions C19_pinned_revoke_shape_refuted.

Theorem C19_repaired_revoke_shape_accepted :
  lock_discipline_ok tbl_repaired = true /\
  forall progs s, Forall (tpath tbl_repaired) progs -> steps (init progs) s -> ~ race s.
Proof. exact (conj repaired_accepted repaired_shape_never_races). Qed.
Print Assumptions C19_repaired_revoke_shape_accepted.

(* Explicit Unlock and early returns (the fragment now covers `Lock()` without defer, a top-level
   `Unlock()`, and return points): a method that can return with a mutex it locked still held is
   rejected ([held-at-return]), and the rejection is semantic: for the shape of a
   SetClientAssertionJWT whose "already known" path returns before the Unlock, a state is
   reachable in which not every thread has finished and no thread can step (the goroutine's next
   call waits for the mutex its previous call leaked).  The same method with the Unlock on every
   path is accepted. *)
Theorem C19_leaked_lock_shape_refuted :
  diagnose [m_setjwt_leaky; m_jwtvalid] = ["held-at-return:SetClientAssertionJWT:blacklistedJTIsMutex"] /\
  exists progs s, Forall (tpath [m_setjwt_leaky; m_jwtvalid]) progs /\ steps (init progs) s /\
                  ~ finished s /\ ~ exists s', step s s'.
Proof. exact (conj leaky_tags leaky_shape_deadlocks). Qed.
Print Assumptions C19_leaked_lock_shape_refuted.

(* the access/refresh-token methods as translated from the repaired tree (0f6e2d9, 208b00a:
   RevokeAccessToken takes the index mutex, then the table mutex, and loops over AccessTokens) are
   accepted, hence race- and deadlock-free for any threads and schedules *)
Theorem C19_repaired_tree_shapes_accepted :
  lock_discipline_ok tbl_current = true /\
  forall progs s, Forall (tpath tbl_current) progs -> steps (init progs) s ->
    ~ race s /\ (finished s \/ exists s', step s s').
Proof. exact (conj current_accepted current_shape_safe). Qed.
Print Assumptions C19_repaired_tree_shapes_accepted.

(* ------------------------------------------------------------------ interleavings at storage-call granularity
   A concurrent execution of API operations is, at the store, a sequence of storage calls each
   taking effect atomically (the lock theorems above); the final state is BY DEFINITION of the model
   the sequential replay of that sequence ([replay]).  "Every token handed to a caller is either
   active or was invalidated by one of the concurrent requests": in the sequential store model, for
   EVERY sequence of storage calls whose creation keys are pairwise distinct, a created credential
   is live after the whole sequence or a later call of the sequence deleted its record, revoked /
   rotated its request id, or invalidated the code. *)
Theorem C19_live_or_invalidated_by_a_logged_step : forall clients calls kd k b,
  distinct_creates calls = true ->
  invalidated_later kd k calls = Some b ->
  live (replay clients cs0 calls) kd k || b = true.
Proof. exact model_satisfies_liveness_clause. Qed.
Print Assumptions C19_live_or_invalidated_by_a_logged_step.

(* monitor = model for the schedule cases: observations equal to the model's are accepted *)
Theorem C19_schedule_monitor_quiet_on_model : forall clients (log : list entry) minted,
  let calls := map (fun e => snd (fst e)) log in
  let s := replay clients cs0 calls in
  distinct_creates calls = true ->
  (forall kd k alive, In (kd, k, alive) minted ->
     alive = live s kd k /\ invalidated_later kd k calls <> None) ->
  sched_mon clients log s minted 0 = None.
Proof. exact sched_mon_quiet. Qed.
Print Assumptions C19_schedule_monitor_quiet_on_model.

(* Repaired store (commit 208b00a): revocation reaches EVERY access token of the request.  For
   every sequence of storage calls with pairwise distinct creation keys, an access token created
   under request id r and followed, later in the sequence, by RevokeAccessToken r is dead after the
   whole sequence — whichever signature the request-id index happens to hold. *)
Theorem C19_revoked_access_token_is_dead : forall clients calls k,
  distinct_creates calls = true ->
  revoked_later k calls = Some true ->
  live (replay clients cs0 calls) TAccess k = false.
Proof. exact revoked_access_token_is_dead. Qed.
Print Assumptions C19_revoked_access_token_is_dead.

(* one step, any store state: after RevokeAccessToken r — and after a RotateRefreshToken r that
   answered nil — no access-token record of request r is left *)
Theorem C19_revoke_clears_every_access_token_of_the_request : forall clients s r k,
  ~ In (k, r) (c_at (fst (sstep clients s (VAt r)))).
Proof. exact revoke_step_clears_request. Qed.
Print Assumptions C19_revoke_clears_every_access_token_of_the_request.

Theorem C19_rotate_clears_every_access_token_of_the_request : forall clients s r k0 k,
  snd (sstep clients s (Rot r k0)) = K -> ~ In (k, r) (c_at (fst (sstep clients s (Rot r k0)))).
Proof. exact rotate_step_clears_request. Qed.
Print Assumptions C19_rotate_clears_every_access_token_of_the_request.

(* one critical section per written table ([split_section], Model/Locks.v): the scan that the check runs on the event
   sequence of every store method accepts only sequences in which no table is accessed, has its guard released, and is
   accessed again - the shape of a test-and-set that is split over two critical sections (race-free, deadlock-free,
   and not atomic: two callers can both pass the test) *)
Theorem C19_no_access_release_access_of_one_table : forall G t m a a' l1 l2 l3 l4,
  alookup t G = Some m ->
  split_scan G (l1 ++ Acc t a :: l2 ++ Rel m :: l3 ++ Acc t a' :: l4) [] [] <> None.
Proof. exact split_scan_sound. Qed.
Print Assumptions C19_no_access_release_access_of_one_table.

(* Stated, not proved (C19_atomicity_partial): "every execution of the store's methods under the
   event-level semantics of Model/Locks.v is equivalent to one in which each two-phase method runs
   without interruption" (conflict-serialisability of two-phase locking).  What is proved is the
   absence of conflicting simultaneous accesses and of deadlocks; the reduction argument that turns
   this into method-level atomicity is missing, and RotateRefreshToken is not two-phase (it is two
   atomic steps, RevokeRefreshToken then RevokeAccessToken, as in the source).  "Token generation
   never returns the same value twice" rests on crypto/rand; it is checked on every run's tokens
   ([distinct_creates], tag duplicate-signature), not proved. *)
