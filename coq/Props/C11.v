(* C11 — the authorization endpoint never redirects to an unregistered URI.
   Only statements: each is closed by [exact <lemma>] and followed by Print Assumptions.

   URIs are records [purl] whose components Go's net/url, net and govalidator computed (inputs of
   the model, see Model/Redirect.v); every decision taken on them is fosite's and is modelled.
   Vocabulary (Proofs/RedirectProofs.v):
     loopback_rule req b        b parses, req is http on a loopback IP literal, hostname / path / raw query equal
     absolute_no_fragment u     u parses, govalidator.IsRequestURL(u.String()), u.Fragment = ""
     redirect_spec req regs u   u is the URI a request for req may be answered at: req itself when it is
                                string-identical to a registered URI or satisfies the loopback rule, the only
                                registered URI when req is the empty string; absolute, no fragment
     targets params m u         the written response m goes to u: base (scheme, authority, path) of u, u's own
                                query kept, fragment only the response's own parameters
     local_host u               hostname "localhost", or ending in ".localhost", or a loopback IP literal *)
From FositeModel Require Import Base.Str Model.Redirect Cases.CasesC11 Proofs.RedirectProofs Proofs.MonitorC11.

(* 1. The matcher decides exactly the specification, for all raw strings / records / registered lists. *)
Theorem C11_matcher_exact : forall req regs u,
  match_redirect req regs = Some u <-> redirect_spec req regs u.
Proof. exact match_redirect_spec. Qed.
Print Assumptions C11_matcher_exact.

(* 2. ... in the property's words: an accepted URI is absolute and fragment-free, and is either the
      only registered URI (no redirect_uri given) or the requested one, which then is string-identical to a
      registered URI or obeys the loopback rule. *)
Theorem C11_matcher_sound : forall req regs u,
  match_redirect req regs = Some u ->
  absolute_no_fragment u /\
  ((u_raw req = "" /\ regs = [u]) \/
   (u_raw req <> "" /\ u = req /\
    exists b, In b regs /\ (u_raw b = u_raw req \/ loopback_rule req b))).
Proof. exact match_redirect_sound. Qed.
Print Assumptions C11_matcher_sound.

(* 3. A missing redirect_uri is only accepted with exactly one registered URI. *)
Theorem C11_missing_uri_needs_single_registration : forall req regs,
  u_raw req = "" -> List.length regs <> 1 -> match_redirect req regs = None.
Proof. exact missing_uri_needs_single_registration. Qed.
Print Assumptions C11_missing_uri_needs_single_registration.

(* 4. Unparsable, or neither string-identical to nor loopback-matching any registered URI: refused. *)
Theorem C11_unregistered_is_refused : forall req regs,
  u_raw req <> "" ->
  (u_ok req = false \/ forall b, In b regs -> u_raw b <> u_raw req /\ ~ loopback_rule req b) ->
  match_redirect req regs = None.
Proof. exact unparsable_or_unregistered_is_refused. Qed.
Print Assumptions C11_unregistered_is_refused.

(* 5. IsRedirectURIValid re-establishes the specification on the string the request's URL serialises to. *)
Theorem C11_request_validity : forall ru cl,
  is_redirect_uri_valid ru cl = true <->
  exists u regs v, ru = Some u /\ cl = Some regs /\ redirect_spec (u_re u) regs v.
Proof. exact is_redirect_uri_valid_spec. Qed.
Print Assumptions C11_request_validity.

(* 6. WriteAuthorizeError, every requester state, every response mode, every parameter list: either the
      validity check fails and the error is rendered directly, or it holds and the response goes to the
      request's own URL (never a nil dereference). *)
Theorem C11_error_writer : forall ar params,
  (is_redirect_uri_valid (ar_redirect ar) (ar_client ar) = false /\ write_authorize_error ar params = MDirect)
  \/ (exists u regs v, ar_redirect ar = Some u /\ ar_client ar = Some regs /\
        redirect_spec (u_re u) regs v /\ targets params (write_authorize_error ar params) u).
Proof. exact write_error_spec. Qed.
Print Assumptions C11_error_writer.

(* 7. ... and when it redirects, the URL it redirects to is itself the qualifying URI, provided its string
      form is not empty ([u_raw (u_re u) = u_str u] says that the record u_re u describes url.Parse(u.String())). *)
Theorem C11_error_writer_target_qualifies : forall ar params u,
  is_redirect (write_authorize_error ar params) -> ar_redirect ar = Some u ->
  u_raw (u_re u) = u_str u -> u_str u <> "" ->
  exists regs, ar_client ar = Some regs /\ redirect_spec (u_re u) regs (u_re u) /\
               targets params (write_authorize_error ar params) u.
Proof. exact error_writer_target_qualifies. Qed.
Print Assumptions C11_error_writer_target_qualifies.

(* 8. FINDING (recorded, replayable): without the side condition of 7 the clause
        "forall ar, write_authorize_error redirects -> the target is a qualifying URI"
      is false of the faithful model: a requester whose RedirectURI is a non-nil empty URL, client with one
      registered URI; the error is redirected to the empty URL (Location "?error=..."). *)
Theorem C11_error_writer_empty_uri_refuted :
  exists ar params b hq q f,
    ar_client ar = Some [ex_web] /\
    write_authorize_error ar params = MRedirect b hq q f /\ b <> u_base ex_web /\
    forall u, ar_redirect ar = Some u -> ~ redirect_spec (u_re u) [ex_web] u.
Proof. exact error_writer_empty_uri_refuted. Qed.
Print Assumptions C11_error_writer_empty_uri_refuted.

(* 9. WriteAuthorizeResponse on a requester whose URL has no fragment (what validation guarantees):
      form action / Location base are the URL's, its query is kept, the fragment is the response's own. *)
Theorem C11_response_writer : forall ar params u,
  ar_redirect ar = Some u -> u_frag u = "" ->
  targets params (write_authorize_response ar params) u.
Proof. exact write_response_spec. Qed.
Print Assumptions C11_response_writer.

(* 10. End to end (NewAuthorizeRequest, NewAuthorizeResponse, both writers; every client, requested URI,
       response mode, response type, checker, and failure before / after redirect validation or by the
       embedding application): every redirect, for success and for error alike, goes to the URI the
       specification allows. *)
Theorem C11_endpoint_redirects_only_to_allowed : forall e params err m,
  authorize_endpoint e params = (err, m) -> is_redirect m ->
  exists regs u, e_client e = Some regs /\ redirect_spec (e_req e) regs u /\ targets params m u.
Proof. exact endpoint_redirects_only_to_allowed. Qed.
Print Assumptions C11_endpoint_redirects_only_to_allowed.

(* 11. When the requested redirect_uri does not qualify (or is missing while several are registered, or
       the client is unknown) the error is rendered directly and no redirect is issued. *)
Theorem C11_endpoint_renders_directly_when_not_allowed : forall e params,
  (e_client e = None \/ exists regs, e_client e = Some regs /\ forall u, ~ redirect_spec (e_req e) regs u) ->
  authorize_endpoint e params = (true, MDirect).
Proof. exact endpoint_renders_directly_when_not_allowed. Qed.
Print Assumptions C11_endpoint_renders_directly_when_not_allowed.

(* 12. The transport rule: characterisation of IsLocalhost / IsRedirectURISecure / ...Strict / the configured checker. *)
Theorem C11_secure_checker : forall c u,
  (is_localhost u = true <-> local_host u) /\
  (is_redirect_uri_secure u = true <-> (u_scheme u = "http" -> local_host u)) /\
  (is_redirect_uri_secure_strict u = true <-> u_scheme u = "https" \/ (u_scheme u = "http" /\ local_host u)) /\
  (secure_checker c u = true <-> transport_spec c u).
Proof. exact secure_checker_all. Qed.
Print Assumptions C11_secure_checker.

(* 13. The authorization-code flow answers successfully over plain http only on loopback/localhost hosts
       unless configured otherwise (transport_spec of the configured checker). *)
Theorem C11_code_flow_transport : forall e params m,
  authorize_endpoint e params = (false, m) -> e_rtype e = RCode ->
  exists regs u, e_client e = Some regs /\ redirect_spec (e_req e) regs u /\ targets params m u /\
                 transport_spec (e_checker e) u.
Proof. exact code_flow_transport. Qed.
Print Assumptions C11_code_flow_transport.

(* 14. The pushed-authorization endpoint accepts only an allowed URI that satisfies the transport rule ... *)
Theorem C11_par_transport : forall e ar,
  pushed_authorize e = Some ar ->
  exists regs u, e_client e = Some regs /\ ar_redirect ar = Some u /\ ar_client ar = Some regs /\
                 redirect_spec (e_req e) regs u /\ transport_spec (e_checker e) u.
Proof. exact par_transport. Qed.
Print Assumptions C11_par_transport.

(* 15. ... and the authorization request that continues it redirects to that URI only. *)
Theorem C11_par_follow_up_target : forall e ar params err m,
  pushed_authorize e = Some ar -> authorize_from_par e ar params = (err, m) -> is_redirect m ->
  exists regs u, e_client e = Some regs /\ redirect_spec (e_req e) regs u /\ targets params m u.
Proof. exact par_follow_up_target. Qed.
Print Assumptions C11_par_follow_up_target.

(* 16. The monitor evaluated on the implementation's observations is silent whenever the model reproduces
       the observation, except for the two recorded defects (8 and the html/template action replacement),
       which it names: any other alarm comes from code that differs from the model. *)
Theorem C11_monitor_silent_on_model : forall c,
  corr (check c) = None ->
  mon (check c) = None \/ mon (check c) = Some "werr:empty_redirect_uri" \/ mon (check c) = Some zgot_tag.
Proof. exact monitor_silent_on_model. Qed.
Print Assumptions C11_monitor_silent_on_model.
