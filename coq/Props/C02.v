(* C02 — an authorization code is bound to client, redirect_uri and lifetime; the grant is immutable.
   Statements only. *)
From FositeModel Require Import Base.Str Model.Scope Model.Core Model.Flows Proofs.StepProps.

(* a redemption succeeds only for the issuing client, with the authorization request's redirect_uri (when one
   was sent), before the code expires, with the PKCE condition met; and the records minted carry the stored
   grant: scopes, audience, subject/session and request id of the authorization, for every other parameter *)
Theorem C02_redeem_only_by_holder_and_grant_preserved :
  forall cfg s auth code redirect v vh,
  o_err (snd (redeem cfg s auth code redirect v vh)) = "" ->
  exists k r cl, redeem_facts cfg s auth code redirect v vh k r cl /\
    let res := redeem cfg s auth code redirect v vh in
    o_scopes (snd res) = r_gscopes r /\
    o_expires_in (snd res) = expires_in (set_token_expiries (eff_cfg cfg cl LAuthCode) (now s) (r_sess r)) cfg (now s) /\
    (exists ka, access (st (fst res)) ka = Some (minted_record (eff_cfg cfg cl LAuthCode) s r cl)) /\
    (In KRefresh (o_minted (snd res)) ->
       can_refresh cfg (r_gscopes r) (r_cl r) = true /\
       exists kr, refresh (st (fst res)) kr = Some (true, minted_record (eff_cfg cfg cl LAuthCode) s r cl)).
Proof. exact redeem_ok_facts. Qed.
Print Assumptions C02_redeem_only_by_holder_and_grant_preserved.

(* any refused attempt on an unused code issues nothing and leaves every code and token record as it was:
   the code stays usable by its rightful holder *)
Theorem C02_refused_attempt_changes_nothing :
  forall cfg s auth code redirect v vh k r,
  key_of s code = Some k -> codes (st s) k = Some (true, r) ->
  o_err (snd (redeem cfg s auth code redirect v vh)) <> "" ->
  let s' := fst (redeem cfg s auth code redirect v vh) in
  codes (st s') = codes (st s) /\ access (st s') = access (st s) /\ refresh (st s') = refresh (st s) /\
  at_idx (st s') = at_idx (st s) /\ rt_idx (st s') = rt_idx (st s) /\ o_minted (snd (redeem cfg s auth code redirect v vh)) = [].
Proof. exact redeem_refused_tables. Qed.
Print Assumptions C02_refused_attempt_changes_nothing.

Theorem C02_foreign_client_invalid_grant :
  forall cfg s c cl code redirect v vh k r,
  clients s c = Some cl -> args_has (cl_grants cl) ["authorization_code"] = true ->
  key_of s code = Some k -> codes (st s) k = Some (true, r) -> p_tampered code = false ->
  r_client r <> c ->
  redeem cfg s (Some c) code redirect v vh = (s, err_obs "invalid_grant").
Proof. exact redeem_wrong_client. Qed.
Print Assumptions C02_foreign_client_invalid_grant.

Theorem C02_different_redirect_invalid_grant :
  forall cfg s c cl code redirect v vh k r,
  clients s c = Some cl -> args_has (cl_grants cl) ["authorization_code"] = true ->
  key_of s code = Some k -> codes (st s) k = Some (true, r) -> p_tampered code = false ->
  r_client r = c -> r_redirect r <> "" -> r_redirect r <> redirect ->
  redeem cfg s (Some c) code redirect v vh = (s, err_obs "invalid_grant").
Proof. exact redeem_wrong_redirect. Qed.
Print Assumptions C02_different_redirect_invalid_grant.

(* no other parameter of the token request (scope, audience, ...) reaches the flow *)
Theorem C02_token_request_parameters_cannot_change_the_grant :
  forall cfg s auth code redirect v vh sm sm',
  step cfg s (ORedeem auth code redirect v vh sm) = step cfg s (ORedeem auth code redirect v vh sm').
Proof. exact redeem_ignores_smuggled. Qed.
Print Assumptions C02_token_request_parameters_cannot_change_the_grant.

(* the acceptance clauses of the history monitor (Cases/Monitors.v judge_C02) on the model: for a tracker whose view of
   the presented code (client, redirect_uri, granted scopes) is the stored authorization request's, an accepted model
   redemption can only trip the clock clause (which compares two readings of the tracker's own clock) - never "foreign
   client", "without client authentication", "differing redirect_uri" or "token response scope differs from grant" *)
From FositeModel Require Import Cases.CasesHist Cases.Monitors Proofs.MonitorC02.
Theorem C02_monitor_acceptance_clauses_hold_of_the_model : forall cfg m s auth code redirect v vh sm pr i c,
  cred m code = Some (i, c) ->
  (forall k r, key_of s code = Some k -> codes (st s) k = Some (true, r) ->
     ci_client c = r_client r /\ ci_redirect c = r_redirect r /\ ci_scopes c = r_gscopes r) ->
  let o := ORedeem auth code redirect v vh sm in
  o_err (snd (step cfg s o)) = "" ->
  let verdict := fst (fst (judge_C02 cfg m o (snd (step cfg s o)) pr)) in
  verdict = None \/ verdict = Some "code_redeemed_after_its_expiry".
Proof. exact judge_C02_acceptance_clauses_sound. Qed.
Print Assumptions C02_monitor_acceptance_clauses_hold_of_the_model.
