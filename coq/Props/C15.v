(* C15 - JWT assertions are verified completely and each jti is accepted once.
   Only statements: each is closed by [exact <lemma>] and followed by Print Assumptions.

   Model: Model/Assertion.v (client_authentication.go private_key_jwt branch, token/jwt/map_claims.go,
   handler/rfc7523/handler.go, the jti methods of storage/memory.go).  [nw] is the clock in ms,
   claim times are whole seconds; [ca_ver a] / [ba_ver b] list the key pairs under which go-jose
   verifies the signature (harness-supplied fact; cryptography is not modelled).

   Readings (DESIGN.md 6.0): "seen before" is relative to the replay memory, which keeps a jti
   until the exp of the assertion that carried it; the expiry instant of a second-granular
   credential is the end of the second named by exp.

   History: on the library before commit 3e32ae1 two clauses were false of the faithful model (exp = 0
   accepted as unexpired; one client assertion accepted twice inside the second named by its exp)
   and were stated as _refuted / _partial pairs.  The library was repaired (client_authentication.go
   now refuses an assertion whose expiry instant has passed, before the jti is recorded); the model
   follows the repaired code and every clause is now stated and proved at full strength.  The old
   witnesses are kept as Examples with their repaired verdicts in Proofs/JwtExamples.v
   (exp_zero_refused, replay_in_final_second_refused, race_in_final_second_refused). *)
From FositeModel Require Import Base.Str Model.Scope Model.Assertion
     Proofs.JwtStore Proofs.AssertionProofs Proofs.JwtHistory Proofs.JwtExamples Cases.CasesC15 Proofs.MonitorC15.
Local Open Scope Z_scope.

(* ------------------------------------------------------------------ sentence 1: private_key_jwt *)
(* exact characterisation: the model authenticates client cid (and leaves replay memory st') iff
   the acceptance condition [ca_accepts] holds (form, registration, key selection, signature, time
   claims, iss/sub, jti fresh in the memory and recorded, aud) *)
Theorem C15_client_assertion_iff : forall tus clients nw st a cid sub st',
  client_auth tus clients nw st a = (st', Acc cid sub) <-> (sub = "" /\ ca_accepts tus clients nw st a cid st').
Proof. exact client_auth_accept_iff. Qed.
Print Assumptions C15_client_assertion_iff.

(* every clause of the first sentence, at full strength, for every input *)
Theorem C15_client_assertion_clauses : forall tus clients nw st a cid sub st',
  client_auth tus clients nw st a = (st', Acc cid sub) ->
  exists c keys k j e,
    find_client clients cid = Some c /\ c_method c = "private_key_jwt" /\
    (* signed with a key registered for that client *)
    c_jwks c = Some keys /\ In k keys /\ k_use k = "sig" /\ In (k_kp k) (ca_ver a) /\
    (ca_kid a = "" \/ k_kid k = ca_kid a) /\
    (* using the client's registered asymmetric algorithm *)
    c_alg c = ca_alg a /\
    (alg_class_of (ca_alg a) = ARsa /\ k_kty k = KRsa \/ alg_class_of (ca_alg a) = AEc /\ k_kty k = KEc) /\
    (* iss and sub both equal the client id *)
    ca_iss a = JStr cid /\ ca_sub a = JStr cid /\
    (* aud contains the token endpoint URL (string form or list form) *)
    aud_contains (ca_aud a) tus /\
    (* it is unexpired: exp is an int64 / float64 number e (float truncated by Go; 0 and fractions
       included) whose instant has not passed, hence the current second is not after e either *)
    to_int64 (ca_exp a) = Some e /\ nw <= e * 1000 /\ unix nw <= e /\
    (* jti is a non-empty string, not held by the replay memory, and recorded with exp *)
    ca_jti a = JStr j /\ j <> "" /\ jget (purge nw st) j = None /\ st' = (j, e) :: purge nw st.
Proof. exact client_assertion_sound. Qed.
Print Assumptions C15_client_assertion_clauses.

(* the clause that used to be refuted, on its own: no representation of exp (absent, null, string,
   bool, list, int64, float64; 0; fractions; negative) lets an assertion through after its expiry instant *)
Theorem C15_client_assertion_unexpired : forall tus clients nw st a cid sub st',
  client_auth tus clients nw st a = (st', Acc cid sub) ->
  exists e, to_int64 (ca_exp a) = Some e /\ nw <= e * 1000.
Proof. exact client_assertion_unexpired. Qed.
Print Assumptions C15_client_assertion_unexpired.

(* ------------------------------------------------------------------ sentence 2: JWT-bearer grant *)
Theorem C15_bearer_grant_iff : forall cfg tus iks nw st cl_id cl_grants b st' c s,
  run_flow nw st (ba_flow cfg tus iks nw cl_id cl_grants b) = (st', Acc c s) <->
  (c = cl_id /\ s = ba_sub b /\ ba_accepts cfg tus iks nw st cl_grants b st').
Proof. exact bearer_accept_iff. Qed.
Print Assumptions C15_bearer_grant_iff.

Theorem C15_bearer_grant_clauses : forall cfg tus iks nw st cl_id cl_grants b st' c s,
  run_flow nw st (ba_flow cfg tus iks nw cl_id cl_grants b) = (st', Acc c s) ->
  exists k e,
    (* signed by a key registered for its (iss, sub) *)
    In k iks /\ ik_iss k = ba_iss b /\ ik_sub k = ba_sub b /\ In (ik_kp k) (ba_ver b) /\
    (ba_kid b = "" \/ ik_kid k = ba_kid b) /\
    (* aud contains the token URL *)
    (exists tu, In tu tus /\ In tu (ba_aud b)) /\
    (* an exp in the future but not beyond the configured maximum (counted from iat, else from now) *)
    ba_exp b = Some e /\ nw <= e * 1000 /\ e * 1000 - issued_ms nw b <= max_duration cfg /\
    (* nbf respected and iat present when required *)
    (forall n, ba_nbf b = Some n -> n * 1000 < nw) /\
    (b_iat_optional cfg = false -> ba_iat b <> None) /\
    (* requested scopes covered by the key's scopes (scope strategies: property C12) *)
    (forall sc, In sc (ba_scopes b) -> scope_match (b_strategy cfg) (ik_scopes k) sc = true) /\
    (* (when required) a jti; a jti that is present is not in the replay memory and is recorded *)
    (b_id_optional cfg = false -> ba_jti b <> "") /\
    (ba_jti b <> "" -> jget (purge nw st) (ba_jti b) = None /\ st' = (ba_jti b, e) :: purge nw st) /\
    s = ba_sub b.
Proof. exact bearer_grant_sound. Qed.
Print Assumptions C15_bearer_grant_clauses.

(* ------------------------------------------------------------------ sentence 3: each jti once *)
(* all histories, all positions: after an operation that consumed (j, e1) was accepted, an operation
   consuming j is accepted only strictly after the instant e1 *)
Theorem C15_jti_window : forall w ops s i k si oi ri sk ok rk j e1 e2,
  nth_error (trace w s ops) i = Some (si, oi, ri) ->
  nth_error (trace w s ops) k = Some (sk, ok, rk) -> (i < k)%nat ->
  In (j, e1) (marks oi ri) -> In (j, e2) (marks ok rk) ->
  e1 * 1000 < now sk.
Proof. exact jti_window. Qed.
Print Assumptions C15_jti_window.

(* a JWT-bearer assertion (fixed jti and exp) is accepted at most once in any history *)
Theorem C15_bearer_assertion_once : forall w ops s i k si ri sk rk ca1 ca2 b c1 s1 c2 s2,
  nth_error (trace w s ops) i = Some (si, OGrant ca1 b, ri) ->
  nth_error (trace w s ops) k = Some (sk, OGrant ca2 b, rk) -> (i < k)%nat ->
  ba_jti b <> "" ->
  ri = Acc c1 s1 -> rk = Acc c2 s2 -> False.
Proof. exact bearer_assertion_once. Qed.
Print Assumptions C15_bearer_assertion_once.

(* a client assertion (fixed claims, hence fixed jti and exp) is accepted at most once in any history:
   before, at and after its expiry *)
Theorem C15_client_assertion_once : forall w ops s i k si ri sk rk a c1 s1 c2 s2,
  nth_error (trace w s ops) i = Some (si, OAuth a, ri) ->
  nth_error (trace w s ops) k = Some (sk, OAuth a, rk) -> (i < k)%nat ->
  ri = Acc c1 s1 -> rk = Acc c2 s2 -> False.
Proof. exact client_assertion_once. Qed.
Print Assumptions C15_client_assertion_once.

(* the general form, both kinds of assertion, any role, mixed use of one jti: a jti accepted with exp e1
   is accepted again only by an assertion with a strictly later exp; so no (jti, exp) is accepted twice *)
Theorem C15_jti_once : forall w ops s i k si oi ri sk ok rk j e1 e2,
  nth_error (trace w s ops) i = Some (si, oi, ri) ->
  nth_error (trace w s ops) k = Some (sk, ok, rk) -> (i < k)%nat ->
  In (j, e1) (marks oi ri) -> In (j, e2) (marks ok rk) ->
  e1 < e2.
Proof. exact jti_once. Qed.
Print Assumptions C15_jti_once.

Theorem C15_assertion_once_any_role : forall w ops s i k si oi ri sk ok rk j e,
  nth_error (trace w s ops) i = Some (si, oi, ri) ->
  nth_error (trace w s ops) k = Some (sk, ok, rk) -> (i < k)%nat ->
  In (j, e) (marks oi ri) -> In (j, e) (marks ok rk) -> False.
Proof. exact client_assertion_once_any_role. Qed.
Print Assumptions C15_assertion_once_any_role.

(* ------------------------------------------------------------------ schedules *)
(* any number of threads, each running any program of the shape
   [pure checks; jti valid?; pure checks; test-and-set jti; pure checks], any schedule of their
   storage steps, any initial replay memory: if the assertions carrying j are not past the instant
   of their exp, at most one thread's test-and-set on j succeeds *)
Theorem C15_at_most_one_winner : forall nw st (flows : list jflow) sched j,
  (forall f e, In f flows -> f_pre f = inr (Some j) -> f_mid f = inr e -> nw <= e * 1000) ->
  (wins j (snd (run_sched nw (st, map (fun f => (f, TStart)) flows) sched)) <= 1)%nat.
Proof. exact at_most_one_winner. Qed.
Print Assumptions C15_at_most_one_winner.

(* JWT-bearer grant requests: unconditionally *)
Theorem C15_bearer_race_once : forall cfg tus iks nw st (reqs : list (string * list string * bassert)) sched j,
  (wins j (snd (run_sched nw (st, map (fun r => (ba_flow cfg tus iks nw (fst (fst r)) (snd (fst r)) (snd r), TStart)) reqs) sched)) <= 1)%nat.
Proof. exact bearer_race_once. Qed.
Print Assumptions C15_bearer_race_once.

(* client assertions: unconditionally as well (a thread reaches the test-and-set only with an exp
   whose instant has not passed) *)
Theorem C15_client_race_once : forall tus clients nw st (asserts : list cassert) sched j,
  (wins j (snd (run_sched nw (st, map (fun a => (ca_flow tus clients nw a, TStart)) asserts) sched)) <= 1)%nat.
Proof. exact client_race_once. Qed.
Print Assumptions C15_client_race_once.

(* any mix of simultaneous client-assertion presentations and grant requests *)
Theorem C15_race_once : forall w nw st (reqs : list request) sched j,
  (wins j (snd (run_sched nw (st, map (fun r => (request_flow w nw r, TStart)) reqs) sched)) <= 1)%nat.
Proof. exact race_once. Qed.
Print Assumptions C15_race_once.

(* the sequential execution of a request is the schedule of a single thread *)
Theorem C15_sequential_is_single_thread : forall nw st f,
  let (st', ts) := run_sched nw (st, [(f, TStart)]) [0%nat; 0%nat] in
  st' = fst (run_flow nw st f) /\ exists won, ts = [(f, TDone (snd (run_flow nw st f)) won)].
Proof. exact run_flow_is_single_thread. Qed.
Print Assumptions C15_sequential_is_single_thread.

(* the thread program used in the interleaving semantics for an operation is the program the history
   model executes for it *)
Theorem C15_race_flow_is_history_step : forall w s o f,
  op_flow w s o = Some f ->
  step w s o = (let (st', r) := run_flow (now s) (jt s) f in ({| now := now s; jt := st' |}, r)).
Proof. exact op_flow_step. Qed.
Print Assumptions C15_race_flow_is_history_step.

(* ------------------------------------------------------------------ the monitor *)
(* on the model's own trace -- any world, start time, history -- the monitor of Cases/CasesC15.v raises
   no tag at all (the tags ca:exp_zero_accepted and ca:replay_in_final_second stay in the monitor, so
   the two repaired defects are re-detected by name should they return) *)
Theorem C15_monitor_on_model : forall w t0 ops,
  mon_steps w t0 [] (model_steps w (start t0) ops) = [] /\
  pick (mon_steps w t0 [] (model_steps w (start t0) ops)) = None.
Proof. exact monitor_silent_on_model. Qed.
Print Assumptions C15_monitor_on_model.
