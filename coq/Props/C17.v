(* C17 — pushed authorization requests are one-time, client-bound and authoritative.  Statements only. *)
From FositeModel Require Import Base.Str Model.Scope Model.Core Model.Flows Cases.CasesHist Cases.Monitors Proofs.C17Proofs Proofs.MonitorC17.

(* the push endpoint: client authentication, no request_uri inside, the request belongs to the authenticated
   client, validated against that client's registration; what is stored is what was pushed *)
Theorem C17_push_authenticated_validated_and_bound :
  forall cfg s auth bc ru a,
  o_err (snd (push cfg s auth bc ru a)) = "" ->
  exists c cl, auth = Some c /\ clients s c = Some cl /\ ru = false /\
    (forall b, bc = Some b -> b = c) /\
    scopes_ok cfg cl (az_scopes a) = true /\ aud_ok cfg (cl_aud cl) (az_aud a) = true /\
    exists k, nth_error (log (fst (push cfg s auth bc ru a))) (List.length (log s)) =
                Some {| i_kind := KPar; i_key := k; i_rid := next_rid s; i_endpoint_token := false |} /\
      exists pr, par (st (fst (push cfg s auth bc ru a))) k = Some pr /\
        r_client pr = c /\ r_cl pr = cl /\ r_rscopes pr = az_scopes a /\ r_raud pr = az_aud a /\
        r_redirect pr = az_redirect a /\ r_challenge pr = az_challenge a /\ r_method pr = az_method a /\ r_at pr = now s.
Proof. exact push_ok_facts. Qed.
Print Assumptions C17_push_authenticated_validated_and_bound.

(* a request_uri starts an authorization only for the pushing client and only until it expires *)
Theorem C17_request_uri_client_bound_and_time_limited :
  forall cfg s cp uri a,
  o_err (snd (authorize_par cfg s cp uri a)) = "" ->
  exists k pr, key_of s uri = Some k /\ par (st s) k = Some pr /\
    cp = r_client pr /\ (now s <= r_at pr + cf_par_life cfg)%Z /\
    o_err (snd (authorize_core cfg (set_store s (delete_par (st s) k)) (r_cl pr)
      {| az_rtype := RCode; az_client := r_client pr; az_redirect := r_redirect pr; az_scopes := r_rscopes pr; az_granted := az_granted a;
         az_aud := r_raud pr; az_gaud := az_gaud a; az_subject := az_subject a;
         az_challenge := if String.eqb (r_challenge pr) "" then az_challenge a else r_challenge pr;
         az_method := if String.eqb (r_method pr) "" then az_method a else r_method pr; az_mode := r_mode pr |})) = "".
Proof. exact authorize_par_ok_facts. Qed.
Print Assumptions C17_request_uri_client_bound_and_time_limited.

(* at most one authorization per request_uri, over histories *)
Theorem C17_request_uri_one_time :
  forall cfg cls h1 cp uri a h2 cp' uri' a' k pr,
  let s1 := run cfg (state0 cls) h1 in
  key_of s1 uri = Some k -> par (st s1) k = Some pr ->
  let s2 := run cfg (fst (authorize_par cfg s1 cp uri a)) h2 in
  key_of s2 uri' = Some k ->
  authorize_par cfg s2 cp' uri' a' = (s2, err_obs "invalid_request_uri").
Proof. exact request_uri_one_time. Qed.
Print Assumptions C17_request_uri_one_time.

(* query parameters sent alongside cannot override what was pushed *)
Theorem C17_pushed_parameters_authoritative :
  forall cfg s cp uri a a',
  az_granted a = az_granted a' -> az_gaud a = az_gaud a' -> az_subject a = az_subject a' ->
  (forall k pr, key_of s uri = Some k -> par (st s) k = Some pr ->
     (r_challenge pr = "" -> az_challenge a = az_challenge a') /\ (r_method pr = "" -> az_method a = az_method a')) ->
  authorize_par cfg s cp uri a = authorize_par cfg s cp uri a'.
Proof. exact pushed_parameters_authoritative. Qed.
Print Assumptions C17_pushed_parameters_authoritative.

Theorem C17_enforcement_refuses_requests_without_request_uri :
  forall cfg s a, cf_par_enforced cfg = true -> authorize cfg s a = (s, err_obs "invalid_request").
Proof. exact enforced_par_refuses_plain_authorize. Qed.
Print Assumptions C17_enforcement_refuses_requests_without_request_uri.

(* the authorization proceeds in the pushed response mode: the answer is written in it, whatever response_mode the
   query next to the request_uri names ("query" is the code flow's default and is not reported) *)
Theorem C17_pushed_response_mode_authoritative : forall cfg s cp uri a k pr,
  key_of s uri = Some k -> par (st s) k = Some pr -> r_mode pr <> "" -> r_mode pr <> "query" ->
  o_err (snd (authorize_par cfg s cp uri a)) = "" -> o_scopes (snd (authorize_par cfg s cp uri a)) = [r_mode pr].
Proof. exact pushed_response_mode_authoritative. Qed.
Print Assumptions C17_pushed_response_mode_authoritative.

(* the clauses of the history monitor that do not read its tracker (pushes: authenticated, bound to the authenticated
   client, no request_uri inside; plain authorizations: refused when pushing is enforced) accept the model's answer to the
   operation in every state, whatever the tracker and the probes say *)
Theorem C17_monitor_push_clause_holds_of_the_model : forall cfg m s auth bc ru a pr,
  fst (fst (judge_C17 cfg m (OPush auth bc ru a) (snd (step cfg s (OPush auth bc ru a))) pr)) = None.
Proof. exact judge_C17_push_sound. Qed.
Print Assumptions C17_monitor_push_clause_holds_of_the_model.

Theorem C17_monitor_enforcement_clause_holds_of_the_model : forall cfg m s a pr,
  fst (fst (judge_C17 cfg m (OAuthorize a) (snd (step cfg s (OAuthorize a))) pr)) = None.
Proof. exact judge_C17_authorize_sound. Qed.
Print Assumptions C17_monitor_enforcement_clause_holds_of_the_model.
