(* C18 - storage failures never yield tokens and never leave a half-applied grant.
   Statements only; proofs in Proofs/FaultsProofs.v, FaultsFlows.v, FaultsTheorems.v, FaultsWitnesses.v, MonitorC18.v.

   The fault model (Model/Faults.v) re-states the token-issuing and revoking flows of the history model
   (Model/Flows.v) as sequences of storage calls under an arbitrary fault plan [nat -> option fault] (position of the
   call inside the request -> generic error / not-found / inactive / serialization failure; a fault at BeginTX /
   Commit / Rollback is a begin / commit / rollback failure), for the plain and for the transactional store.
   [fstep e cfg s o] = (new state, observation, log of storage calls with result classes). *)
From FositeModel Require Import Base.Str Model.Scope Model.Core Model.Flows Model.Faults Cases.CasesC18
     Proofs.CoreInv Proofs.FaultsProofs Proofs.FaultsFlows Proofs.FaultsFlows2 Proofs.FaultsTheorems Proofs.FaultsWitnesses Proofs.MonitorC18.

(* (a) with the empty fault plan every fault-aware flow is the flow of the history model, for the plain and for the
   transactional store: same new state, same observation.  Everything proved about histories (C01 ... C17) is about the
   fault-free executions of this model.  The fault model is that of the reference device-code table
   ([cf_dev_contract cfg = false]: an invalidated device code is forgotten, not answered with its request). *)
Theorem faultless_execution_is_the_history_model :
  forall e cfg s o, no_faults e -> cf_dev_contract cfg = false ->
  let '(s', ob, _) := fstep e cfg s o in (s', ob) = step cfg s o.
Proof. exact (fun e cfg s o H Hc => fstep_nf e H cfg s o Hc). Qed.
Print Assumptions faultless_execution_is_the_history_model.

(* (b) for every token request (code, refresh incl. reuse handling, device, password, client_credentials), every state
   and every plan (single faults, pairs, any number): an error observation carries no credential, and as soon as one
   storage call of the request was answered by an injected fault the request is refused and nothing is minted.
   The one exception is proved to be real below: ErrNotFound from GetPKCERequestSession.
   Full statement (without the exception): see refusal_after_every_fault_refuted. *)
Theorem storage_failure_refuses_the_request_partial :
  forall e cfg s o, faultable o = true -> is_revoke o = false ->
  let '(s', ob, calls) := fstep e cfg s o in
  (o_err ob <> "" -> o_minted ob = []) /\
  forall m f, In (m, RInj f) calls -> ~ (m = MGetPkce /\ f = FNotFound) -> o_err ob <> "" /\ o_minted ob = [].
Proof. exact fault_refuses. Qed.
Print Assumptions storage_failure_refuses_the_request_partial.

(* the clause at full strength is false of the faithful model (and of the code: known finding C18-F1) *)
Theorem refusal_after_every_fault_refuted :
  exists e cfg s o m f, faultable o = true /\ is_revoke o = false /\
    let '(s', ob, calls) := fstep e cfg s o in In (m, RInj f) calls /\ o_err ob = "" /\ o_minted ob <> [].
Proof. exact FaultsWitnesses.refusal_after_every_fault_refuted. Qed.
Print Assumptions refusal_after_every_fault_refuted.

(* serialization conflicts: in the refresh flow a serialization failure of any call of the issuing or the reuse
   transaction (rotate, create, delete, revoke, commit) is answered invalid_request (the retry class), unless the
   rollback failed as well *)
Theorem serialization_conflict_is_retryable :
  forall e cfg s auth tok sm,
  let '(s', ob, calls) := fstep e cfg s (ORefresh auth tok sm) in
  forall m, In (m, RInj FSerial) calls -> in_refresh_tx m = true ->
            (forall f, ~ In (MRollback, RInj f) calls) -> o_err ob = "invalid_request".
Proof. exact FaultsTheorems.serialization_conflict_is_retryable. Qed.
Print Assumptions serialization_conflict_is_retryable.

(* revocation: "an accepted revocation under a fault has revoked" is false of the model and of the code (known finding
   C18-F2): not-found / inactive answers are read as "already revoked" *)
Theorem accepted_revocation_revokes_refuted :
  exists e cfg s auth tok h m f,
    let '(s', ob, calls) := fstep e cfg s (ORevoke auth tok h) in
    In (m, RInj f) calls /\ o_err ob = "" /\ is_some (introspect cfg s' tok h []) = true.
Proof. exact FaultsWitnesses.accepted_revocation_revokes_refuted. Qed.
Print Assumptions accepted_revocation_revokes_refuted.

(* (c) the begin/commit/rollback trace of every execution is in the language
   (Begin (CommitOk | CommitFailed Rollback | FailedCall Rollback | Rollback))*: no commit after a failed call, nothing
   left open, no nesting; a plain store sees no transaction call at all *)
Theorem transaction_trace_wellformed :
  forall e cfg s o, faultable o = true ->
  let '(s', ob, calls) := fstep e cfg s o in
  tx_wf calls = true /\ (fe_tx e = false -> forall c, In c calls -> is_tx_meth (fst c) = false).
Proof. exact FaultsTheorems.transaction_trace_wellformed. Qed.
Print Assumptions transaction_trace_wellformed.

(* every request is answered: no execution ends in the panic observation.  (Before the repair 8ec4c3a, recorded as C18-F3,
   the refresh handler dereferenced a nil requester when the store reported reuse without handing back the stored request;
   the monitor keeps its clause for that observation, so the defect is re-detected by name if it returns.) *)
Theorem every_request_is_answered :
  forall e cfg s o, faultable o = true ->
  let '(s', ob, calls) := fstep e cfg s o in o_err ob <> "PANIC".
Proof. exact FaultsTheorems.every_request_is_answered. Qed.
Print Assumptions every_request_is_answered.

(* (d) transactional store: when the transaction of the request was begun and not committed and its rollback did not
   fail, every table, the log, the registrations and the clock are exactly as before the request *)
Theorem rolled_back_failure_restores_the_tables :
  forall e cfg s o, faultable o = true ->
  let '(s', ob, calls) := fstep e cfg s o in
  rolled_back (fe_tx e) calls = true -> vis_eq s' s.
Proof. exact FaultsTheorems.rolled_back_failure_restores_the_tables. Qed.
Print Assumptions rolled_back_failure_restores_the_tables.

(* hence the code / refresh token / device code that was being exchanged is still usable by its holder: the retry is
   answered exactly as the request would have been answered had no fault occurred (and every theorem about [step]
   applies to it) *)
Theorem retry_after_rollback_as_if_nothing_happened :
  forall e cfg s o,
  match o with ORedeem _ _ _ _ _ _ | ORefresh _ _ _ | ODevicePoll _ _ => True | _ => False end ->
  let '(s', ob, calls) := fstep e cfg s o in
  rolled_back (fe_tx e) calls = true -> snd (step cfg s' o) = snd (step cfg s o).
Proof. exact FaultsTheorems.retry_after_rollback_as_if_nothing_happened. Qed.
Print Assumptions retry_after_rollback_as_if_nothing_happened.

(* "with a transactional store every failure leaves the tables untouched" is false: the PKCE (and OpenID Connect)
   sessions are consumed after the commit; a failure there refuses the request although the code is spent *)
Theorem atomic_request_refuted :
  exists e cfg s o, fe_tx e = true /\ faultable o = true /\
    let '(s', ob, calls) := fstep e cfg s o in
    o_err ob <> "" /\ (exists m f, In (m, RInj f) calls) /\ digest_of s' <> digest_of s /\ o_err (snd (step cfg s' o)) <> "".
Proof. exact FaultsWitnesses.atomic_request_refuted. Qed.
Print Assumptions atomic_request_refuted.

(* (e) in every case (plain store, failed rollback, failures outside a transaction): fail-closed.  Every code, access
   token, refresh token or device code record that is live after the request under a key that existed before was
   live before (nothing invalidated comes back), and a refused request adds nothing to the set of credentials that can
   be presented: what was minted but not delivered is unreachable *)
Theorem fail_closed :
  forall e cfg s o, faultable o = true ->
  let '(s', ob, calls) := fstep e cfg s o in
  store_le (next_key s) (st s) (st s') /\
  (o_err ob <> "" -> log s' = log s /\ forall p, key_of s' p = key_of s p).
Proof. exact FaultsTheorems.fail_closed. Qed.
Print Assumptions fail_closed.

(* the monitor that judges the implementation's observations accepts everything the model does (so it cannot raise an
   alarm on code that matches the model), up to the one finding named in its tag (F1); the panic clause never fires on the model *)
Theorem monitor_accepts_the_model :
  forall e cfg s o, faultable o = true ->
  let '(s', ob, calls) := fstep e cfg s o in
  mon_panic ob = None /\ mon_c (fe_tx e) calls = None /\ mon_serial o calls ob = None /\
  (mon_b o calls ob = None \/ mon_b o calls ob = Some "tokens_issued_after_notfound_fault_on_pkce_lookup").
Proof. exact MonitorC18.monitor_accepts_the_model. Qed.
Print Assumptions monitor_accepts_the_model.

Theorem monitor_fail_closed_clause :
  forall e cfg s o, faultable o = true -> Inv s ->
  let '(s', ob, calls) := fstep e cfg s o in
  forall e0, In e0 (log s) -> status_of s e0 <> 1 -> status_of s' e0 <> 1.
Proof. exact MonitorC18.monitor_fail_closed_clause. Qed.
Print Assumptions monitor_fail_closed_clause.
