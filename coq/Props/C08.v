(* C08 — revocation is effective, complete and restricted to the owning client.  Statements only.
   "Accepted" is judged at the API verdict of the revocation endpoint (see DESIGN.md 6.0). *)
From FositeModel Require Import Base.Str Model.Scope Model.Core Model.Flows Proofs.CoreInv Proofs.Family Proofs.Implicit Proofs.C08Proofs Cases.CasesHist Cases.Monitors Proofs.MonitorC04.

(* accepted request of the owning client for a token with a live record: that token and the access/refresh
   token of the same grant are inactive for all later use (any history, hint, scope list, presentation).
   Every credential of the grant is covered, the access token of a hybrid authorization included (true since the repair of
   RevokeAccessToken, finding A10).  [endpoint_token]: the PRESENTED token was minted by the token endpoint; for a presented
   authorization-endpoint token see C08_authorization_endpoint_token_revocable below (its code may still be unredeemed, so
   the grant as a whole is not dead, but the token and every other access token of the grant are gone for good). *)
Theorem C08_revocation_effective_and_complete :
  forall cfg cls h1 c cl tok hint0 r h2 i e tampered hint scopes,
  let s1 := run cfg (state0 cls) h1 in
  clients s1 c = Some cl -> revoke_lookup s1 (key_of s1 tok) hint0 = Some r -> r_client r = c ->
  endpoint_token s1 tok ->
  let res := revoke cfg s1 (Some c) tok hint0 in
  o_err (snd res) = "" /\
  (let s2 := run cfg (fst res) h2 in
   nth_error (log s2) i = Some e -> i_rid e = r_id r ->
   introspect cfg s2 {| p_ref := CRef i; p_tampered := tampered |} hint scopes = None).
Proof. exact revoke_effective. Qed.
Print Assumptions C08_revocation_effective_and_complete.

(* an accepted revocation of ANY live token by its owner removes every access token of the grant's request id, and the
   presented authorization-endpoint token is reported inactive after every further history *)
Theorem C08_authorization_endpoint_token_revocable :
  forall cfg cls h1 c cl tok hnt r h2 i e tampered h scopes,
  let s := run cfg (state0 cls) h1 in
  clients s c = Some cl -> revoke_lookup s (key_of s tok) hnt = Some r -> r_client r = c ->
  let s' := fst (revoke cfg s (Some c) tok hnt) in
  nth_error (log (run cfg s' h2)) i = Some e -> i_rid e = r_id r -> i_kind e = KImplicit ->
  introspect cfg (run cfg s' h2) {| p_ref := CRef i; p_tampered := tampered |} h scopes = None.
Proof. exact revoked_implicit_token_reachable. Qed.
Print Assumptions C08_authorization_endpoint_token_revocable.

Theorem C08_foreign_client_refused_nothing_changes :
  forall cfg s c cl tok h r,
  clients s c = Some cl -> revoke_lookup s (key_of s tok) h = Some r -> r_client r <> c ->
  revoke cfg s (Some c) tok h = (s, err_obs "unauthorized_client").
Proof. exact revoke_foreign_refused. Qed.
Print Assumptions C08_foreign_client_refused_nothing_changes.

Theorem C08_unauthenticated_changes_nothing :
  forall cfg s tok h, revoke cfg s None tok h = (s, err_obs "invalid_client").
Proof. exact revoke_unauthenticated. Qed.
Print Assumptions C08_unauthenticated_changes_nothing.

Theorem C08_invalid_token_success_without_change :
  forall cfg s c cl tok h,
  clients s c = Some cl -> revoke_lookup s (key_of s tok) h = None ->
  revoke cfg s (Some c) tok h = (s, ok_obs [] 0%Z []).
Proof. exact revoke_invalid_token_noop. Qed.
Print Assumptions C08_invalid_token_success_without_change.

Theorem C08_hint_only_orders_the_lookup :
  forall cfg cls hs auth tok h h',
  let s := run cfg (state0 cls) hs in
  revoke cfg s auth tok h = revoke cfg s auth tok h'.
Proof. exact revoke_hint_irrelevant. Qed.
Print Assumptions C08_hint_only_orders_the_lookup.

Theorem C08_other_grants_untouched :
  forall cfg cls h1 c cl tok hint0 r i e tampered hint scopes,
  let s1 := run cfg (state0 cls) h1 in
  clients s1 c = Some cl -> revoke_lookup s1 (key_of s1 tok) hint0 = Some r -> r_client r = c ->
  nth_error (log s1) i = Some e -> i_rid e <> r_id r ->
  introspect cfg (fst (revoke cfg s1 (Some c) tok hint0)) {| p_ref := CRef i; p_tampered := tampered |} hint scopes
  = introspect cfg s1 {| p_ref := CRef i; p_tampered := tampered |} hint scopes.
Proof. exact revoke_spares_other_grants. Qed.
Print Assumptions C08_other_grants_untouched.

(* the history monitor (Cases/Monitors.v judge_C08) on the model: an unauthenticated revocation request never trips it,
   for any tracker whose previous probe vector is that of the state the request meets *)
Theorem C08_monitor_unauthenticated_clause_holds_of_the_model : forall cfg m s tok h,
  m_prev m = probes cfg s ->
  let res := step cfg s (ORevoke None tok h) in
  judge_C08 m (ORevoke None tok h) (snd res) (probes cfg (fst res)) = (None, [], []).
Proof. exact judge_C08_unauthenticated_sound. Qed.
Print Assumptions C08_monitor_unauthenticated_clause_holds_of_the_model.
