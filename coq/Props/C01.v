(* C01 — an authorization code is single-use; replay is refused and revokes its tokens.
   Statements only.  [run cfg (state0 cls) h] ranges over every reachable server state: every
   configuration, every client table, every history of operations of any length. *)
From FositeModel Require Import Base.Str Model.Scope Model.Core Model.Flows Proofs.C01Proofs.

(* (a)+(b) once a redemption of a code has succeeded, every later presentation of that code — after any
   further history, by any caller, with any parameters — is refused and yields nothing; the error is
   invalid_grant as soon as the caller authenticated as a client that may use the grant *)
Theorem C01_code_yields_tokens_at_most_once :
  forall cfg cls h1 auth code redirect v vh h2 auth' code' redirect' v' vh',
  let s1 := run cfg (state0 cls) h1 in
  let res1 := redeem cfg s1 auth code redirect v vh in
  o_err (snd res1) = "" ->
  let s2 := run cfg (fst res1) h2 in
  key_of s2 code' = key_of s1 code ->
  let res2 := redeem cfg s2 auth' code' redirect' v' vh' in
  o_err (snd res2) <> "" /\ o_minted (snd res2) = [] /\
  (forall c cl, auth' = Some c -> clients s2 c = Some cl ->
                args_has (cl_grants cl) ["authorization_code"] = true -> o_err (snd res2) = "invalid_grant").
Proof. exact code_single_use. Qed.
Print Assumptions C01_code_yields_tokens_at_most_once.

(* (c) a replay by an authenticated client answers invalid_grant, and from that moment on — after any
   further history — every credential that was minted for the code's grant (the tokens of the
   redemption and of every later refresh: they all carry the grant's request id) is reported
   inactive, under every hint, scope list and presentation - the access token a hybrid authorization handed out at the
   authorization endpoint included (true since the repair of RevokeAccessToken, finding A10) *)
Theorem C01_replay_revokes_the_family :
  forall cfg cls h1 c cl code redirect v vh k r h2 i e tampered hint scopes,
  let s1 := run cfg (state0 cls) h1 in
  clients s1 c = Some cl -> args_has (cl_grants cl) ["authorization_code"] = true ->
  key_of s1 code = Some k -> codes (st s1) k = Some (false, r) ->
  let res := redeem cfg s1 (Some c) code redirect v vh in
  o_err (snd res) = "invalid_grant" /\ o_minted (snd res) = [] /\
  (let s2 := run cfg (fst res) h2 in
   nth_error (log s2) i = Some e -> i_rid e = r_id r ->
   introspect cfg s2 {| p_ref := CRef i; p_tampered := tampered |} hint scopes = None).
Proof. exact replay_kills_family. Qed.
Print Assumptions C01_replay_revokes_the_family.

(* (d) the replay does not change what introspection says about any credential of another grant *)
Theorem C01_replay_spares_other_grants :
  forall cfg cls h1 c cl code redirect v vh k r i e tampered hint scopes,
  let s1 := run cfg (state0 cls) h1 in
  clients s1 c = Some cl -> args_has (cl_grants cl) ["authorization_code"] = true ->
  key_of s1 code = Some k -> codes (st s1) k = Some (false, r) ->
  nth_error (log s1) i = Some e -> i_rid e <> r_id r ->
  introspect cfg (fst (redeem cfg s1 (Some c) code redirect v vh)) {| p_ref := CRef i; p_tampered := tampered |} hint scopes
  = introspect cfg s1 {| p_ref := CRef i; p_tampered := tampered |} hint scopes.
Proof. exact replay_spares_other_grants. Qed.
Print Assumptions C01_replay_spares_other_grants.
