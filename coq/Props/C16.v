(* C16 — device grant: tokens only after approval, once, for the right client, in time.  Statements only.
   The device-code table is modelled both ways ([cf_dev_contract cfg]): the reference store forgets an invalidated
   code, a store that follows the storage contract answers it with its request and ErrInvalidatedDeviceCode;
   the last two theorems are about the second kind (the clause that A2 was about, DESIGN.md section 8). *)
From FositeModel Require Import Base.Str Model.Scope Model.Core Model.Flows Proofs.CoreInv Proofs.Implicit Proofs.StepProps
     Proofs.C16Proofs Proofs.C16Contract.

Theorem C16_tokens_only_after_approval_for_the_right_client_in_time :
  forall cfg s auth dev,
  o_err (snd (device_poll cfg s auth dev)) = "" ->
  exists k stt r cl,
    key_of s dev = Some k /\ device (st s) k = Some (stt, r) /\ stt <> 0 /\ stt <> 2 /\ p_tampered dev = false /\
    auth = Some (r_client r) /\ clients s (r_client r) = Some cl /\ args_has (cl_grants cl) [device_grant] = true /\
    expired (s_exp_dev (r_sess r)) (r_at r) (cf_life_dev cfg) (now s) = false /\
    let res := device_poll cfg s auth dev in
    o_scopes (snd res) = r_gscopes r /\
    device (st (fst res)) k = None /\
    (exists ka, access (st (fst res)) ka = Some (minted_record cfg s r cl)) /\
    (In KRefresh (o_minted (snd res)) -> can_refresh cfg (r_gscopes r) cl = true) /\
    used_device cfg (st s) k = None /\ dev_used (st (fst res)) k = Some (r_id r).
Proof. exact poll_ok_facts. Qed.
Print Assumptions C16_tokens_only_after_approval_for_the_right_client_in_time.

(* the verdicts, on every reachable state (where a pending code is never among the invalidated ones) *)
Theorem C16_undecided_is_authorization_pending :
  forall cfg cls h c cl dev k stt r, let s := run cfg (state0 cls) h in
  clients s c = Some cl -> args_has (cl_grants cl) [device_grant] = true ->
  key_of s dev = Some k -> device (st s) k = Some (stt, r) ->
  stt = 0 -> device_poll cfg s (Some c) dev = (s, err_obs "authorization_pending").
Proof. exact reachable_poll_pending. Qed.
Print Assumptions C16_undecided_is_authorization_pending.

Theorem C16_denied_is_access_denied :
  forall cfg cls h c cl dev k stt r, let s := run cfg (state0 cls) h in
  clients s c = Some cl -> args_has (cl_grants cl) [device_grant] = true ->
  key_of s dev = Some k -> device (st s) k = Some (stt, r) ->
  stt = 2 -> device_poll cfg s (Some c) dev = (s, err_obs "access_denied").
Proof. exact reachable_poll_denied. Qed.
Print Assumptions C16_denied_is_access_denied.

Theorem C16_expired_is_expired_token :
  forall cfg cls h c cl dev k stt r, let s := run cfg (state0 cls) h in
  clients s c = Some cl -> args_has (cl_grants cl) [device_grant] = true ->
  key_of s dev = Some k -> device (st s) k = Some (stt, r) ->
  stt <> 0 -> stt <> 2 -> expired (s_exp_dev (r_sess r)) (r_at r) (cf_life_dev cfg) (now s) = true ->
  device_poll cfg s (Some c) dev = (s, err_obs "expired_token").
Proof. exact reachable_poll_expired. Qed.
Print Assumptions C16_expired_is_expired_token.

Theorem C16_foreign_client_is_invalid_grant :
  forall cfg cls h c cl dev k stt r, let s := run cfg (state0 cls) h in
  clients s c = Some cl -> args_has (cl_grants cl) [device_grant] = true ->
  key_of s dev = Some k -> device (st s) k = Some (stt, r) ->
  stt <> 0 -> stt <> 2 -> expired (s_exp_dev (r_sess r)) (r_at r) (cf_life_dev cfg) (now s) = false ->
  p_tampered dev = false -> r_client r <> c ->
  device_poll cfg s (Some c) dev = (s, err_obs "invalid_grant").
Proof. exact reachable_poll_foreign_client. Qed.
Print Assumptions C16_foreign_client_is_invalid_grant.

(* a refused poll yields nothing; it changes nothing either, except that the replay of a redeemed code at a
   contract-following table revokes the tokens of the code's request *)
Theorem C16_refused_poll_yields_nothing_and_changes_nothing :
  forall cfg s auth dev,
  o_err (snd (device_poll cfg s auth dev)) <> "" ->
  o_minted (snd (device_poll cfg s auth dev)) = [] /\
  (fst (device_poll cfg s auth dev) = s \/
   exists k rid, key_of s dev = Some k /\ used_device cfg (st s) k = Some rid /\
                 fst (device_poll cfg s auth dev) = replay_revocation s rid).
Proof. exact poll_refused_changes_nothing. Qed.
Print Assumptions C16_refused_poll_yields_nothing_and_changes_nothing.

Theorem C16_refused_poll_changes_nothing_at_the_reference_store :
  forall cfg s auth dev, cf_dev_contract cfg = false ->
  o_err (snd (device_poll cfg s auth dev)) <> "" ->
  fst (device_poll cfg s auth dev) = s /\ o_minted (snd (device_poll cfg s auth dev)) = [].
Proof. exact poll_refused_changes_nothing_reference. Qed.
Print Assumptions C16_refused_poll_changes_nothing_at_the_reference_store.

Theorem C16_device_code_yields_tokens_at_most_once :
  forall cfg cls h1 auth dev h2 auth' dev',
  let s1 := run cfg (state0 cls) h1 in
  o_err (snd (device_poll cfg s1 auth dev)) = "" ->
  let s2 := run cfg (fst (device_poll cfg s1 auth dev)) h2 in
  key_of s2 dev' = key_of s1 dev ->
  o_err (snd (device_poll cfg s2 auth' dev')) <> "" /\ o_minted (snd (device_poll cfg s2 auth' dev')) = [] /\
  (forall c cl, auth' = Some c -> clients s2 c = Some cl -> args_has (cl_grants cl) [device_grant] = true ->
                o_err (snd (device_poll cfg s2 auth' dev')) = "invalid_grant").
Proof. exact device_code_single_use. Qed.
Print Assumptions C16_device_code_yields_tokens_at_most_once.

Theorem C16_device_authorization_endpoint :
  forall cfg s auth bc sc au,
  o_err (snd (device_authorize cfg s auth bc sc au)) = "" ->
  exists c cl, auth = Some c /\ bc = c /\ clients s c = Some cl /\ args_has (cl_grants cl) [device_grant] = true /\
    scopes_ok cfg cl sc = true /\ aud_ok cfg (cl_aud cl) au = true /\
    o_minted (snd (device_authorize cfg s auth bc sc au)) = [KDevice; KUser].
Proof. exact device_authorize_ok_facts. Qed.
Print Assumptions C16_device_authorization_endpoint.

(* a store that follows the contract: the replay of a redeemed device code - after any history, by any authenticated
   client registered for the grant - is refused, yields nothing, and revokes the grant the code was redeemed for:
   no access token of its request is left, no refresh token of it is active, nothing can bring one back
   ([dead_all]: Proofs/CoreInv.v, Proofs/Implicit.v) *)
Theorem C16_replayed_device_code_revokes_its_tokens :
  forall cfg cls h1 auth dev h2 c cl dev',
  cf_dev_contract cfg = true ->
  let s1 := run cfg (state0 cls) h1 in
  o_err (snd (device_poll cfg s1 auth dev)) = "" ->
  let s2 := run cfg (fst (device_poll cfg s1 auth dev)) h2 in
  key_of s2 dev' = key_of s1 dev ->
  clients s2 c = Some cl -> args_has (cl_grants cl) [device_grant] = true ->
  exists k stt r, key_of s1 dev = Some k /\ device (st s1) k = Some (stt, r) /\
    let res := device_poll cfg s2 (Some c) dev' in
    o_err (snd res) = "invalid_grant" /\ o_minted (snd res) = [] /\
    fst res = replay_revocation s2 (r_id r) /\ dead_all (st (fst res)) (r_id r).
Proof. exact device_replay_kills. Qed.
Print Assumptions C16_replayed_device_code_revokes_its_tokens.

(* ... and every credential ever minted for that request is reported inactive from then on *)
Theorem C16_tokens_of_a_replayed_device_code_stay_inactive :
  forall cfg cls h1 auth dev h2 c cl dev' h3 i e tampered hint scopes,
  cf_dev_contract cfg = true ->
  let s1 := run cfg (state0 cls) h1 in
  o_err (snd (device_poll cfg s1 auth dev)) = "" ->
  let s2 := run cfg (fst (device_poll cfg s1 auth dev)) h2 in
  key_of s2 dev' = key_of s1 dev ->
  clients s2 c = Some cl -> args_has (cl_grants cl) [device_grant] = true ->
  forall k stt r, key_of s1 dev = Some k -> device (st s1) k = Some (stt, r) ->
  let s3 := run cfg (fst (device_poll cfg s2 (Some c) dev')) h3 in
  nth_error (log s3) i = Some e -> i_rid e = r_id r ->
  introspect cfg s3 {| p_ref := CRef i; p_tampered := tampered |} hint scopes = None.
Proof. exact device_replay_credentials_inactive. Qed.
Print Assumptions C16_tokens_of_a_replayed_device_code_stay_inactive.

(* pending and invalidated codes are disjoint on every reachable state *)
Theorem C16_pending_code_is_not_invalidated :
  forall cfg cls h k stt r,
  let s := run cfg (state0 cls) h in device (st s) k = Some (stt, r) -> used_device cfg (st s) k = None.
Proof. exact pending_code_not_used. Qed.
Print Assumptions C16_pending_code_is_not_invalidated.
