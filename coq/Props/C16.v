(* C16 — device grant: tokens only after approval, once, for the right client, in time.  Statements only.
   (Reference store; the clause about a store that reports the code as already used is treated in DESIGN.md
   section 8, A2.) *)
From FositeModel Require Import Base.Str Model.Scope Model.Core Model.Flows Proofs.StepProps Proofs.C16Proofs.

Theorem C16_tokens_only_after_approval_for_the_right_client_in_time :
  forall cfg s auth dev,
  o_err (snd (device_poll cfg s auth dev)) = "" ->
  exists k stt r cl,
    key_of s dev = Some k /\ device (st s) k = Some (stt, r) /\ stt <> 0 /\ stt <> 2 /\ p_tampered dev = false /\
    auth = Some (r_client r) /\ clients s (r_client r) = Some cl /\ args_has (cl_grants cl) [device_grant] = true /\
    expired (s_exp_dev (r_sess r)) (r_at r) (cf_life_dev cfg) (now s) = false /\
    let res := device_poll cfg s auth dev in
    o_scopes (snd res) = r_gscopes r /\
    device (st (fst res)) k = None /\
    (exists ka, access (st (fst res)) ka = Some (minted_record cfg s r cl)) /\
    (In KRefresh (o_minted (snd res)) -> can_refresh cfg (r_gscopes r) cl = true).
Proof. exact poll_ok_facts. Qed.
Print Assumptions C16_tokens_only_after_approval_for_the_right_client_in_time.

Theorem C16_undecided_is_authorization_pending :
  forall cfg s c cl dev k stt r,
  clients s c = Some cl -> args_has (cl_grants cl) [device_grant] = true ->
  key_of s dev = Some k -> device (st s) k = Some (stt, r) ->
  stt = 0 -> device_poll cfg s (Some c) dev = (s, err_obs "authorization_pending").
Proof. exact poll_pending. Qed.
Print Assumptions C16_undecided_is_authorization_pending.

Theorem C16_denied_is_access_denied :
  forall cfg s c cl dev k stt r,
  clients s c = Some cl -> args_has (cl_grants cl) [device_grant] = true ->
  key_of s dev = Some k -> device (st s) k = Some (stt, r) ->
  stt = 2 -> device_poll cfg s (Some c) dev = (s, err_obs "access_denied").
Proof. exact poll_denied. Qed.
Print Assumptions C16_denied_is_access_denied.

Theorem C16_expired_is_expired_token :
  forall cfg s c cl dev k stt r,
  clients s c = Some cl -> args_has (cl_grants cl) [device_grant] = true ->
  key_of s dev = Some k -> device (st s) k = Some (stt, r) ->
  stt <> 0 -> stt <> 2 -> expired (s_exp_dev (r_sess r)) (r_at r) (cf_life_dev cfg) (now s) = true ->
  device_poll cfg s (Some c) dev = (s, err_obs "expired_token").
Proof. exact poll_expired. Qed.
Print Assumptions C16_expired_is_expired_token.

Theorem C16_foreign_client_is_invalid_grant :
  forall cfg s c cl dev k stt r,
  clients s c = Some cl -> args_has (cl_grants cl) [device_grant] = true ->
  key_of s dev = Some k -> device (st s) k = Some (stt, r) ->
  stt <> 0 -> stt <> 2 -> expired (s_exp_dev (r_sess r)) (r_at r) (cf_life_dev cfg) (now s) = false ->
  p_tampered dev = false -> r_client r <> c ->
  device_poll cfg s (Some c) dev = (s, err_obs "invalid_grant").
Proof. exact poll_foreign_client. Qed.
Print Assumptions C16_foreign_client_is_invalid_grant.

Theorem C16_refused_poll_yields_nothing_and_changes_nothing :
  forall cfg s auth dev,
  o_err (snd (device_poll cfg s auth dev)) <> "" ->
  fst (device_poll cfg s auth dev) = s /\ o_minted (snd (device_poll cfg s auth dev)) = [].
Proof. exact poll_refused_changes_nothing. Qed.
Print Assumptions C16_refused_poll_yields_nothing_and_changes_nothing.

Theorem C16_device_code_yields_tokens_at_most_once :
  forall cfg cls h1 auth dev h2 auth' dev',
  let s1 := run cfg (state0 cls) h1 in
  o_err (snd (device_poll cfg s1 auth dev)) = "" ->
  let s2 := run cfg (fst (device_poll cfg s1 auth dev)) h2 in
  key_of s2 dev' = key_of s1 dev ->
  o_err (snd (device_poll cfg s2 auth' dev')) <> "" /\ o_minted (snd (device_poll cfg s2 auth' dev')) = [] /\
  (forall c cl, auth' = Some c -> clients s2 c = Some cl -> args_has (cl_grants cl) [device_grant] = true ->
                o_err (snd (device_poll cfg s2 auth' dev')) = "invalid_grant").
Proof. exact device_code_single_use. Qed.
Print Assumptions C16_device_code_yields_tokens_at_most_once.

Theorem C16_device_authorization_endpoint :
  forall cfg s auth bc sc au,
  o_err (snd (device_authorize cfg s auth bc sc au)) = "" ->
  exists c cl, auth = Some c /\ bc = c /\ clients s c = Some cl /\ args_has (cl_grants cl) [device_grant] = true /\
    scopes_ok cfg cl sc = true /\ aud_ok cfg (cl_aud cl) au = true /\
    o_minted (snd (device_authorize cfg s auth bc sc au)) = [KDevice; KUser].
Proof. exact device_authorize_ok_facts. Qed.
Print Assumptions C16_device_authorization_endpoint.
