(* C09 — introspection tells the truth about every token, only to authenticated callers.  Statements only. *)
From FositeModel Require Import Base.Str Model.Scope Model.Core Model.Flows Proofs.CoreInv Proofs.StepInv Proofs.Decay Proofs.StepProps Cases.CasesHist Cases.Monitors Proofs.MonitorC09.

(* an access token is reported active exactly when a record minted by this server is stored under its
   signature, is unexpired, the presented string authenticates, and every required scope is covered; the
   report is the record's real client, subject, scopes, audience, kind and expiry *)
Theorem C09_access_token_truth :
  forall cfg s key tampered scopes p,
  introspect_access cfg s key tampered scopes = Some p <->
  exists k r, key = Some k /\ lookup_access (st s) (Some k) = Some r /\
    expired (s_exp_at (r_sess r)) (r_at r) (cf_life_at cfg) (now s) = false /\ tampered = false /\
    match_scopes cfg (r_gscopes r) scopes = true /\
    p = {| pl_use := KAccess; pl_client := r_client r; pl_subject := s_subject (r_sess r);
           pl_scopes := r_gscopes r; pl_aud := map a_raw (r_gaud r); pl_exp := s_exp_at (r_sess r) |}.
Proof. exact introspect_access_truth. Qed.
Print Assumptions C09_access_token_truth.

Theorem C09_refresh_token_truth :
  forall cfg s key tampered scopes p,
  introspect_refresh cfg s key tampered scopes = Some p <->
  exists k r, key = Some k /\ refresh (st s) k = Some (true, r) /\
    expired_rt (s_exp_rt (r_sess r)) (now s) = false /\ tampered = false /\
    match_scopes cfg (r_gscopes r) scopes = true /\
    p = {| pl_use := KRefresh; pl_client := r_client r; pl_subject := s_subject (r_sess r);
           pl_scopes := r_gscopes r; pl_aud := map a_raw (r_gaud r); pl_exp := s_exp_rt (r_sess r) |}.
Proof. exact introspect_refresh_truth. Qed.
Print Assumptions C09_refresh_token_truth.

(* in every reachable state the hint changes neither verdict nor payload *)
Theorem C09_hint_irrelevant :
  forall cfg cls hs tok h h' scopes,
  introspect cfg (run cfg (state0 cls) hs) tok h scopes = introspect cfg (run cfg (state0 cls) hs) tok h' scopes.
Proof. intros. apply introspect_hint_irrelevant. apply Inv_reachable. Qed.
Print Assumptions C09_hint_irrelevant.

(* a credential that has lost its records (revoked, rotated away, killed by replay detection) is never
   reported active again, after any history *)
Theorem C09_inactive_stays_inactive :
  forall cfg s h i e tampered scopes,
  Inv s -> nth_error (log s) i = Some e ->
  access (st s) (i_key e) = None -> implicit (st s) (i_key e) = None -> rt_dead (st s) (i_key e) ->
  introspect_access cfg (run cfg s h) (Some (i_key e)) tampered scopes = None /\
  introspect_refresh cfg (run cfg s h) (Some (i_key e)) tampered scopes = None.
Proof. exact inactive_forever_any. Qed.
Print Assumptions C09_inactive_stays_inactive.

(* the endpoint answers only callers with valid client credentials or a valid, different, active access token *)
Theorem C09_endpoint_requires_authenticated_caller :
  forall cfg s cal tok h scopes,
  o_err (introspect_ep cfg s cal tok h scopes) <> "request_unauthorized" ->
  match cal with
  | CallerClient auth => exists c cl, auth = Some c /\ clients s c = Some cl
  | CallerBearer ct =>
      pres_eqb ct tok = false /\
      exists p, introspect cfg s ct HAccess [] = Some p /\ pl_use p = KAccess
  end.
Proof. exact introspect_ep_requires_caller. Qed.
Print Assumptions C09_endpoint_requires_authenticated_caller.

(* the monitor's clause "with refresh-token introspection disabled no refresh token is ever reported active, under any
   hint" (Cases/Monitors.v rt_silent, the first test of judge_C09) holds of the model's probe vector in every state *)
Theorem C09_monitor_disabled_refresh_introspection_clause_holds_of_the_model : forall cfg s,
  rt_silent cfg (probes cfg s) = true.
Proof. exact rt_silent_model. Qed.
Print Assumptions C09_monitor_disabled_refresh_introspection_clause_holds_of_the_model.
