(* C12 — scope and audience policies mean what they document.
   Only statements: each is closed by [exact <lemma>] and followed by Print Assumptions. *)
From FositeModel Require Import Base.Str Model.Scope Proofs.ScopeProofs Cases.CasesC12 Proofs.MonitorC12.

Theorem C12_exact_scope : forall haystack needle,
  exact_strategy haystack needle = true <-> In needle haystack.
Proof. exact exact_strategy_spec. Qed.
Print Assumptions C12_exact_scope.

Theorem C12_hierarchic_scope : forall haystack needle,
  hierarchic_strategy haystack needle = true <->
  exists this, In this haystack /\
    (this = needle \/ proper_prefix (split dot this) (split dot needle)).
Proof. exact hierarchic_strategy_spec. Qed.
Print Assumptions C12_hierarchic_scope.

Theorem C12_wildcard_scope : forall matchers needle,
  wildcard_strategy matchers needle = true <->
  exists m, In m matchers /\ wild_spec (split dot m) (split dot needle).
Proof. exact wildcard_strategy_spec. Qed.
Print Assumptions C12_wildcard_scope.

Theorem C12_exact_audience : forall hs ns,
  exact_audience hs ns = true <-> forall n, In n ns -> In n hs.
Proof. exact exact_audience_spec. Qed.
Print Assumptions C12_exact_audience.

(* audience URLs: same scheme and host, and the path is equal, equal up to the registered path's
   trailing slashes, or extends the trimmed registered path at a "/" boundary.  url.Parse is an
   input of the model (a_ok / a_scheme / a_host / a_path are what Go computed). *)
Theorem C12_default_audience : forall hs ns,
  default_audience hs ns = true <->
  ns = [] \/ ((forall n, In n ns -> a_ok n = true) /\ (forall h, In h hs -> a_ok h = true) /\
              forall n, In n ns -> exists h, In h hs /\ aud_covers h n).
Proof. exact default_audience_spec. Qed.
Print Assumptions C12_default_audience.

(* the executable specification evaluated on the implementation's answers is the model, on every input *)
Theorem C12_monitor_is_model_scope : forall s hay needle,
  scope_spec_b s hay needle = scope_match s hay needle.
Proof. exact scope_spec_b_is_model. Qed.
Print Assumptions C12_monitor_is_model_scope.

Theorem C12_monitor_is_model_audience : forall hs ns,
  default_aud_spec_b hs ns = default_audience hs ns.
Proof. exact default_aud_spec_b_is_model. Qed.
Print Assumptions C12_monitor_is_model_audience.
