(* C12 — scope and audience policies mean what they document.
   Only statements: each is closed by [exact <lemma>] and followed by Print Assumptions. *)
From FositeModel Require Import Base.Str Model.Scope Proofs.ScopeProofs Cases.CasesC12 Proofs.MonitorC12.

Theorem C12_exact_scope : forall haystack needle,
  exact_strategy haystack needle = true <-> In needle haystack.
Proof. exact exact_strategy_spec. Qed.
Print Assumptions C12_exact_scope.

Theorem C12_hierarchic_scope : forall haystack needle,
  hierarchic_strategy haystack needle = true <->
  exists this, In this haystack /\
    (this = needle \/ proper_prefix (split dot this) (split dot needle)).
Proof. exact hierarchic_strategy_spec. Qed.
Print Assumptions C12_hierarchic_scope.

Theorem C12_wildcard_scope : forall matchers needle,
  wildcard_strategy matchers needle = true <->
  exists m, In m matchers /\ wild_spec (split dot m) (split dot needle).
Proof. exact wildcard_strategy_spec. Qed.
Print Assumptions C12_wildcard_scope.

Theorem C12_exact_audience : forall hs ns,
  exact_audience hs ns = true <-> forall n, In n ns -> In n hs.
Proof. exact exact_audience_spec. Qed.
Print Assumptions C12_exact_audience.

(* audience URLs: same scheme and host, and the path is equal, equal up to the registered path's
   trailing slashes, or extends the trimmed registered path at a "/" boundary.  url.Parse is an
   input of the model (a_ok / a_scheme / a_host / a_path are what Go computed). *)
Theorem C12_default_audience : forall hs ns,
  default_audience hs ns = true <->
  ns = [] \/ ((forall n, In n ns -> a_ok n = true) /\ (forall h, In h hs -> a_ok h = true) /\
              forall n, In n ns -> exists h, In h hs /\ aud_covers h n).
Proof. exact default_audience_spec. Qed.
Print Assumptions C12_default_audience.

(* the executable specification evaluated on the implementation's answers is the model, on every input *)
Theorem C12_monitor_is_model_scope : forall s hay needle,
  scope_spec_b s hay needle = scope_match s hay needle.
Proof. exact scope_spec_b_is_model. Qed.
Print Assumptions C12_monitor_is_model_scope.

Theorem C12_monitor_is_model_audience : forall hs ns,
  default_aud_spec_b hs ns = default_audience hs ns.
Proof. exact default_aud_spec_b_is_model. Qed.
Print Assumptions C12_monitor_is_model_audience.

(* ------------------------------------------------------------------ confinement of every flow (history model) *)
From FositeModel Require Import Model.Core Model.Flows Proofs.StepProps Proofs.C12Flows.

(* whatever strategy is configured: an endpoint that takes a requested scope/audience (authorization with any
   response type, password, client credentials, pushed authorization, device authorization) accepts the request
   only if the registration of the client it is made for covers every requested scope and audience *)
Theorem C12_no_flow_accepts_uncovered_request : forall cfg s o c sc au,
  request_of o = Some (c, sc, au) -> o_err (snd (step cfg s o)) = "" ->
  exists cl, clients s c = Some cl /\ scopes_ok cfg cl sc = true /\ aud_ok cfg (cl_aud cl) au = true.
Proof. exact accepted_request_is_covered. Qed.
Print Assumptions C12_no_flow_accepts_uncovered_request.

Theorem C12_request_uri_authorization_covered : forall cfg s cp uri a,
  o_err (snd (authorize_par cfg s cp uri a)) = "" ->
  exists k pr, key_of s uri = Some k /\ par (st s) k = Some pr /\
    scopes_ok cfg (r_cl pr) (r_rscopes pr) = true /\ aud_ok cfg (cl_aud (r_cl pr)) (r_raud pr) = true.
Proof. exact par_authorization_is_covered. Qed.
Print Assumptions C12_request_uri_authorization_covered.

Theorem C12_refresh_covered_by_current_registration : forall cfg s auth tok,
  o_err (snd (refresh_flow cfg s auth tok)) = "" ->
  exists k r cl, key_of s tok = Some k /\ refresh (st s) k = Some (true, r) /\ clients s (r_client r) = Some cl /\
    scopes_ok cfg cl (r_gscopes r) = true /\ aud_ok cfg (cl_aud cl) (r_gaud r) = true.
Proof. exact refresh_is_covered. Qed.
Print Assumptions C12_refresh_covered_by_current_registration.

(* tokens carry the grant and nothing else: grants that start at the token endpoint ... *)
Theorem C12_password_tokens_carry_the_grant : forall cfg s auth ok sc au g ga,
  o_err (snd (password_flow cfg s auth ok sc au g ga)) = "" ->
  o_scopes (snd (password_flow cfg s auth ok sc au g ga)) = g /\
  exists ka r, access (st (fst (password_flow cfg s auth ok sc au g ga))) ka = Some r /\ r_gscopes r = g /\ r_gaud r = ga.
Proof. exact password_mints_the_grant. Qed.
Print Assumptions C12_password_tokens_carry_the_grant.

Theorem C12_client_credentials_tokens_carry_the_grant : forall cfg s auth sc au g ga,
  o_err (snd (client_credentials_flow cfg s auth sc au g ga)) = "" ->
  o_scopes (snd (client_credentials_flow cfg s auth sc au g ga)) = g /\
  exists ka r, access (st (fst (client_credentials_flow cfg s auth sc au g ga))) ka = Some r /\ r_gscopes r = g /\ r_gaud r = ga.
Proof. exact client_credentials_mints_the_grant. Qed.
Print Assumptions C12_client_credentials_tokens_carry_the_grant.

(* ... a refresh re-issues exactly the stored grant (Props/C05.v), a redemption exactly the code's grant (Props/C02.v),
   a poll exactly the decision (Props/C16.v); and introspection reports the record's own scopes and audience: *)
Theorem C12_reported_scopes_are_the_records : forall cfg s key tampered scopes p,
  introspect_access cfg s key tampered scopes = Some p ->
  exists k r, key = Some k /\ lookup_access (st s) (Some k) = Some r /\
    pl_scopes p = r_gscopes r /\ pl_aud p = map a_raw (r_gaud r).
Proof. exact reported_scopes_are_the_records. Qed.
Print Assumptions C12_reported_scopes_are_the_records.

(* the history monitor of the flow half (Cases/Monitors.v judge_C12) on the model: for every operation that carries a
   requested scope/audience and every tracker whose view of the requesting client's registration is the state's, the
   judge is silent on the model's answer; likewise for refresh requests when the tracker's granted scopes of the
   presented token are the stored record's *)
From FositeModel Require Import Cases.CasesHist Cases.Monitors Proofs.MonitorC12H.
Theorem C12_monitor_request_clause_holds_of_the_model : forall cfg m s o c sc au pr,
  request_of o = Some (c, sc, au) ->
  nth_error (m_clients m) c = clients s c ->
  judge_C12 cfg m o (snd (step cfg s o)) pr = (None, [], []).
Proof. exact judge_C12_request_clause_sound. Qed.
Print Assumptions C12_monitor_request_clause_holds_of_the_model.
Theorem C12_monitor_refresh_clause_holds_of_the_model : forall cfg m s a tok sm pr j c,
  cred m tok = Some (j, c) ->
  (forall a, nth_error (m_clients m) a = clients s a) ->
  (forall k r, key_of s tok = Some k -> refresh (st s) k = Some (true, r) -> ci_scopes c = r_gscopes r) ->
  judge_C12 cfg m (ORefresh (Some a) tok sm) (snd (step cfg s (ORefresh (Some a) tok sm))) pr = (None, [], []).
Proof. exact judge_C12_refresh_clause_sound. Qed.
Print Assumptions C12_monitor_refresh_clause_holds_of_the_model.
