(* C13 — authorization requests are validated and tokens never travel in the query string.
   Only statements: each is closed by [exact <lemma>] and followed by Print Assumptions.
   The model is Model/Authz.v (the authorization endpoint as compose.ComposeAllEnabled builds it);
   Model/Flows.v supplies the token endpoint for the authorization_code clause. *)
From FositeModel Require Import Base.Str Model.Scope Model.Authz Proofs.AuthzProofs Proofs.AuthzHandlers
  Proofs.C13Proofs Cases.CasesC13 Proofs.MonitorC13.
From FositeModel Require Model.Core Model.Flows Proofs.C13Redeem.

(* ---- "the response_type is one of the client's registered combinations (as a set)" *)

(* Arguments.Matches, as the Go loop decides it, for all argument lists *)
Theorem C13_matches_characterised : forall r items,
  args_matches r items = true <->
  List.length r = List.length items /\ (forall i, In i items -> in_slice_ci i r = true) /\ NoDup items.
Proof. exact args_matches_spec. Qed.
Print Assumptions C13_matches_characterised.

(* for a registered combination without case-variant repetitions that is equality of duplicate-free
   sets, compared ASCII case-insensitively; order and multiplicity of the request do not matter
   beyond that *)
Theorem C13_matches_is_set_equality : forall r items,
  NoDup (map lower items) ->
  (args_matches r items = true <->
   NoDup (map lower r) /\ (forall x, In x (map lower r) <-> In x (map lower items))).
Proof. exact args_matches_sets. Qed.
Print Assumptions C13_matches_is_set_equality.

(* ---- "accepts a request only if the client exists, the response_type is ..., the response_mode is one
   the client may use, the state has the configured minimum length, OpenID Connect requests carry a
   redirect_uri", for every configuration, registration, query, request object and matcher verdict *)
Theorem C13_request_accepted_only_if_valid : forall cfg lookup rq ar,
  new_authorize_request cfg lookup rq = (ar, None) ->
  exists cl f,
    lookup (fget "client_id" (q_form rq)) = Some cl /\
    (f = q_form rq \/ exists claims, ro_honourable cl rq claims /\ f = ro_apply claims (q_form rq)) /\
    a_form ar = f /\ a_state ar = fget "state" f /\
    (exists t, In t (c_rtypes cl) /\ args_matches (fields (fget "response_type" f)) (fields t) = true) /\
    (fget "response_mode" f = "" \/ (c_rm_iface cl = true /\ In (fget "response_mode" f) (c_rmodes cl))) /\
    min_entropy cfg <= String.length (fget "state" f) /\
    (in_slice_ci "openid" (fields (fget "scope" f)) = true -> fget "redirect_uri" f <> "") /\
    (exists e, a_redir ar = Some e /\ rv_raw e = fget "redirect_uri" f /\ rv_match e = true /\ rv_valid e = true) /\
    scopes_ok cfg cl (fields (fget "scope" f)) = true.
Proof. exact request_accept_sound. Qed.
Print Assumptions C13_request_accepted_only_if_valid.

(* ---- "Parameters taken from an OpenID Connect request object are honoured only if it is signed with a
   key and algorithm registered for that client (unsigned only where the registration permits), and a
   request_uri only if pre-registered".  [ro_process] returns [RoUse claims] exactly when the claims
   are merged into the request; the symbolic reading of "signed" is: the key material that produced
   the signature is that of a registered signature key of the header algorithm's family, carrying the
   header's kid when one is given.  An unsigned object (alg none) needs a registration whose
   request_object_signing_alg is unset or "none". *)
Theorem C13_request_object_honoured_only_if_signed : forall cl rq claims,
  ro_process cl rq = RoUse claims ->
  args_has (fields (fget "scope" (q_form rq))) ["openid"] = true /\
  c_oidc cl = true /\
  (fget "request_uri" (q_form rq) <> "" ->
     In (fget "request_uri" (q_form rq)) (c_req_uris cl) /\ q_fetch_ok rq = true) /\
  exists keys j,
    c_jwks cl = Some keys /\ q_ro rq = Some (RoJwt j) /\ claims = j_claims j /\ j_claims_ok j = true /\
    (c_ro_alg cl = "" \/ c_ro_alg cl = j_alg j) /\
    (j_alg j = "none" \/
     exists k rsa, In k keys /\ alg_family (j_alg j) = Some rsa /\ k_rsa k = rsa /\ k_use k = "sig" /\
                   (j_kid j = "" \/ k_kid k = j_kid j) /\ j_signer j = Some (k_mat k)).
Proof. exact ro_process_sound_explicit. Qed.
Print Assumptions C13_request_object_honoured_only_if_signed.

(* every parameter but scope that differs from the query's was named by that request object *)
Theorem C13_effective_parameters_come_from_query_or_object : forall cfg lookup rq ar r,
  new_authorize_request cfg lookup rq = (ar, r) ->
  a_state ar = fget "state" (a_form ar) /\
  (a_form ar = q_form rq \/
   exists cl claims, lookup (fget "client_id" (q_form rq)) = Some cl /\ ro_process cl rq = RoUse claims /\
     a_form ar = ro_apply claims (q_form rq) /\
     forall k, k <> "scope" ->
       fget k (a_form ar) = if existsb (fun kv => String.eqb (fst kv) k) claims then fget k claims else fget k (q_form rq)).
Proof. exact effective_parameters_origin. Qed.
Print Assumptions C13_effective_parameters_come_from_query_or_object.

(* ---- "implicit/hybrid ID-token requests carry a nonce of minimum length": for every request handed to
   NewAuthorizeResponse (also one that did not come from NewAuthorizeRequest), session and verdict *)
Theorem C13_id_token_only_with_nonce_of_minimum_length : forall cfg ar se now h r,
  new_authorize_response cfg ar se now = (h, r) ->
  has_param "id_token" (h_params h) = true ->
  min_entropy cfg <= String.length (fget "nonce" (a_form ar)) /\ fget "nonce" (a_form ar) <> "" /\
  fget "redirect_uri" (a_form ar) <> "" /\ args_has (a_granted ar) ["openid"] = true.
Proof. exact id_token_requires_nonce. Qed.
Print Assumptions C13_id_token_only_with_nonce_of_minimum_length.

(* ---- "a client lacking the implicit grant never receives tokens from the authorization endpoint".
   Reading adopted (DESIGN.md 6.0): access tokens; none is delivered and none is even written to the
   store, whatever the verdict. *)
Theorem C13_no_implicit_grant_no_access_token : forall cfg ar se now h r cl,
  a_cl ar = Some cl -> args_has (c_grants cl) ["implicit"] = false ->
  new_authorize_response cfg ar se now = (h, r) ->
  has_param "access_token" (h_params h) = false /\ x_access (h_fx h) = 0.
Proof. exact no_implicit_no_access_token. Qed.
Print Assumptions C13_no_implicit_grant_no_access_token.

(* Full statement "... never receives tokens" including ID tokens:
     forall ..., args_has (c_grants cl) ["implicit"] = false -> has_param "id_token" (h_params h) = false
   is FALSE of the model and of the library (A9): the hybrid handler asks for the implicit grant only
   when "token" is requested.  What holds: an ID token reaches such a client only through a response
   type containing "code"; and the witness below shows that it does. *)
Theorem C13_no_implicit_grant_id_token_only_via_hybrid_partial : forall cfg ar se now h r cl,
  a_cl ar = Some cl -> args_has (c_grants cl) ["implicit"] = false ->
  new_authorize_response cfg ar se now = (h, r) ->
  has_param "id_token" (h_params h) = true -> args_has (a_rtypes ar) ["code"] = true.
Proof. exact no_implicit_id_token_only_hybrid. Qed.
Print Assumptions C13_no_implicit_grant_id_token_only_via_hybrid_partial.

Theorem C13_no_implicit_grant_no_id_token_refuted :
  exists grants rt,
    args_has grants ["implicit"] = false /\
    let o := ex_run grants rt "" in
    o_req_err o = None /\ o_resp_err o = None /\ has_param "id_token" (w_params (o_written o)) = true /\
    has_param "access_token" (w_params (o_written o)) = false /\ w_place (o_written o) = PFragment.
Proof. exact hybrid_id_token_without_implicit_grant. Qed.
Print Assumptions C13_no_implicit_grant_no_id_token_refuted.

(* ---- "one lacking the authorization_code grant can never turn a code into tokens": the token endpoint
   of the history model refuses before it looks at the code, in every state *)
Theorem C13_no_authorization_code_grant_no_redemption :
  forall cfg s c cl code redirect verifier verifier_s256,
  Core.clients s c = Some cl ->
  args_has (Core.cl_grants cl) ["authorization_code"] = false ->
  Flows.redeem cfg s (Some c) code redirect verifier verifier_s256 = (s, Flows.err_obs "unauthorized_client").
Proof. exact C13Redeem.redeem_requires_grant. Qed.
Print Assumptions C13_no_authorization_code_grant_no_redemption.

(* ---- "Access tokens and ID tokens are only ever delivered in the fragment or a form post, never in the
   redirect's query string" *)
Theorem C13_accepted_response_in_query_has_no_token : forall cfg ar se now h,
  new_authorize_response cfg ar se now = (h, None) ->
  w_place (write_authorize_response (h_ar h) (h_params h)) = PQuery ->
  has_param "access_token" (h_params h) = false /\ has_param "id_token" (h_params h) = false.
Proof. exact no_tokens_in_query. Qed.
Print Assumptions C13_accepted_response_in_query_has_no_token.

Theorem C13_tokens_never_in_query : forall cfg lookup rq granted se now,
  let o := authorize cfg lookup rq granted se now in
  w_place (o_written o) = PQuery ->
  has_param "access_token" (w_params (o_written o)) = false /\ has_param "id_token" (w_params (o_written o)) = false.
Proof. exact authorize_no_tokens_in_query. Qed.
Print Assumptions C13_tokens_never_in_query.

Theorem C13_error_answers_carry_no_credential : forall cfg lookup rq granted se now k,
  let o := authorize cfg lookup rq granted se now in
  (o_req_err o <> None \/ o_resp_err o <> None) ->
  In k ["access_token"; "id_token"; "code"] -> has_param k (w_params (o_written o)) = false.
Proof. exact authorize_error_carries_no_token. Qed.
Print Assumptions C13_error_answers_carry_no_credential.

(* ---- "the state is echoed unchanged on success and on redirected errors" *)
Theorem C13_state_echoed_unchanged : forall cfg lookup rq granted se now,
  let o := authorize cfg lookup rq granted se now in
  let st := a_state (fst (new_authorize_request cfg lookup rq)) in
  st = fget "state" (a_form (fst (new_authorize_request cfg lookup rq))) /\
  ((o_req_err o = None /\ o_resp_err o = None) \/ w_place (o_written o) <> PJson ->
   (w_place (o_written o) = PQuery \/ w_place (o_written o) = PFragment \/ w_place (o_written o) = PForm) /\
   In ("state", st) (w_params (o_written o)) /\
   forall v, In ("state", v) (w_params (o_written o)) -> v = st).
Proof. exact authorize_state_echo. Qed.
Print Assumptions C13_state_echoed_unchanged.

(* ---- the executable reading of C13 that judges the implementation's observations never objects to the
   model's own observation: every clause of the monitor is a theorem about the model *)
Theorem C13_monitor_accepts_model : forall cfg cid clo rq granted se now,
  monitor (K cfg cid clo rq granted se now (model_obs cfg cid clo rq granted se now)) = None.
Proof. exact monitor_accepts_model. Qed.
Print Assumptions C13_monitor_accepts_model.
