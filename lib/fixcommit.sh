#!/bin/bash
# usage: lib/fixcommit.sh <message-file>   run the unedited full suite of /repo on the working tree; commit only if it passes
set -u
export GOFLAGS=-mod=mod GOPROXY=off GOSUMDB=off
cd /repo || exit 2
log=/tmp/fixcommit.$$.log
if go build ./... >$log 2>&1 && go test -vet=off -count=1 -timeout 25m ./... >>$log 2>&1; then
  git add -A && git commit -q -F "$1" && echo "COMMITTED $(git log --oneline | head -1)"
else
  echo "SUITE FAILED - not committed"; grep -E "^(---|FAIL|ok|panic)" $log | grep -v "^ok" | head -30
fi
rm -f $log
