#!/usr/bin/env python3
"""lib/difftrace.py Cxx <case> <step>: print model and implementation observation/probes of one step"""
import sys,json,subprocess,os
pid,ci,stn=sys.argv[1],int(sys.argv[2]),int(sys.argv[3])
d='/verif/work/%s'%pid
size=json.load(open(d+'/meta.json'))['shard_size']
k,j=divmod(ci,size)
src=open('%s/cases_%04d.v'%(d,k)).read()
cut=src.index('Definition bad')
v=src[:cut]+'''
Definition c := nth %d cases (HCase (case_cfg (hd (HCaseRaw (Build_config SExact false [] 0 0 0 false false false false 0 0 false false) [] []) cases)) [] []).
Definition mt := Eval vm_compute in nth_error (model_trace c) %d.
Definition it := Eval vm_compute in nth_error (impl_trace c) %d.
Print mt. Print it.
'''%(j,stn,stn)
f='/tmp/difftrace_%d.v'%os.getpid()
open(f,'w').write(v)
r=subprocess.run(['coqc','-Q','/verif/coq','FositeModel',f],capture_output=True,text=True)
print(r.stdout[-6000:],r.stderr[-3000:])
for e in ('.v','.vo','.glob','.vok','.vos'):
    try: os.remove(f[:-2]+e)
    except OSError: pass
