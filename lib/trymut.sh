#!/bin/sh
# usage: lib/trymut.sh <patch.diff> <Cxx> [<Cxx> ...]   apply a seeded change to /repo, run the quick checks, undo it
patch="$1"; shift
cd /verif
git -C /repo apply "$patch" || { echo "patch does not apply"; exit 2; }
for p in "$@"; do
  ./check "$p" quick 2>&1 | grep -E "VIOLATION|KNOWN-FINDING|tier done|obligation broken" | sed "s|^|[$p] |"
done
git -C /repo checkout -- .
git -C /repo status --short | head -3
