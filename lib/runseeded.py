#!/usr/bin/env python3
"""lib/runseeded.py [ids...]: apply each seeded change to /repo, run the quick check(s) of its property
(and any extra properties listed in meta.json 'also_run'), record the outcome in seeded/<id>/meta.json, undo."""
import json, os, subprocess, sys, glob, re
ids = sys.argv[1:] or sorted(os.path.basename(d) for d in glob.glob('/verif/seeded/C*'))
man = {c['property_id'] for c in json.load(open('/verif/MANIFEST.json'))['checks']}
for i in ids:
    d = '/verif/seeded/' + i
    meta = json.load(open(d + '/meta.json'))
    props = [meta['property']] + [p for p in meta.get('also_run', []) if p != meta['property']]
    assert subprocess.run('git -C /repo status --short', shell=True, capture_output=True, text=True).stdout.strip() == '', 'repo dirty'
    r = subprocess.run(['git', '-C', '/repo', 'apply', d + '/patch.diff'], capture_output=True, text=True)
    if r.returncode != 0:
        print(i, 'PATCH DOES NOT APPLY', r.stderr[:200]); continue
    det = []; lines = []
    try:
        for p in props:
            if p not in man: lines.append('%s: no check' % p); continue
            o = subprocess.run(['/verif/check', p, 'quick'], capture_output=True, text=True, cwd='/verif')
            v = [l for l in o.stdout.splitlines() if l.startswith('VIOLATION')]
            rep = '/verif/work/%s/replay-1.json' % p
            tag = ''
            if v and os.path.exists(rep):
                try:
                    j = json.load(open(rep)); tag = j.get('kind', '') + ':' + str(j.get('tag', j.get('clause', '')))[:80]
                except Exception: pass
            lines.append('%s: exit %d %s %s' % (p, o.returncode, v[0] if v else 'no violation', tag))
            if o.returncode != 0 and v: det.append(p)
    finally:
        subprocess.run('git -C /repo checkout -- . && git -C /repo clean -fdq', shell=True)
    meta['detected_by'] = det; meta['last_run'] = lines
    json.dump(meta, open(d + '/meta.json', 'w'), indent=1)
    print(i, 'DETECTED' if det else 'MISSED', '|', ' ; '.join(lines))
