#!/usr/bin/env python3
"""show the failing cases of the last run of a property: lib/showfail.py Cxx [n]"""
import json,re,glob,sys
pid=sys.argv[1]; lim=int(sys.argv[2]) if len(sys.argv)>2 else 2
d='/verif/work/%s'%pid
meta=json.load(open(d+'/meta.json')); size=meta['shard_size']
lines=open(d+'/cases.jsonl').read().splitlines()
n=0
for f in sorted(glob.glob(d+'/cases_*.v.out')):
    out=open(f).read()
    k=int(re.search(r'cases_(\d+)',f).group(1))
    for m in re.finditer(r'\((\d+), *"((?:[^"]|"")*)"\)',out):
        ci=k*size+int(m.group(1)); tag=m.group(2)
        print('== case',ci,tag)
        h=json.loads(lines[ci])
        st=re.search(r'step (\d+)',tag)
        stn=int(st.group(1)) if st else len(h['ops'])-1
        print(json.dumps(h['config'])); print(json.dumps(h['clients']))
        for i,o in enumerate(h['ops'][:stn+1]):
            o={k:v for k,v in o.items() if v not in (None,"",[],False) or k in('auth',)}
            print(i,json.dumps(o))
        n+=1
        if n>=lim: sys.exit(0)
