#!/usr/bin/env python3
"""merge the new files of a builder workspace into /verif: lib/merge_builder.py Cxx"""
import os, re, shutil, subprocess, sys
pid = sys.argv[1]
src = "/tmp/build/%s/verif" % pid
tracked = set(subprocess.run("git ls-files", shell=True, cwd="/verif", capture_output=True, text=True).stdout.split())
skip = re.compile(r"(\.vo[sk]?$|\.glob$|\.aux$|^coq/Makefile|^coq/\.Makefile|\.lia\.cache|^work/|^evidence/|^harness/go\.sum|^MANIFEST\.json|^\.git|^harness/hx\.test|^known_findings\.json|__pycache__)")
added = []
for root, dirs, files in os.walk(src):
    for f in files:
        rel = os.path.relpath(os.path.join(root, f), src)
        if skip.search(rel) or rel in tracked:
            continue
        dst = os.path.join("/verif", rel)
        os.makedirs(os.path.dirname(dst), exist_ok=True)
        shutil.copy(os.path.join(root, f), dst)
        added.append(rel)
print("added:", added)
# _CoqProject lines
mine = open("/verif/coq/_CoqProject").read().split("\n")
theirs = [l for l in open(src + "/coq/_CoqProject").read().split("\n") if l]
new = [l for l in theirs if l not in mine]
print("coqproject new lines:", new)
# keep statements (Props) last: insert Model/Cases/Proofs before first Props line, Props at the end
out = [l for l in mine if l]
first_props = next(i for i, l in enumerate(out) if l.startswith("Props/"))
pre = [l for l in new if not l.startswith("Props/")]
post = [l for l in new if l.startswith("Props/")]
out = out[:first_props] + pre + out[first_props:] + post
open("/verif/coq/_CoqProject", "w").write("\n".join(out) + "\n")
# registry block
reg = open(src + "/lib/registry.py").read()
m = re.search(r'(?ms)^PROPS\["%s"\] = dict\(.*?^\)\n' % pid, reg)
if not m:
    m = re.search(r'(?ms)^    "%s": dict\(.*?^    \),\n' % pid, reg)
    block = 'PROPS["%s"] = dict(\n' % pid + "\n".join(m.group(0).split("\n")[1:-2]) + "\n)\n" if m else None
else:
    block = m.group(0)
if block:
    r = open("/verif/lib/registry.py").read()
    if 'PROPS["%s"] = dict(' % pid not in r:
        r = r.replace("NOT_YET = {", block + "\nNOT_YET = {")
        open("/verif/lib/registry.py", "w").write(r)
        print("registry block added")
else:
    print("NO registry block found")
# known findings of the builder
kf = src + "/known_findings.json"
if os.path.exists(kf):
    import json
    theirs = json.load(open(kf)); theirs = theirs["findings"] if isinstance(theirs, dict) else theirs
    mine = json.load(open("/verif/known_findings.json"))
    have = {(f["property"], f["match"]) for f in mine["findings"]}
    n = 0
    for f in theirs:
        if (f["property"], f["match"]) in have: continue
        if "id" not in f: f = dict(id="%s-%s" % (f["property"], f["match"][:40]), **f)
        mine["findings"].append(f); n += 1
    json.dump(mine, open("/verif/known_findings.json", "w"), indent=1, ensure_ascii=False)
    print("known findings merged:", n)
