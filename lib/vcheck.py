"""Driver shared by all property checks.

One run of `./check Cxx <tier>`:
  1. translators regenerate coq/Gen/*.v from /repo's working tree (only rewritten when changed);
     `make` re-checks the Coq development; the property's Props/Cxx.v is re-compiled and its
     `Print Assumptions` output inspected  -> proof obligations.
  2. the Go harness is rebuilt against /repo's working tree and produces cases (inputs or
     histories with the implementation's observations) for the property.
  3. every case is evaluated inside Coq (vm_compute): `corr` = the model computes the same
     observation, `mon` = the property's monitor accepts the implementation's observation.
  4. verdict, known findings, evidence.
"""
import fcntl, glob, json, os, re, shutil, subprocess, sys, time

VERIF = os.path.dirname(os.path.dirname(os.path.abspath(__file__)))
COQ = os.path.join(VERIF, "coq")
WORK = os.path.join(VERIF, "work")
HARNESS = os.path.join(VERIF, "harness")
REPO = os.environ.get("VERIF_REPO", "/repo")
sys.path.insert(0, os.path.join(VERIF, "lib"))
import registry

GOENV = dict(os.environ, GOFLAGS="-mod=mod", GOPROXY="off", GOSUMDB="off", GOTOOLCHAIN="local"
            )
GO = "go1.26.8"
FORBIDDEN = re.compile(r"\b(Admitted|admit|Axiom|Axioms|Parameter|Parameters|Conjecture|Admit Obligations)\b"
                       r"|Unset\s+Guard|Unset\s+Positivity|Unset\s+Universe\s+Checking|bypass_check|type-in-type|impredicative-set")
ALLOWED_AXIOMS = set(registry.ALLOWED_AXIOMS)


def log(*a):
    print(*a, flush=True)


def sh(cmd, cwd=None, env=None, timeout=1800, stdout=subprocess.PIPE):
    p = subprocess.run(cmd, cwd=cwd, env=env, shell=isinstance(cmd, str), stdout=stdout,
                       stderr=subprocess.STDOUT, timeout=timeout, text=True, errors="replace")
    return p.returncode, p.stdout or ""


class Lock:
    def __init__(self, name):
        os.makedirs(WORK, exist_ok=True)
        self.path = os.path.join(WORK, name)

    def __enter__(self):
        self.f = open(self.path, "w")
        fcntl.flock(self.f, fcntl.LOCK_EX)

    def __exit__(self, *a):
        fcntl.flock(self.f, fcntl.LOCK_UN)
        self.f.close()


# ---------------------------------------------------------------- Coq side
def strip_comments(src):
    out, depth, i = [], 0, 0
    while i < len(src):
        if src.startswith("(*", i):
            depth += 1; i += 2
        elif src.startswith("*)", i) and depth:
            depth -= 1; i += 2
        else:
            if not depth:
                out.append(src[i])
            i += 1
    return "".join(out)


def forbidden_vernacular():
    hits = []
    for f in glob.glob(os.path.join(COQ, "**", "*.v"), recursive=True):
        src = strip_comments(open(f, errors="replace").read())
        src = re.sub(r'"(?:[^"]|"")*"', '""', src)
        for m in FORBIDDEN.finditer(src):
            hits.append("%s: %s" % (os.path.relpath(f, COQ), m.group(0)))
    return hits


def run_translators():
    """regenerate coq/Gen/*.v from /repo (registry.TRANSLATORS); returns list of error strings"""
    errs = []
    if not registry.TRANSLATORS:
        return errs
    ok, out = build_harness()
    if not ok:
        return ["harness build failed: " + out[-2000:]]
    gen_tmp = os.path.join(WORK, "gen_tmp")
    shutil.rmtree(gen_tmp, ignore_errors=True)
    os.makedirs(gen_tmp)
    env = dict(GOENV, HX_PROP="translate", HX_OUT=gen_tmp, HX_REPO=REPO)
    rc, out = sh([os.path.join(WORK, "bin", "hx.test"), "-test.run", "TestHX", "-test.count=1"], cwd=HARNESS, env=env, timeout=300)
    if rc != 0:
        errs.append("translator failed: " + out[-3000:])
    for f in sorted(glob.glob(os.path.join(gen_tmp, "*.v"))):
        dst = os.path.join(COQ, "Gen", os.path.basename(f))
        new = open(f).read()
        if not os.path.exists(dst) or open(dst).read() != new:
            open(dst, "w").write(new)
    return errs


def coq_make():
    """full .vo build (incremental); returns (ok, log)"""
    with Lock("coq.lock"):
        mk = os.path.join(COQ, "Makefile")
        cp = os.path.join(COQ, "_CoqProject")
        if not os.path.exists(mk) or os.path.getmtime(mk) < os.path.getmtime(cp):
            rc, out = sh("coq_makefile -f _CoqProject -o Makefile", cwd=COQ, timeout=120)
            if rc != 0:
                return False, out
        rc, out = sh("timeout 3000 make -k -j16", cwd=COQ, timeout=3100)
        return rc == 0, out


def vo_uptodate(vfile):
    rc, _ = sh(["make", "-q", vfile + "o"], cwd=COQ, timeout=120)
    return rc == 0


def obligations(pid, tier="quick"):
    """re-check the property's statements file; returns dict"""
    spec = registry.PROPS[pid]
    res = dict(total=0, discharged=0, failed=[], axioms=[], theorems=[], log="")
    errs = run_translators()
    ok, out = coq_make()
    res["log"] = out[-4000:]
    hits = forbidden_vernacular()
    for pf in spec["props_files"]:
        src = strip_comments(open(os.path.join(COQ, pf)).read())
        thms = re.findall(r"\b(?:Theorem|Corollary)\s+([A-Za-z0-9_']+)", src)
        res["total"] += len(thms)
        res["theorems"] += thms
        if errs or hits:
            res["failed"] += [(t, "; ".join(errs + hits)) for t in thms]
            continue
        deps_ok = vo_uptodate(pf)
        with Lock("coq.lock"):
            rc, pout = sh(["coqc", "-Q", ".", "FositeModel", pf], cwd=COQ, timeout=1200)
        if rc != 0 or not deps_ok:
            # find the first theorem at or after the error line, else blame all
            m = re.search(r'line (\d+)', pout)
            msg = (pout.strip().splitlines() or ["dependency failed to compile"])[-1][:300]
            if not deps_ok and rc == 0:
                msg = "a dependency of %s failed to compile" % pf
            if rc != 0 and not m:
                dep = re.findall(r'File "\./([^"]+)", line \d+[^\n]*\n(?:.*\n)*?Error', out)
                msg = "build error: " + (dep[0] if dep else msg)
            res["failed"] += [(t, msg) for t in thms]
            res["log"] += "\n" + pout[-3000:]
            continue
        # Print Assumptions output: one block per theorem, in order
        blocks = re.split(r"(?m)^(?=Closed under the global context|Axioms:)", pout)
        blocks = [b for b in blocks if b.startswith("Closed under") or b.startswith("Axioms:")]
        for i, t in enumerate(thms):
            if i >= len(blocks):
                res["failed"].append((t, "no Print Assumptions output"))
                continue
            b = blocks[i]
            if b.startswith("Closed under"):
                res["discharged"] += 1
            else:
                ax = re.findall(r"(?m)^([A-Za-z0-9_.']+)\s*:", b)
                bad = [a for a in ax if a not in ALLOWED_AXIOMS]
                res["axioms"] += [a for a in ax if a not in res["axioms"]]
                if bad:
                    res["failed"].append((t, "depends on undeclared axioms: " + ", ".join(bad)))
                else:
                    res["discharged"] += 1
    # thorough tier: the independent checker re-checks the compiled statements and everything they depend on
    if tier == "thorough" and not res["failed"]:
        mods = ["FositeModel." + pf[:-2].replace("/", ".") for pf in spec["props_files"]]
        with Lock("coq.lock"):
            rc, cout = sh(["coqchk", "-silent", "-o", "-Q", ".", "FositeModel"] + mods, cwd=COQ, timeout=5400)
        summ = cout[cout.find("CONTEXT SUMMARY"):] if "CONTEXT SUMMARY" in cout else cout[-1500:]
        res["coqchk"] = re.sub(r"\s+", " ", summ)[:1500]
        clean = all(re.search(pat, summ) for pat in (r"Axioms:\s*<none>", r"type-in-type:\s*<none>", r"unsafe \(co\)fixpoints:\s*<none>", r"positivity is assumed:\s*<none>"))
        if rc != 0 or not clean:
            res["failed"].append(("coqchk", "the independent checker did not accept the compiled statements cleanly: " + res["coqchk"][:400]))
    return res


# ---------------------------------------------------------------- Go side
def build_harness():
    with Lock("go.lock"):
        os.makedirs(os.path.join(WORK, "bin"), exist_ok=True)
        try:
            shutil.copy(os.path.join(REPO, "go.sum"), os.path.join(HARNESS, "go.sum"))
        except OSError as e:
            return False, str(e)
        gomod = open(os.path.join(HARNESS, "go.mod")).read()
        want = "replace github.com/ory/fosite => %s" % REPO
        if want not in gomod:
            gomod = re.sub(r"replace github.com/ory/fosite => \S+", want, gomod)
            open(os.path.join(HARNESS, "go.mod"), "w").write(gomod)
        rc, out = sh([GO, "test", "-c", "-o", os.path.join(WORK, "bin", "hx.test"), "."], cwd=HARNESS, env=GOENV, timeout=900)
        return rc == 0, out


def run_harness(pid, tier, seed, outdir, replay=None):
    ok, out = build_harness()
    if not ok:
        return False, "harness does not build against %s:\n%s" % (REPO, out[-3000:])
    shutil.rmtree(outdir, ignore_errors=True)
    os.makedirs(outdir)
    env = dict(GOENV, HX_PROP=pid, HX_SEED=str(seed), HX_TIER=tier, HX_OUT=outdir, HX_REPO=REPO, HX_CORPUS=os.path.join(VERIF, "corpus"))
    if replay:
        env["HX_REPLAY"] = replay
    to = 7200 if tier == "thorough" else 900
    rc, out = sh([os.path.join(WORK, "bin", "hx.test"), "-test.run", "TestHX", "-test.count=1", "-test.timeout", "%ds" % to],
                 cwd=HARNESS, env=env, timeout=to + 60)
    if rc != 0:
        return False, "harness run failed:\n" + out[-4000:]
    return True, out


def run_cases(outdir, par=8):
    """evaluate all case shards inside Coq; returns (failures[(idx, tag)], errors[])"""
    shards = sorted(glob.glob(os.path.join(outdir, "cases_*.v")))
    meta = json.load(open(os.path.join(outdir, "meta.json")))
    size = meta.get("shard_size", 1000)
    procs, fails, errs = [], [], []
    pending = list(enumerate(shards))
    running = []

    def reap(block):
        for item in list(running):
            k, f, p, fh = item
            if block:
                p.wait()
            if p.poll() is None:
                continue
            running.remove(item)
            fh.close()
            out = open(f + ".out", errors="replace").read()
            m = re.search(r"bad\s*=\s*(.*?)\n\s*:\s*list", out, re.S)
            if p.returncode != 0 or not m:
                errs.append("%s: %s" % (os.path.basename(f), out.strip()[-600:]))
                continue
            body = m.group(1)
            for mm in re.finditer(r'\(\s*(\d+)\s*,\s*"((?:[^"]|"")*)"\s*\)', body):
                fails.append((k * size + int(mm.group(1)), mm.group(2)))
            if body.strip() != "[]" and not re.search(r'\(\s*\d+\s*,', body):
                errs.append("%s: unparsed result %s" % (os.path.basename(f), body[:200]))
            for ext in (".vo", ".glob", ".vok", ".vos"):
                try: os.remove(f[:-2] + ext)
                except OSError: pass
            try: os.remove(os.path.join(os.path.dirname(f), "." + os.path.basename(f)[:-2] + ".aux"))
            except OSError: pass

    while pending or running:
        while pending and len(running) < par:
            k, f = pending.pop(0)
            fh = open(f + ".out", "w")
            p = subprocess.Popen(["timeout", "1800", "coqc", "-Q", COQ, "FositeModel", f], stdout=fh, stderr=subprocess.STDOUT, cwd=outdir)
            running.append((k, f, p, fh))
        reap(False)
        if running:
            time.sleep(0.05)
    fails.sort()
    return fails, errs, meta


# ---------------------------------------------------------------- verdicts
def load_known():
    p = os.path.join(VERIF, "known_findings.json")
    if not os.path.exists(p):
        return []
    return json.load(open(p)).get("findings", [])


def case_record(outdir, idx):
    try:
        with open(os.path.join(outdir, "cases.jsonl")) as f:
            for i, line in enumerate(f):
                if i == idx:
                    return json.loads(line)
    except OSError:
        pass
    return None


def write_evidence(pid, tier, seed, ob, meta, wall, nviol, extra):
    spec = registry.PROPS[pid]
    cov = dict(
        obligations=ob["total"], discharged=ob["discharged"],
        checker_cmd="cd coq && make -k -j16 && coqc -Q . FositeModel " + " ".join(spec["props_files"]),
        trusted_base=registry.TRUSTED_BASE + spec.get("trusted_extra", []),
        theorems=ob["theorems"], axioms_reported=ob["axioms"], coqchk=ob.get("coqchk", "not run in this tier"),
        failed_obligations=[{"theorem": t, "why": w} for t, w in ob["failed"]],
        evaluations=meta.get("evaluations", 0), distinct_nontrivial=meta.get("distinct_nontrivial", 0),
        rule=meta.get("rule", ""), samples=meta.get("samples", []), histogram=meta.get("histogram", {}),
        traces_validated_against_impl=meta.get("evaluations", 0), notes=meta.get("notes", {}),
        exhaustive=False,
    )
    cov.update(extra)
    ev = dict(property_id=pid, tier=tier, seed=seed, level=spec.get("level", "proof"), coverage=cov,
              assumptions=spec.get("assumptions", []), wall_s=round(wall, 2), violations=nviol)
    os.makedirs(os.path.join(VERIF, "evidence"), exist_ok=True)
    with open(os.path.join(VERIF, "evidence", pid + ".json"), "w") as f:
        json.dump(ev, f, indent=1)


def run_check(pid, tier, seed):
    t0 = time.time()
    outdir = os.path.join(WORK, pid)
    ob = obligations(pid, tier)
    log("[%s] obligations: %d/%d discharged" % (pid, ob["discharged"], ob["total"]))
    for t, w in ob["failed"]:
        log("[%s]   obligation broken: %s (%s)" % (pid, t, w))
    meta, fails, errs = {}, [], []
    ok, hout = run_harness(pid, tier, seed, outdir)
    if ok:
        fails, errs, meta = run_cases(outdir)
        log("[%s] correspondence: %d cases, %d failures, %d shard errors" % (pid, meta.get("evaluations", 0), len(fails), len(errs)))
    else:
        errs = [hout]
        log("[%s] %s" % (pid, hout[-1500:]))
    # clauses of this property that are decided on another property's case stream (registry "parts"):
    # that harness is run too and its monitor failures whose tag matches are reported under this property
    part_fail = []
    for pid2, rx in registry.PROPS[pid].get("parts", []):
        od2 = os.path.join(WORK, "%s-part-%s" % (pid, pid2))
        ok2, hout2 = run_harness(pid2, tier, seed, od2)
        if not ok2:
            errs.append(hout2); continue
        f2, e2, m2 = run_cases(od2)
        errs += e2
        k2 = {k["match"] for k in load_known() if k.get("property") in (pid, pid2) and k.get("status") == "known"}
        hit = [(i, t[4:]) for i, t in f2 if t.startswith("mon:") and re.search(rx, t[4:]) and t[4:] not in k2]
        log("[%s] part %s (%s): %d cases, %d matching monitor failures" % (pid, pid2, rx, m2.get("evaluations", 0), len(hit)))
        meta.setdefault("notes", {})["part_" + pid2] = "%d cases of the %s stream judged for clauses %s" % (m2.get("evaluations", 0), pid2, rx)
        meta["evaluations"] = meta.get("evaluations", 0) + m2.get("evaluations", 0)
        part_fail += [(pid2, od2, i, t) for i, t in hit]
    known = [k for k in load_known() if (k.get("property") == pid or pid in k.get("also", [])) and k.get("status") == "known"]
    known_tags = {k["match"]: k for k in known}
    mon_fail = [(i, t[4:]) for i, t in fails if t.startswith("mon:")]
    corr_fail = [i for i, t in fails if t.startswith("corr")]
    new_mon = [(i, t) for i, t in mon_fail if t not in known_tags]
    seen_known = {}
    for i, t in mon_fail:
        if t in known_tags and t not in seen_known:
            seen_known[t] = i
    for t, i in seen_known.items():
        log("KNOWN-FINDING: property=%s %s" % (pid, known_tags[t]["what"]))
    os.makedirs(outdir, exist_ok=True)
    rpath = os.path.join(outdir, "replay-%d.json" % seed)
    verdict = 0
    if new_mon:
        i, tag = new_mon[0]
        rec = dict(property=pid, seed=seed, tier=tier, kind="failing-input", clause=tag, case_index=i,
                   case=case_record(outdir, i), all_failures=fails[:50])
        json.dump(rec, open(rpath, "w"), indent=1)
        log("VIOLATION property=%s replay=%s" % (pid, rpath))
        verdict = 1
    elif part_fail:
        pid2, od2, i, tag = part_fail[0]
        rec = dict(property=pid, seed=seed, tier=tier, kind="failing-input", clause=tag, case_index=i, stream=pid2,
                   case=case_record(od2, i), replay_with="./check %s --replay <this file>" % pid2)
        json.dump(rec, open(rpath, "w"), indent=1)
        log("VIOLATION property=%s replay=%s" % (pid, rpath))
        verdict = 1
    elif corr_fail or ob["failed"] or errs:
        rec = dict(property=pid, seed=seed, tier=tier, kind="unchecked")
        if ob["failed"]:
            rec["unchecked"] = [{"theorem": t, "why": w} for t, w in ob["failed"]]
        if corr_fail:
            rec["correspondence"] = dict(case_index=corr_fail[0], case=case_record(outdir, corr_fail[0]),
                                         note="model and implementation disagree on this case; the property's monitor accepts the implementation's observation")
            rec["case"] = rec["correspondence"]["case"]
        if errs:
            rec["errors"] = errs[:5]
        json.dump(rec, open(rpath, "w"), indent=1)
        log("VIOLATION property=%s replay=%s no-failing-input-found" % (pid, rpath))
        verdict = 1
    write_evidence(pid, tier, seed, ob, meta, time.time() - t0, len(new_mon) + len(part_fail) + len(corr_fail) + len(ob["failed"]),
                   dict(correspondence_failures=len(corr_fail), monitor_failures=len(mon_fail),
                        known_findings_seen=sorted(seen_known), build_errors=errs[:3]))
    log("[%s] %s tier done in %.1fs: %s" % (pid, tier, time.time() - t0, "OK" if verdict == 0 else "VIOLATION"))
    return verdict


def run_replay(pid, path):
    rec = json.load(open(path))
    if rec.get("case") is None:
        log("[%s] replay file names unchecked obligations only: %s" % (pid, json.dumps(rec.get("unchecked", rec.get("errors")))[:2000]))
        ob = obligations(pid)
        for t, w in ob["failed"]:
            log("[%s]   obligation broken: %s (%s)" % (pid, t, w))
        return 1 if ob["failed"] else 0
    if rec.get("stream"):
        pid = rec["stream"]
    outdir = os.path.join(WORK, pid + "-replay")
    os.makedirs(outdir, exist_ok=True)
    cf = os.path.join(WORK, pid + "-replay-case.json")
    json.dump(rec["case"], open(cf, "w"))
    ok, hout = run_harness(pid, rec.get("tier", "quick"), rec.get("seed", 1), outdir, replay=cf)
    if not ok:
        log(hout); return 1
    fails, errs, meta = run_cases(outdir)
    log("[%s] replayed case: %s" % (pid, json.dumps(case_record(outdir, 0))[:3000]))
    log("[%s] failures on the current tree: %s %s" % (pid, fails, errs))
    return 1 if fails or errs else 0


def setup():
    t0 = time.time()
    os.makedirs(WORK, exist_ok=True)
    os.makedirs(os.path.join(COQ, "Gen"), exist_ok=True)
    errs = run_translators()
    if errs:
        log("\n".join(errs)); return 1
    sh("rm -f Makefile Makefile.conf .Makefile.d; find . -name '*.vo' -delete -o -name '*.glob' -delete -o -name '*.vok' -delete -o -name '*.vos' -delete -o -name '.*.aux' -delete", cwd=COQ)
    ok, out = coq_make()
    log(out[-3000:])
    if not ok:
        log("coq build failed"); return 1
    ok, out = build_harness()
    if not ok:
        log(out); return 1
    log("setup done in %.1fs" % (time.time() - t0))
    return 0


def main(argv):
    if not argv:
        print(__doc__); return 2
    if argv[0] == "setup":
        return setup()
    if argv[0] == "manifest":
        import mkmanifest
        return mkmanifest.main()
    pid = argv[0]
    if pid not in registry.PROPS:
        print("unknown property", pid); return 2
    if len(argv) >= 3 and argv[1] == "--replay":
        return run_replay(pid, argv[2])
    tier = argv[1] if len(argv) > 1 else os.environ.get("VERIF_TIER", "quick")
    if tier not in ("quick", "thorough"):
        tier = "quick"
    try:
        seed = int(os.environ.get("VERIF_SEED", "1"))
    except ValueError:
        seed = 1
    return run_check(pid, tier, seed)
