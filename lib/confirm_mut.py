#!/usr/bin/env python3
"""confirm a seeded change delivered by a sub-agent: demo passes without the patch, fails with it,
and the unedited full suite passes with it.  usage: confirm_mut.py <Cxx> <n> [--keep-as <name>]"""
import json, os, re, shutil, subprocess, sys, time
pid, n = sys.argv[1], sys.argv[2]
base = os.environ.get("MUTBASE", "/tmp/mut")
off = int(os.environ.get("SEEDOFF", "0"))
wt = "%s/%s" % (base, pid)
out = "%s/%s-out" % (base, pid)
env = dict(os.environ, GOFLAGS="-mod=mod", GOPROXY="off", GOSUMDB="off")
def sh(cmd, cwd=wt, timeout=1500):
    p = subprocess.run(cmd, cwd=cwd, shell=True, env=env, stdout=subprocess.PIPE, stderr=subprocess.STDOUT, text=True, timeout=timeout)
    return p.returncode, p.stdout
demo = open("%s/demo%s_test.go" % (out, n)).read()
pkg = re.search(r"(?m)^package (\w+)", demo).group(1)
head = demo[:2500]
if pkg.startswith("integration"): d = "integration"
elif pkg in ("fosite", "fosite_test"): d = "."
elif pkg in ("compose", "compose_test"): d = "compose"
elif pkg in ("storage", "storage_test"): d = "storage"
else:
    m = re.search(r"((?:handler|storage|token|compose)/[\w/]+)", head)
    d = m.group(1).rstrip("/") if m else "."
tests = "|".join(sorted(set(re.findall(r"(?m)^func (Test\w+)\(", demo))))
res = dict(property=pid, n=int(n), demo_dir=d, tests=tests)
sh("git checkout -- . && git clean -fdq")
dst = os.path.join(wt, d, "zz_seeded_demo_test.go")
shutil.copy("%s/demo%s_test.go" % (out, n), dst)
rc, o = sh("go test -vet=off -count=1 -run '%s' ./%s/" % (tests, d))
res["demo_without_patch"] = "pass" if rc == 0 else "FAIL"; res["log_without"] = o[-600:]
rc, o = sh("git apply %s/patch%s.diff" % (out, n))
res["patch_applies"] = rc == 0
rc, o = sh("go test -vet=off -count=1 -run '%s' ./%s/" % (tests, d))
res["demo_with_patch"] = "fail" if rc != 0 else "PASS"; res["log_with"] = o[-1200:]
os.remove(dst)
t0 = time.time()
rc, o = sh("go build ./... && go test -vet=off -count=1 ./...")
res["suite_with_patch"] = "pass" if rc == 0 else "FAIL"; res["suite_s"] = round(time.time() - t0)
if rc != 0: res["suite_log"] = o[-1500:]
sh("git checkout -- . && git clean -fdq")
res["confirmed"] = (res["demo_without_patch"] == "pass" and res["demo_with_patch"] == "fail" and res["suite_with_patch"] == "pass" and res["patch_applies"])
json.dump(res, open("%s/confirm%s.json" % (out, n), "w"), indent=1)
print(pid, n, "confirmed" if res["confirmed"] else "NOT CONFIRMED", res["demo_without_patch"], res["demo_with_patch"], res["suite_with_patch"])
if res["confirmed"]:
    sd = "/verif/seeded/%s-%d" % (pid, int(n) + off)
    os.makedirs(sd, exist_ok=True)
    shutil.copy("%s/patch%s.diff" % (out, n), sd + "/patch.diff")
    shutil.copy("%s/demo%s_test.go" % (out, n), sd + "/demo_test.go")
    shutil.copy("%s/notes%s.md" % (out, n), sd + "/notes.md")
    meta = dict(property=pid, source="independent sub-agent given only the property text", demo_placement=d, demo_tests=tests,
                confirmed_by="lib/confirm_mut.py in scratch worktree %s: demo passes on the unchanged tree, fails with the patch; unedited full suite passes with the patch" % wt,
                needs_to_manifest="see notes.md", detected_by=[])
    json.dump(meta, open(sd + "/meta.json", "w"), indent=1)
