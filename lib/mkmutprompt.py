#!/usr/bin/env python3
"""lib/mkmutprompt.py <base-dir> <Cxx>...: create a scratch worktree of /repo HEAD and the prompt for an independent
mutation sub-agent (it is given the property text only, plus one line per existing seeded change of that property so
that it chooses another mechanism).  Nothing from /verif is shown to it."""
import glob, json, os, re, subprocess, sys
base, ids = sys.argv[1], sys.argv[2:]
T = open(os.path.join(os.path.dirname(os.path.abspath(__file__)), "mutprompt.tmpl")).read()
props = {json.loads(l)["id"]: json.loads(l) for l in open("/verif/properties.jsonl")}
os.makedirs(base, exist_ok=True)
for pid in ids:
    p = props[pid]
    txt = "Property %s — %s\n\nStatement: %s\n\nQuantifier (%s): %s\n\nWhy the existing tests cannot settle it: %s\n\nFiles the property is anchored in: %s\n" % (
        p['id'], p['title'], p['statement'], ", ".join(p['quantifier']['over']), p['quantifier']['text'], p['why_tests_cant'], ", ".join(p['anchors']['files']))
    wt = "%s/%s" % (base, pid)
    subprocess.run(["git", "-C", "/repo", "worktree", "add", "-q", "--detach", wt, "HEAD"], check=True)
    os.makedirs(wt + "-out", exist_ok=True)
    hints = []
    for d in sorted(glob.glob("/verif/seeded/%s-*" % pid)):
        files = sorted(set(re.findall(r'^\+\+\+ b/(\S+)', open(d + "/patch.diff").read(), re.M)))
        head = open(d + "/notes.md").read().strip().split('\n')[0].lstrip('# ').strip()
        hints.append('  - %s (in %s)' % (head[:170], ', '.join(files)))
    extra = '\nAdditional rules: do NOT use `git stash` (all worktrees of this repository share one stash); use `git apply` / `git checkout -- .` instead.\n'
    if hints:
        extra += ('Several changes for this property already exist; yours must be DIFFERENT from all of them (another mechanism, another file, '
                  'another clause or another dimension of the quantifier — look at the parts of the statement and of the quantifier that the list below does not touch):\n'
                  + '\n'.join(hints) + '\n')
    s = T.replace('/tmp/mut/', base.rstrip('/') + '/').replace('@ID@', pid).replace('@TEXT@', txt)
    s = s.replace('patch@i@', 'patch<i>').replace('demo@i@', 'demo<i>').replace('notes@i@', 'notes<i>')
    s = s.replace('\nBe careful and verify everything by running it;', extra + '\nBe careful and verify everything by running it;')
    open("%s/%s.prompt" % (base, pid), "w").write(s)
    print(pid, len(hints), "existing changes listed")
