package hx

import (
	"encoding/json"
	"os"
	"strconv"
	"testing"
)

// The harness is a test binary because testing/synctest (the virtual clock) needs a *testing.T.
// Environment: HX_PROP, HX_SEED, HX_TIER (quick|thorough), HX_OUT (directory), HX_REPLAY (file with
// one replay record: run exactly that case).

type Env struct {
	Prop   string
	Seed   uint64
	Tier   string
	Out    string
	Replay json.RawMessage
}

type PropFn func(t *testing.T, e Env)

var registry = map[string]PropFn{}

func Register(id string, f PropFn) { registry[id] = f }

func TestHX(t *testing.T) {
	prop := os.Getenv("HX_PROP")
	if prop == "" {
		t.Skip("HX_PROP not set")
	}
	f, ok := registry[prop]
	if !ok {
		t.Fatalf("unknown property %q", prop)
	}
	seed, _ := strconv.ParseUint(os.Getenv("HX_SEED"), 10, 64)
	e := Env{Prop: prop, Seed: seed, Tier: os.Getenv("HX_TIER"), Out: os.Getenv("HX_OUT")}
	if e.Tier == "" {
		e.Tier = "quick"
	}
	if rp := os.Getenv("HX_REPLAY"); rp != "" {
		b, err := os.ReadFile(rp)
		if err != nil {
			t.Fatal(err)
		}
		e.Replay = b
	}
	f(t, e)
}
