package hx

// C19 — one provider and the reference store are safe under concurrent requests.
//
// Streams of cases (all evaluated inside Coq by Cases/CasesC19.v):
//   static   the lock table translated from storage/*.go of the tree under test (c19_translate.go),
//            one case per method x table accessed, method x mutex acquired, method; the reflective
//            checker of Model/Locks.v decides each (tags unguarded:/reacquire:/lockorder:/calls:)
//   pairs    every unordered pair of store methods hammered from two goroutines under the race
//            detector (child process built from harness/c19race with `go test -race`); the
//            detector's verdict is the implementation's observation, the lock model's pairwise
//            prediction the model's
//   sched    (c19_sched.go) two or three API operations on overlapping tokens executed on the real
//            provider under an explicit schedule of their storage calls
//   stress   (c19_sched.go / c19race) free-running provider under the race detector; search only

import (
	"bufio"
	"bytes"
	"encoding/json"
	"fmt"
	"os"
	"os/exec"
	"path/filepath"
	"regexp"
	"sort"
	"strings"
	"testing"
	"time"
)

type c19Replay struct {
	Kind    string `json:"kind"`           // access | acquire | calls | names | pair | sched | stress
	Type    string `json:"type,omitempty"` // static cases: store (storage.MemoryStore) | config (fosite.Config)
	Method  string `json:"method,omitempty"`
	Table   string `json:"table,omitempty"`
	Mutex   string `json:"mutex,omitempty"`
	F       string `json:"f,omitempty"`
	G       string `json:"g,omitempty"`
	Raced   bool   `json:"raced,omitempty"`
	InStore bool   `json:"in_store,omitempty"`
	Report  string `json:"race_report,omitempty"`
	// static cases carry the translated table so that a reader sees what was checked
	Methods []LMethod  `json:"lock_table,omitempty"`
	Sched   *c19Sched  `json:"sched,omitempty"`
	Stress  *c19Stress `json:"stress,omitempty"`
}

func init() { Register("C19", runC19) }

// ---------------------------------------------------------------- static cases
func c19StaticCases(tab *LockTable, tbl, typ string, only *c19Replay) []Case {
	var cs []Case
	add := func(coq string, rp c19Replay, nt bool) {
		rp.Type = typ
		if only != nil && (only.Kind != rp.Kind || only.Method != rp.Method || only.Table != rp.Table || only.Mutex != rp.Mutex || (only.Type != "" && only.Type != typ)) {
			return
		}
		key := typ + "|" + rp.Kind + "|" + rp.Method + "|" + rp.Table + "|" + rp.Mutex
		if rp.Kind == "access" || rp.Kind == "acquire" || rp.Kind == "return" {
			for _, m := range tab.Methods {
				if m.Name == rp.Method {
					rp.Methods = []LMethod{m}
				}
			}
		}
		cs = append(cs, Case{Coq: coq, Replay: rp, NonTrivial: nt, Key: key})
	}
	add("KNames "+tbl, c19Replay{Kind: "names"}, false)
	for _, m := range tab.Methods {
		seenT, seenM := map[string]bool{}, map[string]bool{}
		for _, s := range m.Body {
			if mu := s.Acq + s.Lock; mu != "" {
				if !seenM[mu] {
					seenM[mu] = true
					add(fmt.Sprintf("KAcquire %s %s %s", tbl, Q(m.Name), Q(mu)), c19Replay{Kind: "acquire", Method: m.Name, Mutex: mu}, true)
				}
				continue
			}
			for _, it := range s.Items {
				if it.Acc != "" && !seenT[it.Acc] {
					seenT[it.Acc] = true
					add(fmt.Sprintf("KAccess %s %s %s", tbl, Q(m.Name), Q(it.Acc)), c19Replay{Kind: "access", Method: m.Name, Table: it.Acc}, true)
				}
			}
		}
		add(fmt.Sprintf("KCalls %s %s", tbl, Q(m.Name)), c19Replay{Kind: "calls", Method: m.Name}, false)
		add(fmt.Sprintf("KReturn %s %s", tbl, Q(m.Name)), c19Replay{Kind: "return", Method: m.Name}, len(m.Body) > 0)
		add(fmt.Sprintf("KAtomic %s %s", tbl, Q(m.Name)), c19Replay{Kind: "atomic", Method: m.Name}, len(m.Body) > 0)
	}
	return cs
}

// what a method touches, calls expanded (for the non-triviality rule of pair cases only)
func c19Footprint(tab *LockTable) map[string]map[string]bool {
	byName := map[string]LMethod{}
	for _, m := range tab.Methods {
		byName[m.Name] = m
	}
	fp := map[string]map[string]bool{}
	var visit func(name string, into map[string]bool, depth int)
	visit = func(name string, into map[string]bool, depth int) {
		if depth > len(tab.Methods) {
			return
		}
		for _, s := range byName[name].Body {
			if s.Acq+s.Lock != "" {
				into["m:"+s.Acq+s.Lock] = true
			}
			for _, it := range s.Items {
				if it.Acc != "" {
					into["t:"+it.Acc] = true
				} else {
					visit(it.Call, into, depth+1)
				}
			}
		}
	}
	for _, m := range tab.Methods {
		fp[m.Name] = map[string]bool{}
		visit(m.Name, fp[m.Name], 0)
	}
	return fp
}

// ---------------------------------------------------------------- race detector child process
type raceReport struct {
	Text    string
	InStore bool
	Sites   []string // first non-runtime frame of each of the two stacks
}

var (
	reAccess = regexp.MustCompile(`(?i)^(previous )?(atomic )?(read|write) at 0x[0-9a-f]+ by `)
	reFrame  = regexp.MustCompile(`^  (\S+)\(\)$`)
	reLoc    = regexp.MustCompile(`^      (\S+):(\d+)`)
)

func parseRaceReport(lines []string) raceReport {
	r := raceReport{Text: strings.Join(lines, "\n")}
	inStack := false
	site, first := "", ""
	flush := func() {
		if inStack {
			if site == "" {
				site = first
			}
			r.Sites = append(r.Sites, site)
		}
		inStack, site, first = false, "", ""
	}
	for i := 0; i < len(lines); i++ {
		l := lines[i]
		if reAccess.MatchString(l) {
			flush()
			inStack = true
			continue
		}
		if strings.TrimSpace(l) == "" && inStack && first == "" {
			continue // output of the runtime interleaved with the report: blank line right after the header
		}
		if strings.TrimSpace(l) == "" || strings.HasPrefix(l, "Goroutine ") {
			flush()
			continue
		}
		if inStack && site == "" {
			if m := reFrame.FindStringSubmatch(l); m != nil {
				fn := m[1]
				if strings.HasPrefix(fn, "runtime.") || strings.HasPrefix(fn, "internal/") || strings.HasPrefix(fn, "reflect.") || strings.HasPrefix(fn, "sync.") || strings.HasPrefix(fn, "sync/") {
					continue
				}
				loc := ""
				if i+1 < len(lines) {
					if lm := reLoc.FindStringSubmatch(lines[i+1]); lm != nil {
						loc = " " + filepath.Base(lm[1]) + ":" + lm[2]
					}
				}
				if first == "" {
					first = fn + loc
				}
				// the site of an access is the innermost frame inside the library under test
				if strings.HasPrefix(fn, "github.com/ory/fosite") {
					site = fn + loc
				}
			}
		}
	}
	flush()
	r.InStore = len(r.Sites) >= 2
	for _, s := range r.Sites {
		if !strings.Contains(s, "storage.(*MemoryStore).") {
			r.InStore = false
		}
	}
	return r
}

// splitRaceOutput cuts the child's stderr into marker lines and race reports
type raceEvent struct {
	Marker string
	Report *raceReport
	Fatal  string
}

func splitRaceOutput(out []byte) []raceEvent {
	var evs []raceEvent
	sc := bufio.NewScanner(bytes.NewReader(out))
	sc.Buffer(make([]byte, 1<<20), 1<<26)
	var cur []string
	in := false
	for sc.Scan() {
		l := sc.Text()
		switch {
		case strings.HasPrefix(l, "@@"):
			evs = append(evs, raceEvent{Marker: l[2:]})
		case l == "WARNING: DATA RACE":
			in = true
			cur = []string{l}
		case l == "==================":
			if in {
				r := parseRaceReport(cur)
				evs = append(evs, raceEvent{Report: &r})
				in = false
				cur = nil
			}
		case strings.HasPrefix(l, "fatal error:") || strings.HasPrefix(l, "panic:"):
			// the runtime's message can be interleaved with a race report; normalise the one we know
			if strings.Contains(l, "concurrent map") || strings.Contains(l, "====") || strings.TrimSpace(strings.TrimPrefix(l, "fatal error:")) == "" {
				l = "fatal error: concurrent map access"
			}
			evs = append(evs, raceEvent{Fatal: l})
		default:
			if in {
				cur = append(cur, l)
			}
		}
	}
	return evs
}

func c19BuildRaceBinary(e Env) (string, error) {
	bin := filepath.Join(e.Out, "..", "bin", "c19race.test")
	if err := os.MkdirAll(filepath.Dir(bin), 0o755); err != nil {
		return "", err
	}
	cmd := exec.Command("go1.26.8", "test", "-race", "-c", "-o", bin, "./c19race")
	cmd.Env = append(os.Environ(), "CGO_ENABLED=1")
	if out, err := cmd.CombinedOutput(); err != nil {
		return "", fmt.Errorf("building the race-enabled child (go1.26.8 test -race -c ./c19race) failed: %v\n%s", err, out)
	}
	return bin, nil
}

type pairResult struct {
	Hung    bool
	F, G    string
	Raced   bool
	InStore bool
	Report  string
	Missing bool
}

// c19RunPairs runs all unordered pairs of the given methods in the child; a child that dies with a
// runtime fatal error ("concurrent map writes") is restarted after the pair that killed it
func c19RunPairs(bin string, methods, skipMethods []string, only *c19Replay, out *Out) ([]pairResult, error) {
	names := methods
	if only != nil {
		names = []string{only.F}
		if only.G != only.F {
			names = []string{only.F, only.G}
			sort.Strings(names)
		}
	}
	total := len(names) * (len(names) + 1) / 2
	res := make([]pairResult, total)
	done := 0
	for restarts := 0; done < total; restarts++ {
		if restarts > 40 {
			return nil, fmt.Errorf("race child restarted too often")
		}
		cmd := exec.Command(bin, "-test.run", "^TestPairs$", "-test.count=1", "-test.timeout=900s")
		// methods that leak a mutex when called sequentially (leak probe) would only hang here
		cmd.Env = append(os.Environ(), "C19R_METHODS="+strings.Join(names, ","), fmt.Sprintf("C19R_SKIP=%d", done), "C19R_SKIPMETHODS="+strings.Join(skipMethods, ","),
			"C19R_STAGGER_US=400", "GORACE=halt_on_error=0")
		var buf bytes.Buffer
		cmd.Stdout = &buf
		cmd.Stderr = &buf
		runErr := cmd.Run()
		cur := -1
		finished := false
		for _, ev := range splitRaceOutput(buf.Bytes()) {
			switch {
			case ev.Marker != "":
				f := strings.Fields(ev.Marker)
				if f[0] == "DONE" {
					finished = true
				}
				if f[0] == "PAIR" && len(f) == 5 {
					var i int
					fmt.Sscanf(f[1], "%d", &i)
					if i < 0 || i >= total {
						return nil, fmt.Errorf("bad marker %q", ev.Marker)
					}
					switch f[4] {
					case "BEGIN":
						cur = i
						res[i].F, res[i].G = f[2], f[3]
					case "END":
						cur = -1
						done = i + 1
					case "SKIPPED":
						res[i] = pairResult{F: f[2], G: f[3], Missing: true}
						out.Count("pair-skipped-method-leaks-a-mutex")
						done = i + 1
					case "HUNG":
						res[i].F, res[i].G = f[2], f[3]
						res[i].Hung = true
						cur = -1
						done = i + 1
					case "NOMETHOD":
						out.Count("pair-method-not-exported")
						res[i] = pairResult{F: f[2], G: f[3], Missing: true}
						done = i + 1
					}
				}
			case ev.Report != nil && cur >= 0:
				if !res[cur].Raced || (ev.Report.InStore && !res[cur].InStore) {
					res[cur].Report = ev.Report.Text
					res[cur].InStore = ev.Report.InStore
				}
				res[cur].Raced = true
			case ev.Fatal != "" && cur >= 0:
				res[cur].Raced = true
				if strings.Contains(ev.Fatal, "concurrent map") {
					res[cur].InStore = true
				}
				if res[cur].Report == "" {
					res[cur].Report = ev.Fatal
				}
				out.Count("pair-child-died")
				done = cur + 1
				cur = -1
			}
		}
		if finished {
			break
		}
		if cur >= 0 { // died inside a pair without a recognisable message
			res[cur].Raced = true
			res[cur].Report = "child process died: " + fmt.Sprint(runErr)
			done = cur + 1
		} else if runErr != nil && !finished && done >= total {
			break
		} else if runErr != nil && cur < 0 && !finished {
			tail := buf.String()
			if len(tail) > 2000 {
				tail = tail[len(tail)-2000:]
			}
			return nil, fmt.Errorf("race child failed outside a pair: %v\n%s", runErr, tail)
		}
	}
	return res, nil
}

// ---------------------------------------------------------------- output with a per-file preamble
func (o *Out) flushWithPreamble(rule, preamble string) error {
	if err := os.MkdirAll(o.Dir, 0o755); err != nil {
		return err
	}
	old, _ := filepath.Glob(filepath.Join(o.Dir, "cases_*.v"))
	for _, f := range old {
		os.Remove(f)
	}
	jl, err := os.Create(filepath.Join(o.Dir, "cases.jsonl"))
	if err != nil {
		return err
	}
	defer jl.Close()
	enc := json.NewEncoder(jl)
	shards := 0
	for start := 0; start < len(o.cases); start += o.ShardSize {
		end := start + o.ShardSize
		if end > len(o.cases) {
			end = len(o.cases)
		}
		var b strings.Builder
		fmt.Fprintf(&b, "From FositeModel Require Import %s.\n", o.Module)
		b.WriteString(preamble)
		fmt.Fprintf(&b, "Definition cases : list %s := [\n", o.CaseType)
		for i := start; i < end; i++ {
			b.WriteString("  ")
			b.WriteString(o.cases[i].Coq)
			if i+1 < end {
				b.WriteString(";")
			}
			b.WriteString("\n")
			if err := enc.Encode(o.cases[i].Replay); err != nil {
				return err
			}
		}
		b.WriteString("].\n")
		fmt.Fprintf(&b, "Definition bad := Eval vm_compute in failures %s cases.\nPrint bad.\n", o.CheckFn)
		if err := os.WriteFile(filepath.Join(o.Dir, fmt.Sprintf("cases_%04d.v", shards)), []byte(b.String()), 0o644); err != nil {
			return err
		}
		shards++
	}
	if len(o.Samples) == 0 && len(o.cases) > 0 {
		o.Samples = append(o.Samples, o.cases[0].Replay)
	}
	meta := map[string]any{
		"evaluations": len(o.cases), "distinct_nontrivial": o.nontrivial, "rule": rule, "samples": o.Samples,
		"histogram": o.Hist, "shards": shards, "shard_size": o.ShardSize, "notes": o.Notes,
	}
	mb, _ := json.MarshalIndent(meta, "", " ")
	return os.WriteFile(filepath.Join(o.Dir, "meta.json"), mb, 0o644)
}

const c19Rule = "static: one case per (method, table accessed), (method, mutex acquired), method of the lock table translated from storage/*.go; " +
	"pairs: every unordered pair of store methods run from two goroutines under the race detector; " +
	"sched: 2-3 API operations on overlapping tokens under an explicit schedule of their storage calls (exhaustive for short operations, seeded samples otherwise), " +
	"stress: free-running provider under the race detector (one case per distinct racing pair of call sites, or one clean case per configuration). " +
	"non-trivial = static access/acquire cases; pairs whose footprints (tables, mutexes; calls expanded) intersect; schedules in which the operations really interleave " +
	"(not one after the other) and touch a common record; distinct by the case key (element / pair / operations+schedule)"

func runC19(t *testing.T, e Env) {
	out := NewOut(e.Out, "Cases.CasesC19", "c19case", "check", 250)
	var only *c19Replay
	if e.Replay != nil {
		only = &c19Replay{}
		if err := json.Unmarshal(e.Replay, only); err != nil {
			t.Fatal(err)
		}
	}
	t0 := time.Now()
	// A shape outside the translator's fragment is a hard failure of the static part: no static
	// and no pair case is produced, the run cannot pass (KTranslator is a correspondence failure
	// that no known finding can match).  The dynamic streams still run, so that a failing input
	// is found where there is one.
	trErr := ""
	tab, err := TranslateLocks(repoDir())
	if err != nil {
		trErr = fmt.Sprintf("storage/*.go contains a construct the lock translator does not recognise (nothing static was checked): %v", err)
		tab = &LockTable{}
	}
	ctab, err := TranslateConfig(repoDir())
	if err != nil {
		trErr += fmt.Sprintf(" the methods of fosite.Config contain a construct the translator does not recognise: %v", err)
		ctab = &LockTable{}
	}
	if trErr != "" {
		t.Logf("C19 translator: %s", trErr)
		if only == nil {
			msg := strings.ReplaceAll(trErr, repoDir()+"/", "")
			out.Add(Case{Coq: "KTranslator " + Q(msg), Replay: c19Replay{Kind: "translator", Report: trErr}, Key: "translator"})
			out.Count("translator-hard-failure")
		}
	}
	preamble := "Definition tbl : list method :=\n " + tab.Coq() + ".\nDefinition cfgtbl : list method :=\n " + ctab.Coq() + ".\n"
	out.Notes["lock_table"] = tab
	out.Notes["translator"] = fmt.Sprintf("storage.MemoryStore: %d methods, %d mutexes, %d tables; fosite.Config: %d methods, %d fields, %d mutexes; read from %s",
		len(tab.Methods), len(tab.Mutexes), len(tab.Tables), len(ctab.Methods), len(ctab.Tables), len(ctab.Mutexes), repoDir())

	if (only == nil && trErr == "") || only != nil && (only.Kind == "access" || only.Kind == "acquire" || only.Kind == "calls" || only.Kind == "names" || only.Kind == "return") {
		for _, c := range c19StaticCases(tab, "tbl", "store", only) {
			out.Add(c)
			out.Count("static-store-" + c.Replay.(c19Replay).Kind)
		}
		for _, c := range c19StaticCases(ctab, "cfgtbl", "config", only) {
			out.Add(c)
			out.Count("static-config-" + c.Replay.(c19Replay).Kind)
		}
	}
	var leaky []string
	if only == nil || only.Kind == "leak" {
		leaky = c19LeakStream(t, e, out, only)
	}
	if (only == nil && trErr == "") || (only != nil && only.Kind == "pair") {
		bin, err := c19BuildRaceBinary(e)
		if err != nil {
			t.Fatal(err)
		}
		var names []string
		for _, m := range tab.Methods {
			names = append(names, m.Name)
		}
		res, err := c19RunPairs(bin, names, leaky, only, out)
		if err != nil {
			t.Fatal(err)
		}
		fp := c19Footprint(tab)
		for _, p := range res {
			if p.Missing {
				continue
			}
			if p.Hung {
				out.Add(Case{Coq: fmt.Sprintf("KHung %s", Q(p.F+"+"+p.G)), Replay: c19Replay{Kind: "pair", F: p.F, G: p.G, Report: "the two goroutines did not finish within the watchdog time"},
					NonTrivial: true, Key: "pairhung|" + p.F + "|" + p.G})
				out.Count("pair-hung")
				continue
			}
			nt := false
			for k := range fp[p.F] {
				if fp[p.G][k] {
					nt = true
				}
			}
			rp := c19Replay{Kind: "pair", F: p.F, G: p.G, Raced: p.Raced, InStore: p.InStore, Report: p.Report}
			out.Add(Case{Coq: fmt.Sprintf("KPair tbl %s %s %s %s", Q(p.F), Q(p.G), B(p.Raced), B(p.InStore)),
				Replay: rp, NonTrivial: nt, Key: "pair|" + p.F + "|" + p.G})
			switch {
			case p.Raced && p.InStore:
				out.Count("pair-raced-in-store")
			case p.Raced:
				out.Count("pair-raced-elsewhere")
			default:
				out.Count("pair-clean")
			}
		}
	}
	c19MoreStreams(t, e, out, only, tab)
	out.Notes["harness_wall_s"] = time.Since(t0).Seconds()
	if err := out.flushWithPreamble(c19Rule, preamble); err != nil {
		t.Fatal(err)
	}
}
