package hx

// C18: storage failures never yield tokens and never leave a half-applied grant.
//
// A storage wrapper around the unmodified *storage.MemoryStore counts the storage calls of one request,
// logs (method, result class), injects the planned fault at the k-th call and, when the flag is set,
// implements storage.Transactional (BeginTX copies the tables and returns a context that carries the
// transaction, Rollback puts the copies back, Commit drops them; a write whose context does not carry the open
// transaction is not part of it).  The provider is compose.ComposeAllEnabled over the wrapper.
//
// Driver: for every flow (code redemption without / with PKCE / with PKCE but no verifier / replayed
// code, refresh, refresh reuse, device poll, password, client_credentials, revocation with the three
// hints, foreign and unknown presentations) the request is first run fault-free in a fresh world to
// learn its storage calls, then re-run from an identical fresh world once per (call index x error
// kind) and for pairs of faults, each time followed by a fault-free retry, a replay and probes.

import (
	"context"
	"encoding/json"
	"errors"
	"fmt"
	"maps"
	"sort"
	"strings"
	"testing"
	"testing/synctest"

	"github.com/ory/fosite"
	"github.com/ory/fosite/compose"
	"github.com/ory/fosite/storage"
)

// ---------------------------------------------------------------- the storage wrapper

type callRec struct {
	M string `json:"m"`
	R string `json:"r"` // ok not_found inactive invalidated other | inj:gen inj:nf inj:inact inj:serial
}

type tableSnap struct {
	codes   map[string]storage.StoreAuthorizeCode
	ids     map[string]fosite.Requester
	access  map[string]fosite.Requester
	refresh map[string]storage.StoreRefreshToken
	device  map[string]fosite.DeviceRequester
	pkces   map[string]fosite.Requester
	atIdx   map[string]string
	rtIdx   map[string]string
	dcIdx   map[string]storage.DeviceAuthPair
	ucIdx   map[string]string
	par     map[string]fosite.AuthorizeRequester
}

type faultStore struct {
	*valueStore // the by-value adapter of the history harness over the unmodified *storage.MemoryStore
	armed bool
	n     int
	plan  map[int]string
	calls []callRec
	snap  *tableSnap
	notes []string
}

var errGeneric = errors.New("injected storage failure")

func faultErr(kind string) error {
	switch kind {
	case "nf":
		return fosite.ErrNotFound
	case "inact":
		return fosite.ErrInactiveToken
	case "serial":
		return fosite.ErrSerializationFailure
	}
	return errGeneric
}

func classOf(err error) string {
	switch {
	case err == nil:
		return "ok"
	case errors.Is(err, fosite.ErrNotFound):
		return "not_found"
	case errors.Is(err, fosite.ErrInactiveToken):
		return "inactive"
	case errors.Is(err, fosite.ErrInvalidatedAuthorizeCode):
		return "invalidated"
	}
	return "other"
}

// fault decides the fate of the next storage call: nil = perform it (and report the result with done),
// otherwise the error to return instead.  peek, for lookups, computes the store's own answer: an injected
// answer that coincides with it is no fault.
func (s *faultStore) fault(m string, peek func() error) error {
	if !s.armed {
		return nil
	}
	idx := s.n
	s.n++
	kind, ok := s.plan[idx]
	if !ok {
		return nil
	}
	if peek != nil {
		nc := classOf(peek())
		if (kind == "nf" && nc == "not_found") || (kind == "inact" && nc == "inactive") {
			return nil
		}
	}
	s.calls = append(s.calls, callRec{m, "inj:" + kind})
	return faultErr(kind)
}

// write performs a mutating storage call.  The transaction lives in the context (storage/transactional.go: BeginTX
// returns the context to propagate): a write made while a transaction is open, with a context that does not carry
// it, is outside the transaction - it lands in the image a rollback restores as well.
type txKey struct{}

func (s *faultStore) write(ctx context.Context, m string, f func() error) error {
	if s.snap != nil && ctx.Value(txKey{}) == nil {
		live := s.takeSnap()
		s.restore(s.snap)
		_ = f()
		s.snap = s.takeSnap()
		s.restore(live)
		s.notes = append(s.notes, "write outside the open transaction: "+m)
	}
	return f()
}

func (s *faultStore) done(m string, err error) {
	if s.armed {
		s.calls = append(s.calls, callRec{m, classOf(err)})
	}
}

func (s *faultStore) GetAuthorizeCodeSession(ctx context.Context, code string, sess fosite.Session) (fosite.Requester, error) {
	if f := s.fault("GetCode", func() error { _, e := s.valueStore.GetAuthorizeCodeSession(ctx, code, sess); return e }); f != nil {
		return nil, f
	}
	r, err := s.valueStore.GetAuthorizeCodeSession(ctx, code, sess)
	s.done("GetCode", err)
	return r, err
}

func (s *faultStore) InvalidateAuthorizeCodeSession(ctx context.Context, code string) error {
	if f := s.fault("InvalidateCode", nil); f != nil {
		return f
	}
	err := s.write(ctx, "InvalidateAuthorizeCodeSession", func() error { return s.valueStore.InvalidateAuthorizeCodeSession(ctx, code) })
	s.done("InvalidateCode", err)
	return err
}

func (s *faultStore) GetPKCERequestSession(ctx context.Context, sig string, sess fosite.Session) (fosite.Requester, error) {
	if f := s.fault("GetPkce", func() error { _, e := s.valueStore.GetPKCERequestSession(ctx, sig, sess); return e }); f != nil {
		return nil, f
	}
	r, err := s.valueStore.GetPKCERequestSession(ctx, sig, sess)
	s.done("GetPkce", err)
	return r, err
}

func (s *faultStore) DeletePKCERequestSession(ctx context.Context, sig string) error {
	if f := s.fault("DeletePkce", nil); f != nil {
		return f
	}
	err := s.write(ctx, "DeletePKCERequestSession", func() error { return s.valueStore.DeletePKCERequestSession(ctx, sig) })
	s.done("DeletePkce", err)
	return err
}

func (s *faultStore) CreateAccessTokenSession(ctx context.Context, sig string, req fosite.Requester) error {
	if f := s.fault("CreateAT", nil); f != nil {
		return f
	}
	err := s.write(ctx, "CreateAccessTokenSession", func() error { return s.valueStore.CreateAccessTokenSession(ctx, sig, req) })
	s.done("CreateAT", err)
	return err
}

func (s *faultStore) GetAccessTokenSession(ctx context.Context, sig string, sess fosite.Session) (fosite.Requester, error) {
	if f := s.fault("GetAT", func() error { _, e := s.valueStore.GetAccessTokenSession(ctx, sig, sess); return e }); f != nil {
		return nil, f
	}
	r, err := s.valueStore.GetAccessTokenSession(ctx, sig, sess)
	s.done("GetAT", err)
	return r, err
}

func (s *faultStore) CreateRefreshTokenSession(ctx context.Context, sig, atSig string, req fosite.Requester) error {
	if f := s.fault("CreateRT", nil); f != nil {
		return f
	}
	err := s.write(ctx, "CreateRefreshTokenSession", func() error { return s.valueStore.CreateRefreshTokenSession(ctx, sig, atSig, req) })
	s.done("CreateRT", err)
	return err
}

func (s *faultStore) GetRefreshTokenSession(ctx context.Context, sig string, sess fosite.Session) (fosite.Requester, error) {
	if f := s.fault("GetRT", func() error { _, e := s.valueStore.GetRefreshTokenSession(ctx, sig, sess); return e }); f != nil {
		if errors.Is(f, fosite.ErrInactiveToken) {
			// the storage contract: ErrInactiveToken comes with the request
			r, _ := s.valueStore.GetRefreshTokenSession(ctx, sig, sess)
			return r, f
		}
		return nil, f
	}
	r, err := s.valueStore.GetRefreshTokenSession(ctx, sig, sess)
	s.done("GetRT", err)
	return r, err
}

func (s *faultStore) DeleteRefreshTokenSession(ctx context.Context, sig string) error {
	if f := s.fault("DeleteRT", nil); f != nil {
		return f
	}
	err := s.write(ctx, "DeleteRefreshTokenSession", func() error { return s.valueStore.DeleteRefreshTokenSession(ctx, sig) })
	s.done("DeleteRT", err)
	return err
}

func (s *faultStore) RevokeRefreshToken(ctx context.Context, id string) error {
	if f := s.fault("RevokeRT", nil); f != nil {
		return f
	}
	err := s.write(ctx, "RevokeRefreshToken", func() error { return s.valueStore.RevokeRefreshToken(ctx, id) })
	s.done("RevokeRT", err)
	return err
}

func (s *faultStore) RevokeAccessToken(ctx context.Context, id string) error {
	if f := s.fault("RevokeAT", nil); f != nil {
		return f
	}
	err := s.write(ctx, "RevokeAccessToken", func() error { return s.valueStore.RevokeAccessToken(ctx, id) })
	s.done("RevokeAT", err)
	return err
}

func (s *faultStore) RotateRefreshToken(ctx context.Context, id string, sig string) error {
	if f := s.fault("RotateRT", nil); f != nil {
		return f
	}
	err := s.write(ctx, "RotateRefreshToken", func() error { return s.valueStore.RotateRefreshToken(ctx, id, sig) })
	s.done("RotateRT", err)
	return err
}

func (s *faultStore) GetDeviceCodeSession(ctx context.Context, sig string, sess fosite.Session) (fosite.DeviceRequester, error) {
	if f := s.fault("GetDevice", func() error { _, e := s.valueStore.GetDeviceCodeSession(ctx, sig, sess); return e }); f != nil {
		return nil, f
	}
	r, err := s.valueStore.GetDeviceCodeSession(ctx, sig, sess)
	s.done("GetDevice", err)
	return r, err
}

func (s *faultStore) InvalidateDeviceCodeSession(ctx context.Context, sig string) error {
	if f := s.fault("InvalidateDevice", nil); f != nil {
		return f
	}
	err := s.write(ctx, "InvalidateDeviceCodeSession", func() error { return s.valueStore.InvalidateDeviceCodeSession(ctx, sig) })
	s.done("InvalidateDevice", err)
	return err
}

func (s *faultStore) GetOpenIDConnectSession(ctx context.Context, code string, req fosite.Requester) (fosite.Requester, error) {
	if f := s.fault("GetOidc", func() error { _, e := s.valueStore.GetOpenIDConnectSession(ctx, code, req); return e }); f != nil {
		return nil, f
	}
	r, err := s.valueStore.GetOpenIDConnectSession(ctx, code, req)
	s.done("GetOidc", err)
	return r, err
}

func (s *faultStore) DeleteOpenIDConnectSession(ctx context.Context, code string) error {
	if f := s.fault("DeleteOidc", nil); f != nil {
		return f
	}
	err := s.write(ctx, "DeleteOpenIDConnectSession", func() error { return s.valueStore.DeleteOpenIDConnectSession(ctx, code) })
	s.done("DeleteOidc", err)
	return err
}

func (s *faultStore) Authenticate(ctx context.Context, name, secret string) (string, error) {
	if f := s.fault("Authenticate", func() error { _, e := s.valueStore.Authenticate(ctx, name, secret); return e }); f != nil {
		return "", f
	}
	sub, err := s.valueStore.Authenticate(ctx, name, secret)
	s.done("Authenticate", err)
	return sub, err
}

func (s *faultStore) DeleteAccessTokenSession(ctx context.Context, sig string) error {
	if f := s.fault("DeleteAT", nil); f != nil {
		return f
	}
	err := s.write(ctx, "DeleteAccessTokenSession", func() error { return s.valueStore.DeleteAccessTokenSession(ctx, sig) })
	s.done("DeleteAT", err)
	return err
}

// the transactional variant: the same store plus storage.Transactional
type txFaultStore struct{ *faultStore }

func (s *faultStore) takeSnap() *tableSnap {
	m := s.MemoryStore
	return &tableSnap{codes: maps.Clone(m.AuthorizeCodes), ids: maps.Clone(m.IDSessions), access: maps.Clone(m.AccessTokens),
		refresh: maps.Clone(m.RefreshTokens), device: maps.Clone(m.DeviceAuths), pkces: maps.Clone(m.PKCES),
		atIdx: maps.Clone(m.AccessTokenRequestIDs), rtIdx: maps.Clone(m.RefreshTokenRequestIDs),
		dcIdx: maps.Clone(m.DeviceCodesRequestIDs), ucIdx: maps.Clone(m.UserCodesRequestIDs), par: maps.Clone(m.PARSessions)}
}

func (s *faultStore) restore(t *tableSnap) {
	m := s.MemoryStore
	m.AuthorizeCodes, m.IDSessions, m.AccessTokens, m.RefreshTokens, m.DeviceAuths, m.PKCES = t.codes, t.ids, t.access, t.refresh, t.device, t.pkces
	m.AccessTokenRequestIDs, m.RefreshTokenRequestIDs, m.DeviceCodesRequestIDs, m.UserCodesRequestIDs, m.PARSessions = t.atIdx, t.rtIdx, t.dcIdx, t.ucIdx, t.par
}

func (s *txFaultStore) BeginTX(ctx context.Context) (context.Context, error) {
	if f := s.fault("Begin", nil); f != nil {
		return ctx, f
	}
	if s.snap != nil {
		s.notes = append(s.notes, "nested BeginTX")
	}
	s.snap = s.takeSnap()
	s.done("Begin", nil)
	return context.WithValue(ctx, txKey{}, true), nil
}

func (s *txFaultStore) Commit(ctx context.Context) error {
	if f := s.fault("Commit", nil); f != nil {
		return f // the transaction stays open
	}
	s.snap = nil
	s.done("Commit", nil)
	return nil
}

func (s *txFaultStore) Rollback(ctx context.Context) error {
	if f := s.fault("Rollback", nil); f != nil {
		s.snap = nil // a failed rollback: what was written stays
		return f
	}
	if s.snap != nil {
		s.restore(s.snap)
	}
	s.snap = nil
	s.done("Rollback", nil)
	return nil
}

var _ storage.Transactional = (*txFaultStore)(nil)

// ---------------------------------------------------------------- worlds, flows, cases

type planEntry struct {
	At   int    `json:"at"`
	Kind string `json:"kind"`
}

type fDry struct {
	Obs    HObs  `json:"obs"`
	NCalls int   `json:"ncalls"`
	D1     fDig  `json:"tables_after"`
	Calls  []callRec `json:"calls"`
}

type fDig struct {
	Status []int `json:"status"`
	Counts []int `json:"counts"`
}

type fImpl struct {
	Obs    HObs      `json:"obs"`
	Calls  []callRec `json:"calls"`
	D0     fDig      `json:"tables_before"`
	D1     fDig      `json:"tables_after"`
	Retry  HObs      `json:"retry"`
	Replay HObs      `json:"replay"`
	D3     fDig      `json:"tables_end"`
	Probes []bool    `json:"probes"`
	Notes  []string  `json:"notes,omitempty"`
}

type fCaseRec struct {
	Flow    string      `json:"flow"`
	Cfg     HConfig     `json:"config"`
	Clients []HClient   `json:"clients"`
	Setup   []HOp       `json:"setup"`
	Op      HOp         `json:"op"`
	Tx      bool        `json:"transactional"`
	Plan    []planEntry `json:"plan"`
	Dry     *fDry       `json:"fault_free,omitempty"`
	Impl    *fImpl      `json:"observed,omitempty"`
}

type fworld struct {
	*world
	fs *faultStore
}

func newFaultWorld(t *testing.T, c *fCaseRec) *fworld {
	h := &HHistory{Cfg: c.Cfg, Clients: c.Clients}
	w := newWorld(t, h)
	fs := &faultStore{valueStore: &valueStore{w.store}}
	var st interface{} = fs
	if c.Tx {
		st = &txFaultStore{fs}
	}
	// compose appends handlers to the shared config and ignores a handler type that is already present:
	// drop the handlers newWorld composed over the bare store
	w.conf.AuthorizeEndpointHandlers, w.conf.TokenEndpointHandlers, w.conf.TokenIntrospectionHandlers = nil, nil, nil
	w.conf.RevocationHandlers, w.conf.PushedAuthorizeEndpointHandlers, w.conf.DeviceEndpointHandlers = nil, nil, nil
	w.prov = compose.ComposeAllEnabled(w.conf, st, theKey())
	return &fworld{world: w, fs: fs}
}

func (w *fworld) execSafe(op *HOp) (o HObs) {
	defer func() {
		if r := recover(); r != nil {
			o = HObs{Err: "PANIC", Minted: []string{}, Scopes: []string{}}
			w.fs.notes = append(w.fs.notes, fmt.Sprint("panic: ", r))
		}
	}()
	return w.exec(op)
}

func (w *fworld) digest() fDig {
	ctx := context.Background()
	core := compose.NewOAuth2HMACStrategy(w.conf)
	dev := compose.NewDeviceStrategy(w.conf)
	m := w.store
	d := fDig{Status: []int{}, Counts: []int{len(m.AuthorizeCodes), len(m.AccessTokens), len(m.RefreshTokens), len(m.PKCES),
		len(m.AccessTokenRequestIDs), len(m.RefreshTokenRequestIDs)}}
	for _, it := range w.issued {
		st := 3
		switch it.kind {
		case "code":
			_, err := m.GetAuthorizeCodeSession(ctx, core.AuthorizeCodeSignature(ctx, it.tok), nil)
			st = map[string]int{"ok": 1, "invalidated": 2, "not_found": 0}[classOf(err)]
		case "access":
			_, err := m.GetAccessTokenSession(ctx, core.AccessTokenSignature(ctx, it.tok), nil)
			st = map[string]int{"ok": 1, "not_found": 0}[classOf(err)]
		case "refresh":
			_, err := m.GetRefreshTokenSession(ctx, core.RefreshTokenSignature(ctx, it.tok), nil)
			st = map[string]int{"ok": 1, "inactive": 2, "not_found": 0}[classOf(err)]
		case "device":
			sig, _ := dev.DeviceCodeSignature(ctx, it.tok)
			_, err := m.GetDeviceCodeSession(ctx, sig, nil)
			st = map[string]int{"ok": 1, "not_found": 0}[classOf(err)]
		}
		d.Status = append(d.Status, st)
	}
	return d
}

// run the request of the case under its plan in a fresh world (plan == nil: the fault-free run)
func runFaultCase(t *testing.T, c *fCaseRec) {
	// fault-free run
	{
		w := newFaultWorld(t, c)
		for i := range c.Setup {
			w.execSafe(&c.Setup[i])
		}
		w.fs.armed, w.fs.n, w.fs.plan, w.fs.calls = true, 0, nil, nil
		o := w.execSafe(&c.Op)
		w.fs.armed = false
		c.Dry = &fDry{Obs: o, NCalls: len(w.fs.calls), D1: w.digest(), Calls: w.fs.calls}
	}
	w := newFaultWorld(t, c)
	for i := range c.Setup {
		w.execSafe(&c.Setup[i])
	}
	im := &fImpl{D0: w.digest()}
	plan := map[int]string{}
	for _, p := range c.Plan {
		plan[p.At] = p.Kind
	}
	w.fs.armed, w.fs.n, w.fs.plan, w.fs.calls = true, 0, plan, nil
	im.Obs = w.execSafe(&c.Op)
	w.fs.armed = false
	im.Calls = w.fs.calls
	if im.Calls == nil {
		im.Calls = []callRec{}
	}
	im.D1 = w.digest()
	im.Retry = w.execSafe(&c.Op)
	im.Replay = w.execSafe(&c.Op)
	im.D3 = w.digest()
	for _, p := range w.probe() {
		im.Probes = append(im.Probes, p != nil)
	}
	if im.Probes == nil {
		im.Probes = []bool{}
	}
	im.Notes = w.fs.notes
	c.Impl = im
}

// ---------------------------------------------------------------- Coq printers
var coqMeth = map[string]string{"GetCode": "MGetCode", "GetPkce": "MGetPkce", "InvalidateCode": "MInvalidateCode", "CreateAT": "MCreateAT",
	"CreateRT": "MCreateRT", "GetOidc": "MGetOidc", "DeletePkce": "MDeletePkce", "GetRT": "MGetRT", "GetAT": "MGetAT", "DeleteRT": "MDeleteRT",
	"RevokeRT": "MRevokeRT", "RevokeAT": "MRevokeAT", "RotateRT": "MRotateRT", "GetDevice": "MGetDevice", "InvalidateDevice": "MInvalidateDevice",
	"Authenticate": "MAuthenticate", "Begin": "MBegin", "Commit": "MCommit", "Rollback": "MRollback"}
var coqClass = map[string]string{"ok": "ROk", "not_found": "RNotFound", "inactive": "RInactive", "invalidated": "RInvalidated",
	"inj:gen": "RInj FGen", "inj:nf": "RInj FNotFound", "inj:inact": "RInj FInactive", "inj:serial": "RInj FSerial"}
var coqFault = map[string]string{"gen": "FGen", "nf": "FNotFound", "inact": "FInactive", "serial": "FSerial"}

func coqCalls(l []callRec) (string, bool) {
	p := make([]string, len(l))
	ok := true
	for i, c := range l {
		m, ok1 := coqMeth[c.M]
		r, ok2 := coqClass[c.R]
		if !ok1 || !ok2 {
			// a call or an answer the model has no name for: printed as a call that can never match
			ok = false
			m, r = "MGetOidc", "RInvalidated"
		}
		p[i] = "(" + m + "," + r + ")"
	}
	return "[" + strings.Join(p, ";") + "]", ok
}

func coqNats(l []int) string {
	p := make([]string, len(l))
	for i, n := range l {
		p[i] = fmt.Sprint(n)
	}
	return "[" + strings.Join(p, ";") + "]"
}
func coqDig(d fDig) string { return "(" + coqNats(d.Status) + "," + coqNats(d.Counts) + ")" }
func coqBools(l []bool) string {
	p := make([]string, len(l))
	for i, b := range l {
		p[i] = B(b)
	}
	return "[" + strings.Join(p, ";") + "]"
}

func coqFCase(c *fCaseRec) string {
	cl := make([]string, len(c.Clients))
	for i := range c.Clients {
		cl[i] = coqClient(&c.Clients[i])
	}
	su := make([]string, len(c.Setup))
	for i := range c.Setup {
		su[i] = coqOp(&c.Setup[i])
	}
	pl := make([]string, len(c.Plan))
	for i, p := range c.Plan {
		pl[i] = fmt.Sprintf("(%d,%s)", p.At, coqFault[p.Kind])
	}
	calls, _ := coqCalls(c.Impl.Calls)
	return fmt.Sprintf("FCase %s %s\n   %s\n   (%s) %s %s\n   (FD %s %d %s)\n   (FI %s %s %s %s %s %s %s %s)",
		coqCfg(&c.Cfg), L(cl), L(su), coqOp(&c.Op), B(c.Tx), L(pl),
		coqObs(&c.Dry.Obs), c.Dry.NCalls, coqDig(c.Dry.D1),
		coqObs(&c.Impl.Obs), calls, coqDig(c.Impl.D0), coqDig(c.Impl.D1), coqObs(&c.Impl.Retry), coqObs(&c.Impl.Replay),
		coqDig(c.Impl.D3), coqBools(c.Impl.Probes))
}

// ---------------------------------------------------------------- flows
type fflow struct {
	name  string
	setup []HOp
	op    HOp
}

const devGrant = "urn:ietf:params:oauth:grant-type:device_code"

func c18World(r *RNG) (HConfig, []HClient) {
	cfg := HConfig{Scope: Pick(r, []string{"wildcard", "exact"}), LifeCode: 600000, LifeAT: 3600000, LifeRT: 86400000,
		PkcePlain: true, IntrospectRT: true, LifeDev: 600000, ParLife: 300000}
	switch r.Intn(3) {
	case 0:
		cfg.RefreshScopes = []string{}
	case 1:
		cfg.RefreshScopes = []string{"offline"}
	default:
		cfg.RefreshScopes = []string{"offline", "offline_access"}
	}
	if r.Chance(30) {
		cfg.LifeRT = -1
	}
	cfg.PkceEnforcePublic = r.Chance(30)
	cfg.PkceEnforce = r.Chance(15)
	all := []string{"authorization_code", "refresh_token", "password", "client_credentials", devGrant}
	scopes := []string{"offline", "photos", "rt"}
	cls := []HClient{
		{Public: false, Grants: all, Scopes: scopes, Aud: []string{"https://api.example.com/v1"}},
		{Public: r.Chance(40), Grants: all, Scopes: scopes, Aud: []string{"https://api.example.com/v1"}},
	}
	// per-client token lifespans (client_with_custom_token_lifespans.go) for some clients
	for i := range cls {
		if r.Chance(50) {
			m := map[string]int64{}
			for _, k := range lifeKeys {
				if r.Chance(50) {
					m[k] = Pick(r, []int64{120000, 1800000, 7200000, 90000})
					if strings.HasSuffix(k, "_rt") && r.Chance(15) {
						m[k] = -1
					}
				}
			}
			cls[i].Life = m
		}
	}
	if r.Chance(35) {
		// a client that may not refresh: no refresh token is issued to it
		cls[1].Grants = []string{"authorization_code", "password", devGrant}
	}
	return cfg, cls
}

func c18Verifier(r *RNG) string {
	alphabet := "abcdefghijklmnopqrstuvwxyzABCDEFGHIJKLMNOPQRSTUVWXYZ0123456789-._~"
	b := make([]byte, 43+r.Intn(20))
	for j := range b {
		b[j] = alphabet[r.Intn(len(alphabet))]
	}
	return string(b)
}

func c18Flows(r *RNG, cfg *HConfig, cls []HClient) []fflow {
	c := r.Intn(len(cls)) // the client of the grant
	other := (c + 1) % len(cls)
	sc := []string{"photos"}
	if r.Chance(75) {
		sc = []string{"offline", "photos"}
	}
	authz := func(ch, meth string) HOp {
		return HOp{Kind: "authorize", Client: c, Scopes: sc, Granted: sc, Subject: "peter", Challenge: ch, Method: meth,
			Redirect: Pick(r, []string{"", clientRedirect(c)})}
	}
	a0 := authz("", "")
	redeem := func(a *HOp, auth int, verifier string) HOp {
		return HOp{Kind: "redeem", Auth: auth, Tok: HTok{Ref: 0}, Redirect: a.Redirect, Verifier: verifier}
	}
	v := c18Verifier(r)
	ap := authz(s256(v), "S256")
	var fl []fflow
	add := func(name string, setup []HOp, op HOp) { fl = append(fl, fflow{name, setup, op}) }
	add("code", []HOp{a0}, redeem(&a0, c, ""))
	add("code_pkce", []HOp{ap}, redeem(&ap, c, v))
	add("code_pkce_no_verifier", []HOp{ap}, redeem(&ap, c, ""))
	add("code_replay", []HOp{a0, redeem(&a0, c, "")}, redeem(&a0, c, ""))
	add("code_foreign_client", []HOp{a0}, redeem(&a0, other, ""))
	add("code_unknown", []HOp{}, HOp{Kind: "redeem", Auth: c, Tok: HTok{Ref: -1}})
	// tokens of the code grant: issued[1] = access, issued[2] = refresh (when one is issued)
	tokSetup := []HOp{a0, redeem(&a0, c, "")}
	add("refresh", tokSetup, HOp{Kind: "refresh", Auth: c, Tok: HTok{Ref: 2}})
	add("refresh_reuse", append(append([]HOp{}, tokSetup...), HOp{Kind: "refresh", Auth: c, Tok: HTok{Ref: 2}}), HOp{Kind: "refresh", Auth: c, Tok: HTok{Ref: 2}})
	add("refresh_foreign_client", tokSetup, HOp{Kind: "refresh", Auth: other, Tok: HTok{Ref: 2}})
	add("refresh_unknown", tokSetup, HOp{Kind: "refresh", Auth: c, Tok: HTok{Ref: -1}})
	for _, hint := range []string{"access_token", "refresh_token", "other"} {
		add("revoke_access_hint_"+hint, tokSetup, HOp{Kind: "revoke", Auth: c, Tok: HTok{Ref: 1}, Hint: hint})
		add("revoke_refresh_hint_"+hint, tokSetup, HOp{Kind: "revoke", Auth: c, Tok: HTok{Ref: 2}, Hint: hint})
	}
	add("revoke_foreign_client", tokSetup, HOp{Kind: "revoke", Auth: other, Tok: HTok{Ref: 1}, Hint: "access_token"})
	add("revoke_unknown", tokSetup, HOp{Kind: "revoke", Auth: c, Tok: HTok{Ref: -1}, Hint: Pick(r, []string{"access_token", "refresh_token", "other"})})
	add("revoke_after_refresh", append(append([]HOp{}, tokSetup...), HOp{Kind: "refresh", Auth: c, Tok: HTok{Ref: 2}}), HOp{Kind: "revoke", Auth: c, Tok: HTok{Ref: 2}, Hint: "refresh_token"})
	da := HOp{Kind: "device_auth", Auth: c, BodyClient: c, Scopes: sc}
	add("device", []HOp{da, {Kind: "decide", Tok: HTok{Ref: 0}, Accept: true, Granted: sc, Subject: "peter"}}, HOp{Kind: "device_poll", Auth: c, Tok: HTok{Ref: 0}})
	add("device_pending", []HOp{da}, HOp{Kind: "device_poll", Auth: c, Tok: HTok{Ref: 0}})
	add("password", []HOp{}, HOp{Kind: "password", Auth: c, CredsOK: true, Scopes: sc, Granted: sc})
	add("password_wrong", []HOp{}, HOp{Kind: "password", Auth: c, CredsOK: false, Scopes: sc, Granted: sc})
	add("client_credentials", []HOp{}, HOp{Kind: "clientcreds", Auth: 0, Scopes: []string{"photos"}, Granted: []string{"photos"}})
	return fl
}

var faultKinds = []string{"gen", "nf", "inact", "serial"}

func planKey(p []planEntry) string {
	s := make([]string, len(p))
	for i, e := range p {
		s[i] = fmt.Sprintf("%d:%s", e.At, e.Kind)
	}
	return strings.Join(s, ",")
}

func hasInj(l []callRec) bool {
	for _, c := range l {
		if strings.HasPrefix(c.R, "inj:") {
			return true
		}
	}
	return false
}

func init() {
	Register("C18", func(t *testing.T, e Env) {
		out := NewOut(e.Out, "Cases.CasesC18", "fcase", "check", 60)
		emit := func(c *fCaseRec, world int) {
			runFaultCase(t, c)
			if _, ok := coqCalls(c.Impl.Calls); !ok {
				out.Count("unmodelled-storage-call")
			}
			out.Count("flow:" + c.Flow)
			out.Count(fmt.Sprintf("tx:%v", c.Tx))
			out.Count(fmt.Sprintf("faults:%d", len(c.Plan)))
			for _, p := range c.Plan {
				out.Count("kind:" + p.Kind)
			}
			if c.Impl.Obs.Err == "" {
				out.Count("outcome:ok")
			} else {
				out.Count("outcome:" + c.Impl.Obs.Err)
			}
			for _, cr := range c.Impl.Calls {
				if strings.HasPrefix(cr.R, "inj:") {
					out.Count("injected-at:" + cr.M)
				}
				if cr.M == "Rollback" {
					out.Count("rollbacks")
				}
			}
			out.Add(Case{Coq: coqFCase(c), Replay: c, NonTrivial: hasInj(c.Impl.Calls),
				Key: fmt.Sprintf("%d/%s/%v/%s", world, c.Flow, c.Tx, planKey(c.Plan))})
		}
		if e.Replay != nil {
			var c fCaseRec
			if err := json.Unmarshal(e.Replay, &c); err != nil {
				t.Fatal(err)
			}
			synctest.Test(t, func(t *testing.T) { emit(&c, 0) })
			out.Notes["replay_observed"] = c.Impl
			if err := out.Flush("replay"); err != nil {
				t.Fatal(err)
			}
			return
		}
		worlds, pairCap := 2, 14
		if e.Tier == "thorough" {
			worlds, pairCap = 10, 200
		}
		r := NewRNG(e.Seed)
		synctest.Test(t, func(t *testing.T) {
			for wi := 0; wi < worlds; wi++ {
				cfg, cls := c18World(r.Fork())
				flows := c18Flows(r.Fork(), &cfg, cls)
				pr := r.Fork()
				for _, fl := range flows {
					for _, tx := range []bool{false, true} {
						mk := func(plan []planEntry) *fCaseRec {
							return &fCaseRec{Flow: fl.name, Cfg: cfg, Clients: cls, Setup: fl.setup, Op: fl.op, Tx: tx, Plan: plan}
						}
						base := mk([]planEntry{})
						emit(base, wi)
						n0 := base.Dry.NCalls
						// every single fault; remember how long each faulted run got
						type single struct {
							at    int
							kind  string
							calls []callRec
						}
						var singles []single
						for at := 0; at < n0; at++ {
							for _, k := range faultKinds {
								c := mk([]planEntry{{at, k}})
								emit(c, wi)
								singles = append(singles, single{at, k, c.Impl.Calls})
							}
						}
						// pairs: a second fault at a later call of the run the first fault produced.  Always: the
						// rollback fails; the commit fails and then the rollback fails.  Plus sampled pairs.
						var pairs [][]planEntry
						for _, s := range singles {
							for j := s.at + 1; j < len(s.calls); j++ {
								for _, k2 := range faultKinds {
									pairs = append(pairs, []planEntry{{s.at, s.kind}, {j, k2}})
								}
							}
							// the call that follows the last logged one (a rollback or a retry path may start there)
						}
						chosen := map[int]bool{}
						for i, p := range pairs {
							// targeted: second fault hits a Rollback or Commit of the first run
							var s *single
							for k := range singles {
								if singles[k].at == p[0].At && singles[k].kind == p[0].Kind {
									s = &singles[k]
								}
							}
							if s != nil && p[1].At < len(s.calls) && (s.calls[p[1].At].M == "Rollback" || s.calls[p[1].At].M == "Commit") && (p[1].Kind == "gen" || p[1].Kind == "serial") && (p[0].Kind == "gen" || p[0].Kind == "serial" || p[0].Kind == "inact") {
								chosen[i] = true
							}
						}
						if e.Tier == "thorough" && wi == 0 {
							// the first world of the thorough tier takes every pair
							for i := range pairs {
								chosen[i] = true
							}
						}
						for n := 0; n < pairCap && len(pairs) > 0; n++ {
							chosen[pr.Intn(len(pairs))] = true
						}
						idx := make([]int, 0, len(chosen))
						for i := range chosen {
							idx = append(idx, i)
						}
						sort.Ints(idx)
						for _, i := range idx {
							emit(mk(pairs[i]), wi)
						}
					}
				}
			}
		})
		out.Notes["worlds"] = worlds
		if err := out.Flush("one case = one request (code redemption with/without PKCE, replayed code, refresh, refresh reuse, device poll, password, client_credentials, revocation by hint, foreign/unknown presentations) executed on compose.ComposeAllEnabled over a fault-injecting wrapper of storage.MemoryStore, plain and transactional, under one fault plan: every storage call index of the fault-free run x {generic, not-found, inactive, serialization}, plus pairs of faults (always: a failing rollback / commit after a first fault; sampled others; every pair in the first world of the thorough tier), followed by retry, replay and probes; distinct by world, flow, store kind and plan; non-trivial = a planned fault was actually injected (changed the answer of an executed storage call)"); err != nil {
			t.Fatal(err)
		}
	})
}
