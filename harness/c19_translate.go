package hx

// Translator for C19: reads the reference store (package storage of the repository under test)
// with go/parser and summarises every method of *MemoryStore as the data type of
// coq/Model/Locks.v:
//
//	SAcq m R/W   the top-level pair  recv.m.RLock()/Lock(); defer recv.m.RUnlock()/Unlock()
//	SLock m R/W  a top-level recv.m.RLock()/Lock() without defer; SUnlock m  a top-level explicit
//	             recv.m.RUnlock()/Unlock(); SRet  after every top-level statement that contains a
//	             return (or panic): the method may leave here, only deferred unlocks run
//	SItems [...] for every other top-level statement, flow-insensitively, the accesses to fields
//	             of the store (IAcc field R/W) and the calls to other methods of the store (ICall f)
//	             that occur anywhere inside it
//
// Everything the translator does not recognise is an error (never a silent skip): mutex
// operations below the top level of the method (inside if/for/...), a deferred unlock that does not
// directly follow its lock, defer/go statements elsewhere, closures, the receiver or one of its fields escaping (passed to a
// function, assigned, address taken), a shadowed receiver, unknown AST nodes.
//
// Fields: every field of struct MemoryStore of type sync.RWMutex / sync.Mutex is a mutex; every
// other field is a "table" (maps in the current source) whose accesses must be guarded.

import (
	"fmt"
	"go/ast"
	"go/parser"
	"go/token"
	"os"
	"path/filepath"
	"sort"
	"strings"
)

type LItem struct {
	Acc  string `json:"acc,omitempty"`  // table name
	Mode string `json:"mode,omitempty"` // R | W
	Call string `json:"call,omitempty"` // callee
}

type LStmt struct {
	Acq    string  `json:"acq,omitempty"`    // Lock/RLock followed by defer Unlock/RUnlock
	Lock   string  `json:"lock,omitempty"`   // Lock/RLock at the top level without defer
	Unlock string  `json:"unlock,omitempty"` // explicit Unlock/RUnlock at the top level
	Ret    bool    `json:"ret,omitempty"`    // the method may return here
	Mode   string  `json:"mode,omitempty"`
	Items  []LItem `json:"items,omitempty"`
}

type LMethod struct {
	Name string  `json:"name"`
	Body []LStmt `json:"body"`
	Pos  string  `json:"pos"`
}

type LockTable struct {
	Mutexes []string  `json:"mutexes"`
	Tables  []string  `json:"tables"`
	Methods []LMethod `json:"methods"`
}

type lockTr struct {
	fset    *token.FileSet
	mutexes map[string]bool
	tables  map[string]bool
	maps    map[string]bool // tables of map type: may not be aliased
	methods map[string]bool
	escapes bool   // the receiver may be used as a value (fosite.Config is handed around by design)
	prefix  string // prepended to method names in the output ("" for the store, "Config." for fosite.Config)
	recv    string
	items   []LItem
	err     error
	where   string
}

func (tr *lockTr) fail(n ast.Node, format string, a ...any) {
	if tr.err == nil {
		tr.err = fmt.Errorf("%s: %s: %s", tr.fset.Position(n.Pos()), tr.where, fmt.Sprintf(format, a...))
	}
}

func (tr *lockTr) add(it LItem) {
	for _, x := range tr.items {
		if x == it {
			return
		}
	}
	tr.items = append(tr.items, it)
}

// recvField returns the field name when e is `recv.Field`
func (tr *lockTr) recvField(e ast.Expr) (string, bool) {
	se, ok := e.(*ast.SelectorExpr)
	if !ok {
		return "", false
	}
	id, ok := se.X.(*ast.Ident)
	if !ok || id.Name != tr.recv || tr.recv == "" {
		return "", false
	}
	return se.Sel.Name, true
}

// mutexCall recognises recv.m.Op()
func (tr *lockTr) mutexCall(e ast.Expr) (m, op string, ok bool) {
	ce, isCall := e.(*ast.CallExpr)
	if !isCall || len(ce.Args) != 0 {
		return "", "", false
	}
	se, isSel := ce.Fun.(*ast.SelectorExpr)
	if !isSel {
		return "", "", false
	}
	f, isField := tr.recvField(se.X)
	if !isField || !tr.mutexes[f] {
		return "", "", false
	}
	return f, se.Sel.Name, true
}

// rootField: strips index / selector / star / paren down to recv.Field, visiting index
// expressions as reads on the way
func (tr *lockTr) rootField(e ast.Expr) (string, bool) {
	switch x := e.(type) {
	case *ast.ParenExpr:
		return tr.rootField(x.X)
	case *ast.StarExpr:
		return tr.rootField(x.X)
	case *ast.IndexExpr:
		f, ok := tr.rootField(x.X)
		if ok {
			tr.expr(x.Index)
		}
		return f, ok
	case *ast.SelectorExpr:
		if f, ok := tr.recvField(x); ok {
			return f, true
		}
		return tr.rootField(x.X)
	}
	return "", false
}

func (tr *lockTr) access(n ast.Node, field, mode string) {
	if tr.mutexes[field] {
		tr.fail(n, "mutex %s used outside the Lock/defer-Unlock pattern", field)
		return
	}
	if !tr.tables[field] {
		tr.fail(n, "unknown field %s of the store", field)
		return
	}
	tr.add(LItem{Acc: field, Mode: mode})
}

// lhs: an assignment target
func (tr *lockTr) lhs(e ast.Expr) {
	if id, ok := e.(*ast.Ident); ok {
		if id.Name == tr.recv && tr.recv != "" {
			tr.fail(e, "receiver is assigned or shadowed")
		}
		return
	}
	if f, ok := tr.rootField(e); ok {
		tr.access(e, f, "W")
		return
	}
	tr.expr(e)
}

func (tr *lockTr) exprs(l []ast.Expr) {
	for _, e := range l {
		tr.expr(e)
	}
}

// expr: an expression in value position
func (tr *lockTr) expr(e ast.Expr) {
	if e == nil || tr.err != nil {
		return
	}
	switch x := e.(type) {
	case *ast.BasicLit:
	case *ast.Ident:
		if x.Name == tr.recv && tr.recv != "" && !tr.escapes {
			tr.fail(e, "receiver escapes (used as a value)")
		}
	case *ast.ParenExpr:
		tr.expr(x.X)
	case *ast.StarExpr:
		tr.expr(x.X)
	case *ast.UnaryExpr:
		if x.Op == token.AND {
			if _, ok := tr.rootField(x.X); ok {
				tr.fail(e, "address of a store field is taken")
				return
			}
		}
		if x.Op == token.ARROW {
			tr.fail(e, "channel receive")
			return
		}
		tr.expr(x.X)
	case *ast.BinaryExpr:
		// recv.Field == nil / != nil is a read of the field
		for _, side := range []ast.Expr{x.X, x.Y} {
			if f, ok := tr.recvField(side); ok && (x.Op == token.EQL || x.Op == token.NEQ) {
				tr.access(side, f, "R")
			} else {
				tr.expr(side)
			}
		}
	case *ast.IndexExpr:
		if f, ok := tr.recvField(x.X); ok {
			tr.access(e, f, "R")
			tr.expr(x.Index)
			return
		}
		tr.expr(x.X)
		tr.expr(x.Index)
	case *ast.SliceExpr:
		tr.expr(x.X)
		tr.expr(x.Low)
		tr.expr(x.High)
		tr.expr(x.Max)
	case *ast.SelectorExpr:
		if f, ok := tr.recvField(x); ok {
			if tr.mutexes[f] {
				tr.fail(e, "mutex %s used outside the Lock/defer-Unlock pattern", f)
			} else if tr.methods[f] {
				tr.fail(e, "method value %s.%s", tr.recv, f)
			} else if tr.maps[f] {
				tr.fail(e, "map field %s escapes (aliased or passed on)", f)
			} else {
				tr.access(e, f, "R") // a non-map field used as a value is a read
			}
			return
		}
		tr.expr(x.X)
	case *ast.TypeAssertExpr:
		tr.expr(x.X)
	case *ast.CompositeLit:
		for _, el := range x.Elts {
			if kv, ok := el.(*ast.KeyValueExpr); ok {
				// struct field names are identifiers, map keys expressions
				if _, isId := kv.Key.(*ast.Ident); !isId {
					tr.expr(kv.Key)
				}
				tr.expr(kv.Value)
			} else {
				tr.expr(el)
			}
		}
	case *ast.KeyValueExpr:
		tr.expr(x.Key)
		tr.expr(x.Value)
	case *ast.FuncLit:
		tr.fail(e, "closure")
	case *ast.CallExpr:
		tr.call(x)
	case *ast.ArrayType, *ast.MapType, *ast.StructType, *ast.InterfaceType, *ast.FuncType, *ast.ChanType:
	default:
		tr.fail(e, "unsupported expression %T", e)
	}
}

func (tr *lockTr) call(x *ast.CallExpr) {
	if _, _, ok := tr.mutexCall(x); ok {
		tr.fail(x, "mutex operation outside the top-level Lock/defer-Unlock pattern")
		return
	}
	if id, ok := x.Fun.(*ast.Ident); ok {
		switch id.Name {
		case "delete", "clear":
			if len(x.Args) >= 1 {
				if f, ok := tr.recvField(x.Args[0]); ok {
					tr.access(x, f, "W")
					tr.exprs(x.Args[1:])
					return
				}
			}
		case "len":
			if len(x.Args) == 1 {
				if f, ok := tr.recvField(x.Args[0]); ok {
					tr.access(x, f, "R")
					return
				}
			}
		}
		tr.exprs(x.Args)
		return
	}
	if se, ok := x.Fun.(*ast.SelectorExpr); ok {
		if f, ok := tr.recvField(se); ok {
			// recv.f(...)
			if !tr.methods[f] {
				if tr.tables[f] && !tr.maps[f] { // a field of function type is read and called
					tr.access(x, f, "R")
					tr.exprs(x.Args)
					return
				}
				tr.fail(x, "call of %s.%s which is not a method of the type", tr.recv, f)
				return
			}
			tr.add(LItem{Call: tr.prefix + f})
			tr.exprs(x.Args)
			return
		}
		tr.expr(se.X)
		tr.exprs(x.Args)
		return
	}
	tr.expr(x.Fun)
	tr.exprs(x.Args)
}

func (tr *lockTr) stmts(l []ast.Stmt) {
	for _, s := range l {
		tr.stmt(s)
	}
}

func (tr *lockTr) stmt(s ast.Stmt) {
	if s == nil || tr.err != nil {
		return
	}
	switch x := s.(type) {
	case *ast.EmptyStmt:
	case *ast.ExprStmt:
		tr.expr(x.X)
	case *ast.AssignStmt:
		for _, l := range x.Lhs {
			tr.lhs(l)
			if x.Tok != token.ASSIGN && x.Tok != token.DEFINE {
				// op= also reads the target
				if f, ok := tr.rootField(l); ok {
					tr.access(l, f, "R")
				}
			}
		}
		tr.exprs(x.Rhs)
	case *ast.IncDecStmt:
		tr.lhs(x.X)
		if f, ok := tr.rootField(x.X); ok {
			tr.access(x.X, f, "R")
		}
	case *ast.DeclStmt:
		gd, ok := x.Decl.(*ast.GenDecl)
		if !ok {
			tr.fail(s, "unsupported declaration")
			return
		}
		for _, sp := range gd.Specs {
			if vs, ok := sp.(*ast.ValueSpec); ok {
				for _, n := range vs.Names {
					if n.Name == tr.recv && tr.recv != "" {
						tr.fail(s, "receiver is shadowed")
					}
				}
				tr.exprs(vs.Values)
			}
		}
	case *ast.ReturnStmt:
		tr.exprs(x.Results)
	case *ast.BranchStmt:
		if x.Tok == token.GOTO {
			tr.fail(s, "goto")
		}
	case *ast.BlockStmt:
		tr.stmts(x.List)
	case *ast.IfStmt:
		tr.stmt(x.Init)
		tr.expr(x.Cond)
		tr.stmt(x.Body)
		tr.stmt(x.Else)
	case *ast.ForStmt:
		tr.stmt(x.Init)
		tr.expr(x.Cond)
		tr.stmt(x.Post)
		tr.stmt(x.Body)
	case *ast.RangeStmt:
		if f, ok := tr.recvField(x.X); ok {
			tr.access(x.X, f, "R")
		} else {
			tr.expr(x.X)
		}
		if x.Key != nil {
			tr.lhs(x.Key)
		}
		if x.Value != nil {
			tr.lhs(x.Value)
		}
		tr.stmt(x.Body)
	case *ast.SwitchStmt:
		tr.stmt(x.Init)
		tr.expr(x.Tag)
		tr.stmt(x.Body)
	case *ast.TypeSwitchStmt:
		tr.stmt(x.Init)
		tr.stmt(x.Assign)
		tr.stmt(x.Body)
	case *ast.CaseClause:
		tr.exprs(x.List)
		tr.stmts(x.Body)
	case *ast.LabeledStmt:
		tr.stmt(x.Stmt)
	case *ast.DeferStmt:
		tr.fail(s, "defer outside the top-level Lock/defer-Unlock pattern")
	case *ast.GoStmt:
		tr.fail(s, "go statement")
	default:
		tr.fail(s, "unsupported statement %T", s)
	}
}

// mayReturn: the statement contains a return (or a call of panic) outside closures
func mayReturn(s ast.Stmt) bool {
	found := false
	ast.Inspect(s, func(n ast.Node) bool {
		switch x := n.(type) {
		case *ast.FuncLit:
			return false
		case *ast.ReturnStmt:
			found = true
		case *ast.CallExpr:
			if id, ok := x.Fun.(*ast.Ident); ok && id.Name == "panic" {
				found = true
			}
		}
		return !found
	})
	return found
}

func isSyncMutex(t ast.Expr) bool {
	se, ok := t.(*ast.SelectorExpr)
	if !ok {
		return false
	}
	id, ok := se.X.(*ast.Ident)
	return ok && id.Name == "sync" && (se.Sel.Name == "RWMutex" || se.Sel.Name == "Mutex")
}

func recvTypeName(fd *ast.FuncDecl) string {
	if fd.Recv == nil || len(fd.Recv.List) != 1 {
		return ""
	}
	t := fd.Recv.List[0].Type
	if st, ok := t.(*ast.StarExpr); ok {
		t = st.X
	}
	if id, ok := t.(*ast.Ident); ok {
		return id.Name
	}
	return ""
}

// TranslateLocks parses <repo>/storage/*.go (tests excluded): the reference store
func TranslateLocks(repo string) (*LockTable, error) {
	return translateType(filepath.Join(repo, "storage"), "MemoryStore", "")
}

// TranslateConfig parses the root package: the methods of *fosite.Config (the getters every
// request calls on the one shared configuration)
func TranslateConfig(repo string) (*LockTable, error) {
	return translateType(repo, "Config", "Config.")
}

func translateType(dir, typeName, prefix string) (*LockTable, error) {
	files, err := filepath.Glob(filepath.Join(dir, "*.go"))
	if err != nil {
		return nil, err
	}
	sort.Strings(files)
	fset := token.NewFileSet()
	var parsed []*ast.File
	for _, f := range files {
		if strings.HasSuffix(f, "_test.go") {
			continue
		}
		af, err := parser.ParseFile(fset, f, nil, parser.SkipObjectResolution)
		if err != nil {
			return nil, err
		}
		parsed = append(parsed, af)
	}
	tr := &lockTr{fset: fset, mutexes: map[string]bool{}, tables: map[string]bool{}, maps: map[string]bool{}, methods: map[string]bool{}, prefix: prefix, escapes: prefix != ""}
	tab := &LockTable{}
	found := false
	for _, af := range parsed {
		for _, d := range af.Decls {
			gd, ok := d.(*ast.GenDecl)
			if !ok || gd.Tok != token.TYPE {
				continue
			}
			for _, sp := range gd.Specs {
				ts := sp.(*ast.TypeSpec)
				if ts.Name.Name != typeName {
					continue
				}
				st, ok := ts.Type.(*ast.StructType)
				if !ok {
					return nil, fmt.Errorf("%s is not a struct type", typeName)
				}
				found = true
				for _, fl := range st.Fields.List {
					if len(fl.Names) == 0 {
						return nil, fmt.Errorf("%s: embedded field in %s is not supported", fset.Position(fl.Pos()), typeName)
					}
					for _, n := range fl.Names {
						if isSyncMutex(fl.Type) {
							tr.mutexes[n.Name] = true
							tab.Mutexes = append(tab.Mutexes, n.Name)
						} else {
							tr.tables[n.Name] = true
							if _, isMap := fl.Type.(*ast.MapType); isMap {
								tr.maps[n.Name] = true
							}
							tab.Tables = append(tab.Tables, n.Name)
						}
					}
				}
			}
		}
	}
	if !found {
		return nil, fmt.Errorf("type %s not found in %s", typeName, dir)
	}
	var decls []*ast.FuncDecl
	for _, af := range parsed {
		for _, d := range af.Decls {
			if fd, ok := d.(*ast.FuncDecl); ok && recvTypeName(fd) == typeName {
				decls = append(decls, fd)
				if tr.methods[fd.Name.Name] {
					return nil, fmt.Errorf("duplicate method %s", fd.Name.Name)
				}
				tr.methods[fd.Name.Name] = true
			}
		}
	}
	for _, fd := range decls {
		tr.where = fd.Name.Name
		tr.recv = ""
		if names := fd.Recv.List[0].Names; len(names) == 1 && names[0].Name != "_" {
			tr.recv = names[0].Name
		}
		for _, p := range fd.Type.Params.List {
			for _, n := range p.Names {
				if n.Name == tr.recv && tr.recv != "" {
					return nil, fmt.Errorf("%s: parameter shadows the receiver", fd.Name.Name)
				}
			}
		}
		m := LMethod{Name: prefix + fd.Name.Name, Body: []LStmt{}, Pos: fset.Position(fd.Pos()).String()}
		if fd.Body == nil {
			return nil, fmt.Errorf("%s: no body", fd.Name.Name)
		}
		list := fd.Body.List
		explicit := map[string]string{} // mutex locked without defer -> mode
		for i := 0; i < len(list); i++ {
			if ds, ok := list[i].(*ast.DeferStmt); ok {
				if mu, op, ok := tr.mutexCall(ds.Call); ok {
					return nil, fmt.Errorf("%s: %s: defer %s.%s() does not directly follow the matching Lock/RLock", fset.Position(ds.Pos()), fd.Name.Name, mu, op)
				}
			}
			if es, ok := list[i].(*ast.ExprStmt); ok {
				if mu, op, ok := tr.mutexCall(es.X); ok {
					var mode, unlock string
					switch op {
					case "Lock":
						mode, unlock = "W", "Unlock"
					case "RLock":
						mode, unlock = "R", "RUnlock"
					case "Unlock", "RUnlock":
						// explicit release at the top level of the method
						want := map[string]string{"W": "Unlock", "R": "RUnlock"}[explicit[mu]]
						if want != "" && want != op {
							return nil, fmt.Errorf("%s: %s: %s.%s() releases a mutex that was locked in the other mode", fset.Position(es.Pos()), fd.Name.Name, mu, op)
						}
						delete(explicit, mu)
						m.Body = append(m.Body, LStmt{Unlock: mu})
						continue
					default:
						return nil, fmt.Errorf("%s: %s: %s.%s() is not a mutex operation the translator knows", fset.Position(es.Pos()), fd.Name.Name, mu, op)
					}
					deferred := false
					if i+1 < len(list) {
						if ds, ok := list[i+1].(*ast.DeferStmt); ok {
							if mu2, op2, ok2 := tr.mutexCall(ds.Call); ok2 {
								if mu2 != mu || op2 != unlock {
									return nil, fmt.Errorf("%s: %s: %s.%s() is followed by defer %s.%s()", fset.Position(es.Pos()), fd.Name.Name, mu, op, mu2, op2)
								}
								deferred = true
							}
						}
					}
					if deferred {
						m.Body = append(m.Body, LStmt{Acq: mu, Mode: mode})
						i++
					} else {
						// no defer: the mutex stays held until an explicit top-level unlock; a return
						// in between leaks it (the checker reports held-at-return)
						explicit[mu] = mode
						m.Body = append(m.Body, LStmt{Lock: mu, Mode: mode})
					}
					continue
				}
			}
			tr.items = nil
			tr.stmt(list[i])
			if tr.err != nil {
				return nil, tr.err
			}
			if len(tr.items) > 0 {
				m.Body = append(m.Body, LStmt{Items: tr.items})
			}
			if mayReturn(list[i]) {
				m.Body = append(m.Body, LStmt{Ret: true})
			}
		}
		tab.Methods = append(tab.Methods, m)
	}
	sort.Slice(tab.Methods, func(i, j int) bool { return tab.Methods[i].Name < tab.Methods[j].Name })
	return tab, nil
}

// Coq renders the table as a term of type `list method` (Model/Locks.v)
func (t *LockTable) Coq() string {
	var b strings.Builder
	b.WriteString("[")
	for i, m := range t.Methods {
		if i > 0 {
			b.WriteString(";\n ")
		}
		fmt.Fprintf(&b, "Meth %s [", Q(m.Name))
		for j, s := range m.Body {
			if j > 0 {
				b.WriteString("; ")
			}
			if s.Acq != "" {
				fmt.Fprintf(&b, "SAcq %s M%s", Q(s.Acq), s.Mode)
				continue
			}
			if s.Lock != "" {
				fmt.Fprintf(&b, "SLock %s M%s", Q(s.Lock), s.Mode)
				continue
			}
			if s.Unlock != "" {
				fmt.Fprintf(&b, "SUnlock %s", Q(s.Unlock))
				continue
			}
			if s.Ret {
				b.WriteString("SRet")
				continue
			}
			b.WriteString("SItems [")
			for k, it := range s.Items {
				if k > 0 {
					b.WriteString("; ")
				}
				if it.Call != "" {
					fmt.Fprintf(&b, "ICall %s", Q(it.Call))
				} else {
					fmt.Fprintf(&b, "IAcc %s M%s", Q(it.Acc), it.Mode)
				}
			}
			b.WriteString("]")
		}
		b.WriteString("]")
	}
	b.WriteString("]")
	return b.String()
}

func repoDir() string {
	if r := os.Getenv("HX_REPO"); r != "" {
		return r
	}
	return "/repo"
}
