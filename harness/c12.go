package hx

import (
	"encoding/json"
	"fmt"
	"net/url"
	"strings"
	"testing"

	"github.com/ory/fosite"
)

type c12Replay struct {
	Kind   string   `json:"kind"` // scope | exact_aud | default_aud
	Strat  string   `json:"strategy,omitempty"`
	Hay    []string `json:"haystack"`
	Needle string   `json:"needle"`
	Needs  []string `json:"needles,omitempty"`
	Impl   bool     `json:"impl"`
}

var c12Strats = []struct {
	name string
	coq  string
	f    fosite.ScopeStrategy
}{
	{"exact", "SExact", fosite.ExactScopeStrategy},
	{"hierarchic", "SHierarchic", fosite.HierarchicScopeStrategy},
	{"wildcard", "SWildcard", fosite.WildcardScopeStrategy},
}

func c12ScopeCase(si int, hay []string, needle string) Case {
	s := c12Strats[si]
	impl := s.f(hay, needle)
	nt := impl || strings.Contains(needle, ".") || len(hay) > 1
	return Case{
		Coq:        fmt.Sprintf("KScope %s %s %s %s", s.coq, QL(hay), Q(needle), B(impl)),
		Replay:     c12Replay{Kind: "scope", Strat: s.name, Hay: hay, Needle: needle, Impl: impl},
		NonTrivial: nt,
		Key:        s.name + "|" + strings.Join(hay, ",") + "|" + needle,
	}
}

func aurlCoq(raw string) string {
	u, err := url.Parse(raw)
	if err != nil {
		return fmt.Sprintf("(Build_aurl %s false \"\" \"\" \"\")", Q(raw))
	}
	return fmt.Sprintf("(Build_aurl %s true %s %s %s)", Q(raw), Q(u.Scheme), Q(u.Host), Q(u.Path))
}

func c12AudCase(def bool, hay, needles []string) Case {
	if def {
		impl := fosite.DefaultAudienceMatchingStrategy(hay, needles) == nil
		hs := make([]string, len(hay))
		for i, h := range hay {
			hs[i] = aurlCoq(h)
		}
		ns := make([]string, len(needles))
		for i, n := range needles {
			ns[i] = aurlCoq(n)
		}
		return Case{
			Coq:        fmt.Sprintf("KDefAud %s %s %s", L(hs), L(ns), B(impl)),
			Replay:     c12Replay{Kind: "default_aud", Hay: hay, Needs: needles, Impl: impl},
			NonTrivial: len(needles) > 0 && len(hay) > 0,
			Key:        "d|" + strings.Join(hay, ",") + "|" + strings.Join(needles, ","),
		}
	}
	impl := fosite.ExactAudienceMatchingStrategy(hay, needles) == nil
	return Case{
		Coq:        fmt.Sprintf("KExactAud %s %s %s", QL(hay), QL(needles), B(impl)),
		Replay:     c12Replay{Kind: "exact_aud", Hay: hay, Needs: needles, Impl: impl},
		NonTrivial: len(needles) > 0 && len(hay) > 0,
		Key:        "e|" + strings.Join(hay, ",") + "|" + strings.Join(needles, ","),
	}
}

// all dotted names with 1..maxSeg segments over the alphabet
func dotted(alpha []string, maxSeg int) []string {
	var out []string
	cur := [][]string{{}}
	for n := 1; n <= maxSeg; n++ {
		var next [][]string
		for _, p := range cur {
			for _, a := range alpha {
				q := append(append([]string{}, p...), a)
				next = append(next, q)
				out = append(out, strings.Join(q, "."))
			}
		}
		cur = next
	}
	return out
}

func c12RandName(r *RNG) string {
	alpha := []string{"a", "b", "*", "", "users", "user", "read", "Read", "a*", "**"}
	n := 1 + r.Intn(5)
	parts := make([]string, n)
	for i := range parts {
		parts[i] = Pick(r, alpha)
	}
	return strings.Join(parts, ".")
}

func c12RandURL(r *RNG) string {
	schemes := []string{"https", "http", "HTTPS", "custom"}
	hosts := []string{"api.example.com", "api.example.com:8443", "API.example.com", "example.com", "api.example.com.evil.io", "[::1]:80"}
	paths := []string{"", "/", "/v1", "/v1/", "/v1//", "/v1/users", "/v1users", "/v10", "/v1/users/", "/V1", "//", "/v1/../admin", "/v1%2Fusers"}
	if r.Chance(4) {
		return Pick(r, []string{"::bad::", "http://[::1", "%zz", "relative/path", "mailto:x@y", "https://u:p@api.example.com/v1"})
	}
	return Pick(r, schemes) + "://" + Pick(r, hosts) + Pick(r, paths)
}

func init() { Register("C12", runC12) }

func runC12(t *testing.T, e Env) {
	out := NewOut(e.Out, "Cases.CasesC12", "c12case", "check", 500)
	if e.Replay != nil {
		var rp c12Replay
		if err := json.Unmarshal(e.Replay, &rp); err != nil {
			t.Fatal(err)
		}
		switch rp.Kind {
		case "scope":
			for i, s := range c12Strats {
				if s.name == rp.Strat {
					out.Add(c12ScopeCase(i, rp.Hay, rp.Needle))
				}
			}
		case "default_aud":
			out.Add(c12AudCase(true, rp.Hay, rp.Needs))
		case "exact_aud":
			out.Add(c12AudCase(false, rp.Hay, rp.Needs))
		}
		if err := out.Flush("replay"); err != nil {
			t.Fatal(err)
		}
		return
	}
	r := NewRNG(e.Seed)
	alpha := []string{"a", "b", "*", ""}
	// exhaustive block: single-entry haystacks (<= 2 segments quick, <= 3 thorough) x needles (<= 3 / <= 4)
	hs, ns := 2, 3
	if e.Tier == "thorough" {
		hs, ns = 3, 4
	}
	hays := dotted(alpha, hs)
	needles := dotted(alpha, ns)
	for si := range c12Strats {
		for _, h := range hays {
			for _, n := range needles {
				out.Add(c12ScopeCase(si, []string{h}, n))
				out.Count("scope-exhaustive")
			}
		}
	}
	out.Notes["exhaustive_block"] = fmt.Sprintf("all single-entry haystacks with <=%d segments x all needles with <=%d segments over {a,b,*,\"\"} x 3 strategies", hs, ns)
	// sampled block: 0..3 haystack entries, longer and mixed-case names
	nSample := 6000
	nAud := 3000
	if e.Tier == "thorough" {
		nSample, nAud = 150000, 60000
	}
	for i := 0; i < nSample; i++ {
		k := r.Intn(4)
		hay := make([]string, k)
		for j := range hay {
			hay[j] = c12RandName(r)
		}
		needle := c12RandName(r)
		if k > 0 && r.Chance(30) { // derive the needle from a haystack entry so that matches are common
			base := hay[r.Intn(k)]
			switch r.Intn(4) {
			case 0:
				needle = base
			case 1:
				needle = base + "." + Pick(r, []string{"x", "", "*", "y.z"})
			case 2:
				needle = strings.ReplaceAll(base, "*", Pick(r, []string{"x", "", "x.y"}))
			case 3:
				needle = base + "x"
			}
		}
		out.Add(c12ScopeCase(r.Intn(3), hay, needle))
		out.Count("scope-sampled")
	}
	for i := 0; i < nAud; i++ {
		k := r.Intn(4)
		hay := make([]string, k)
		for j := range hay {
			hay[j] = c12RandURL(r)
		}
		m := r.Intn(3)
		nd := make([]string, m)
		for j := range nd {
			nd[j] = c12RandURL(r)
			if k > 0 && r.Chance(50) {
				base := hay[r.Intn(k)]
				nd[j] = base + Pick(r, []string{"", "/", "/x", "x", "//x", "/x/"})
				if r.Chance(20) {
					nd[j] = strings.TrimRight(base, "/")
				}
			}
		}
		def := r.Chance(70)
		out.Add(c12AudCase(def, hay, nd))
		if def {
			out.Count("audience-default")
		} else {
			out.Count("audience-exact")
		}
	}
	if err := out.Flush("scope: exhaustive single-entry block + seeded samples with 0-3 haystack entries; audience: seeded URL lists with near-miss paths. non-trivial = matched, or dotted needle, or several haystack entries / non-empty audience lists; distinct by (strategy, haystack, needle)"); err != nil {
		t.Fatal(err)
	}
}
