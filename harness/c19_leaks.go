package hx

// C19 leak probe (parent side): harness/c19race TestLeaks runs every ordered pair of store
// methods sequentially on a fresh store and checks after every call that every mutex of the
// store can still be taken.  Deterministic; independent of the translator.

import (
	"bytes"
	"fmt"
	"os"
	"os/exec"
	"path/filepath"
	"strings"
	"testing"
)

// returns the methods that leak a mutex or hang when called sequentially
func c19LeakStream(t *testing.T, e Env, out *Out, only *c19Replay) []string {
	var culprits []string
	bin := filepath.Join(e.Out, "..", "bin", "c19leak.test")
	if err := os.MkdirAll(filepath.Dir(bin), 0o755); err != nil {
		t.Fatal(err)
	}
	build := exec.Command("go1.26.8", "test", "-c", "-o", bin, "./c19race")
	if b, err := build.CombinedOutput(); err != nil {
		t.Fatalf("building harness/c19race failed: %v\n%s", err, b)
	}
	cmd := exec.Command(bin, "-test.run", "^TestLeaks$", "-test.count=1", "-test.timeout=600s")
	cmd.Env = append(os.Environ(), "C19R_LEAKS=1")
	if only != nil && only.Method != "" {
		cmd.Env = append(cmd.Env, "C19R_ONLY="+only.Method)
	}
	var buf bytes.Buffer
	cmd.Stdout = &buf
	cmd.Stderr = &buf
	runErr := cmd.Run()
	found, done := 0, false
	seen := map[string]bool{}
	for _, l := range strings.Split(buf.String(), "\n") {
		if !strings.HasPrefix(l, "@@") {
			continue
		}
		f := strings.Fields(l[2:])
		switch f[0] {
		case "LEAK": // LEAK <method> <mutex[,mutex]> in-sequence f;g step n
			if len(f) < 3 {
				continue
			}
			culprits = append(culprits, f[1])
			for _, mu := range strings.Split(f[2], ",") {
				k := f[1] + ":" + mu
				if seen[k] {
					continue
				}
				seen[k] = true
				found++
				out.Add(Case{Coq: fmt.Sprintf("KLeak %s %s", Q(f[1]), Q(mu)),
					Replay: c19Replay{Kind: "leak", Method: f[1], Mutex: mu, Report: l[2:]}, NonTrivial: true, Key: "leak|" + k})
				out.Count("leak-found")
			}
		case "HUNG":
			if len(f) < 2 || seen["hung:"+f[1]] {
				continue
			}
			culprits = append(culprits, f[1])
			seen["hung:"+f[1]] = true
			found++
			out.Add(Case{Coq: fmt.Sprintf("KHung %s", Q(f[1])),
				Replay: c19Replay{Kind: "leak", Method: f[1], Report: l[2:]}, NonTrivial: true, Key: "hung|" + f[1]})
			out.Count("leak-call-hung")
		case "LEAKDONE":
			done = true
			n := 0
			fmt.Sscanf(f[1], "%d", &n)
			out.Notes["leak_probe"] = strings.Join(f[1:], " ")
			if found == 0 {
				out.Add(Case{Coq: fmt.Sprintf("KLeakClean %d", n), Replay: c19Replay{Kind: "leak", Report: l[2:]}, NonTrivial: true, Key: "leak|clean"})
				out.Count("leak-clean")
			}
		}
	}
	if !done {
		tail := buf.String()
		if len(tail) > 1500 {
			tail = tail[len(tail)-1500:]
		}
		t.Fatalf("C19 leak probe did not finish (%v)\n%s", runErr, tail)
	}
	return culprits
}
