package hx

// C06, JWT access tokens: header alg x signer x configured key type x claims x structure.
// The implementation is observed at oauth2.DefaultJWTStrategy.ValidateAccessToken (jwt.DefaultSigner
// with the configured key), at jwt.DefaultSigner.Generate and end to end at IntrospectToken of a
// provider composed with the JWT strategy.  The facts the model takes as input are computed here with
// go-jose's parser (structure, header) and with crypto/rsa, crypto/ecdsa, crypto/hmac (signature),
// never with fosite's token/jwt package.

import (
	"context"
	"crypto"
	"crypto/ecdsa"
	"crypto/hmac"
	"crypto/rand"
	"crypto/rsa"
	"crypto/sha256"
	"crypto/sha512"
	"crypto/x509"
	"encoding/base64"
	"encoding/json"
	"encoding/pem"
	"fmt"
	"hash"
	"math/big"
	"net/url"
	"sort"
	"strings"
	"testing"
	"time"
	"unicode"

	jose "github.com/go-jose/go-jose/v3"
	josejwt "github.com/go-jose/go-jose/v3/jwt"

	"github.com/ory/fosite"
	"github.com/ory/fosite/compose"
	"github.com/ory/fosite/handler/oauth2"
	"github.com/ory/fosite/storage"
	"github.com/ory/fosite/token/jwt"
)

func c06ParseRSA(p string) *rsa.PrivateKey {
	b, _ := pem.Decode([]byte(p))
	k, err := x509.ParsePKCS8PrivateKey(b.Bytes)
	if err != nil {
		panic(err)
	}
	return k.(*rsa.PrivateKey)
}

func c06ParseEC(p string) *ecdsa.PrivateKey {
	b, _ := pem.Decode([]byte(p))
	k, err := x509.ParseECPrivateKey(b.Bytes)
	if err != nil {
		panic(err)
	}
	return k
}

var (
	c06rsa1, c06rsa2              *rsa.PrivateKey
	c06ec256, c06ec256b, c06ec384 *ecdsa.PrivateKey
	c06symBytes                   = []byte("a-symmetric-secret-of-sufficient-length-0123456789")
)

func c06LoadKeys() {
	if c06rsa1 != nil {
		return
	}
	c06rsa1, c06rsa2 = c06ParseRSA(c06RSA1PEM), c06ParseRSA(c06RSA2PEM)
	c06ec256, c06ec256b, c06ec384 = c06ParseEC(c06EC256PEM), c06ParseEC(c06EC256bPEM), c06ParseEC(c06EC384PEM)
}

type c06Opaque struct {
	pub  interface{}
	algs []jose.SignatureAlgorithm
}

func (o *c06Opaque) Public() *jose.JSONWebKey        { return &jose.JSONWebKey{Key: o.pub} }
func (o *c06Opaque) Algs() []jose.SignatureAlgorithm { return o.algs }
func (o *c06Opaque) SignPayload(payload []byte, alg jose.SignatureAlgorithm) ([]byte, error) {
	return c06Sign(string(alg), c06rsa1, string(payload))
}

// a configured key: what GetPrivateKey returns, the model's term, and the verification material the
// harness uses for its own signature check
type c06JKey struct {
	name   string
	priv   interface{}
	coq    string
	rsaPub *rsa.PublicKey
	ecPub  *ecdsa.PublicKey
	sym    []byte
	own    interface{} // private key an honest issuer would sign with (same type as configured)
}

func c06JKeys() []c06JKey {
	c06LoadKeys()
	rs := []jose.SignatureAlgorithm{jose.RS256}
	return []c06JKey{
		{name: "rsa", priv: c06rsa1, coq: "PRsa", rsaPub: &c06rsa1.PublicKey, own: c06rsa1},
		{name: "ec256", priv: c06ec256, coq: "(PEc true)", ecPub: &c06ec256.PublicKey, own: c06ec256},
		{name: "ec384", priv: c06ec384, coq: "(PEc false)", ecPub: &c06ec384.PublicKey, own: c06ec384},
		{name: "jwkptr-rsa-RS256", priv: &jose.JSONWebKey{Key: c06rsa1, Algorithm: "RS256", KeyID: "k1"}, coq: `(PJwkPtr "RS256" PRsa)`, rsaPub: &c06rsa1.PublicKey, own: c06rsa1},
		{name: "jwkptr-rsa-PS256", priv: &jose.JSONWebKey{Key: c06rsa1, Algorithm: "PS256", KeyID: "k1"}, coq: `(PJwkPtr "PS256" PRsa)`, rsaPub: &c06rsa1.PublicKey, own: c06rsa1},
		{name: "jwkptr-rsa-HS256", priv: &jose.JSONWebKey{Key: c06rsa1, Algorithm: "HS256", KeyID: "k1"}, coq: `(PJwkPtr "HS256" PRsa)`, rsaPub: &c06rsa1.PublicKey, own: c06rsa1},
		{name: "jwkptr-ec256", priv: &jose.JSONWebKey{Key: c06ec256, Algorithm: "ES256", KeyID: "k2"}, coq: `(PJwkPtr "ES256" (PEc true))`, ecPub: &c06ec256.PublicKey, own: c06ec256},
		{name: "jwkval-rsa", priv: jose.JSONWebKey{Key: c06rsa1, Algorithm: "RS256", KeyID: "k1"}, coq: `(PJwkVal "RS256" PRsa)`, rsaPub: &c06rsa1.PublicKey, own: c06rsa1},
		{name: "bytes", priv: c06symBytes, coq: "PBytes", sym: c06symBytes},
		{name: "rsa-public", priv: &c06rsa1.PublicKey, coq: "POther", rsaPub: &c06rsa1.PublicKey, own: c06rsa1},
		{name: "opaque-rsapub", priv: &c06Opaque{&c06rsa1.PublicKey, rs}, coq: `(POpaque ["RS256"] VRsa)`, rsaPub: &c06rsa1.PublicKey, own: c06rsa1},
		{name: "opaque-rsapriv", priv: &c06Opaque{c06rsa1, rs}, coq: `(POpaque ["RS256"] VRsaPriv)`, rsaPub: &c06rsa1.PublicKey, own: c06rsa1},
		{name: "opaque-rsapriv-noalgs", priv: &c06Opaque{c06rsa1, nil}, coq: `(POpaque [] VRsaPriv)`, rsaPub: &c06rsa1.PublicKey, own: c06rsa1},
		{name: "opaque-none", priv: &c06Opaque{jwt.UnsafeAllowNoneSignatureType, rs}, coq: `(POpaque ["RS256"] VNoneMagic)`},
		{name: "opaque-nil", priv: &c06Opaque{nil, rs}, coq: `(POpaque ["RS256"] VNil)`},
		{name: "opaque-bytes", priv: &c06Opaque{c06symBytes, rs}, coq: `(POpaque ["RS256"] VOther)`, sym: c06symBytes},
		{name: "opaque-jwk-bytes", priv: &c06Opaque{jose.JSONWebKey{Key: c06symBytes}, rs}, coq: `(POpaque ["RS256"] VSym)`, sym: c06symBytes},
		{name: "jwkptr-opaque-none", priv: &jose.JSONWebKey{Key: &c06Opaque{jwt.UnsafeAllowNoneSignatureType, rs}}, coq: `(PJwkPtr "" (POpaque ["RS256"] VNoneMagic))`},
	}
}

func c06JKeyByName(n string) (c06JKey, bool) {
	for _, k := range c06JKeys() {
		if k.name == n {
			return k, true
		}
	}
	return c06JKey{}, false
}

// ---------------------------------------------------------------- signing / verifying with Go's crypto

func c06HashFor(alg string) (crypto.Hash, func() hash.Hash) {
	switch {
	case strings.HasSuffix(alg, "384"):
		return crypto.SHA384, sha512.New384
	case strings.HasSuffix(alg, "512"):
		return crypto.SHA512, sha512.New
	}
	return crypto.SHA256, sha256.New
}

func c06Digest(alg, input string) []byte {
	_, h := c06HashFor(alg)
	d := h()
	d.Write([]byte(input))
	return d.Sum(nil)
}

func c06PubPEM(pub interface{}) []byte {
	der, err := x509.MarshalPKIXPublicKey(pub)
	if err != nil {
		return nil
	}
	return pem.EncodeToMemory(&pem.Block{Type: "PUBLIC KEY", Bytes: der})
}

func c06Sign(alg string, key interface{}, input string) ([]byte, error) {
	ch, hf := c06HashFor(alg)
	switch {
	case strings.HasPrefix(alg, "RS"):
		k, ok := key.(*rsa.PrivateKey)
		if !ok {
			return nil, fmt.Errorf("no rsa key")
		}
		return rsa.SignPKCS1v15(rand.Reader, k, ch, c06Digest(alg, input))
	case strings.HasPrefix(alg, "PS"):
		k, ok := key.(*rsa.PrivateKey)
		if !ok {
			return nil, fmt.Errorf("no rsa key")
		}
		return rsa.SignPSS(rand.Reader, k, ch, c06Digest(alg, input), &rsa.PSSOptions{SaltLength: rsa.PSSSaltLengthEqualsHash})
	case strings.HasPrefix(alg, "ES"):
		k, ok := key.(*ecdsa.PrivateKey)
		if !ok {
			return nil, fmt.Errorf("no ec key")
		}
		r, s, err := ecdsa.Sign(rand.Reader, k, c06Digest(alg, input))
		if err != nil {
			return nil, err
		}
		n := (k.Curve.Params().BitSize + 7) / 8
		out := make([]byte, 2*n)
		r.FillBytes(out[:n])
		s.FillBytes(out[n:])
		return out, nil
	case strings.HasPrefix(alg, "HS"):
		b, ok := key.([]byte)
		if !ok {
			return nil, fmt.Errorf("no bytes")
		}
		m := hmac.New(hf, b)
		m.Write([]byte(input))
		return m.Sum(nil), nil
	}
	return nil, fmt.Errorf("alg")
}

// does the signature verify under the configured key with the primitive named by alg?  For HS* on an
// asymmetric key the HMAC secret is the PEM of the public key (the classical confusion attack).
func c06Verify(alg string, k c06JKey, input string, sig []byte) bool {
	ch, hf := c06HashFor(alg)
	switch alg {
	case "RS256", "RS384", "RS512":
		return k.rsaPub != nil && rsa.VerifyPKCS1v15(k.rsaPub, ch, c06Digest(alg, input), sig) == nil
	case "PS256", "PS384", "PS512":
		return k.rsaPub != nil && rsa.VerifyPSS(k.rsaPub, ch, c06Digest(alg, input), sig, nil) == nil
	case "ES256", "ES384", "ES512":
		if k.ecPub == nil {
			return false
		}
		want := map[string]int{"ES256": 256, "ES384": 384, "ES512": 521}[alg]
		n := (k.ecPub.Curve.Params().BitSize + 7) / 8
		if k.ecPub.Curve.Params().BitSize != want || len(sig) != 2*n {
			return false
		}
		return ecdsa.Verify(k.ecPub, c06Digest(alg, input), new(big.Int).SetBytes(sig[:n]), new(big.Int).SetBytes(sig[n:]))
	case "HS256", "HS384", "HS512":
		secret := k.sym
		if secret == nil && k.rsaPub != nil {
			secret = c06PubPEM(k.rsaPub)
		}
		if secret == nil && k.ecPub != nil {
			secret = c06PubPEM(k.ecPub)
		}
		if secret == nil {
			return false
		}
		m := hmac.New(hf, secret)
		m.Write([]byte(input))
		return hmac.Equal(m.Sum(nil), sig)
	case "none":
		return len(sig) == 0
	}
	return false
}

// ---------------------------------------------------------------- building and dissecting tokens

var c06raw = base64.RawURLEncoding

func c06J(v interface{}) string {
	b, err := json.Marshal(v)
	if err != nil {
		panic(err)
	}
	return string(b)
}

func c06Compact(headerJSON, payloadJSON string, sign func(input string) []byte) string {
	in := c06raw.EncodeToString([]byte(headerJSON)) + "." + c06raw.EncodeToString([]byte(payloadJSON))
	return in + "." + c06raw.EncodeToString(sign(in))
}

func c06StripWS(s string) string {
	var b strings.Builder
	for _, r := range s {
		if !unicode.IsSpace(r) {
			b.WriteRune(r)
		}
	}
	return b.String()
}

// go-jose decodes every part after trimming "=" padding and verifies the signature over the canonical
// re-encoding of the DECODED protected header and payload
func c06Canon(part string) (string, bool) {
	b, err := c06raw.DecodeString(strings.TrimRight(part, "="))
	return c06raw.EncodeToString(b), err == nil
}

// signing input and signature bytes of a serialized JWS (compact, or JSON with one or more signatures)
func c06Dissect(raw string) (input string, sig []byte, ok bool) {
	s := c06StripWS(raw)
	var h, p, g string
	if strings.HasPrefix(s, "{") {
		var o struct {
			Payload    string `json:"payload"`
			Protected  string `json:"protected"`
			Signature  string `json:"signature"`
			Signatures []struct {
				Protected string `json:"protected"`
				Signature string `json:"signature"`
			} `json:"signatures"`
		}
		if json.Unmarshal([]byte(s), &o) != nil {
			return "", nil, false
		}
		h, p, g = o.Protected, o.Payload, o.Signature
		if len(o.Signatures) > 0 {
			h, g = o.Signatures[0].Protected, o.Signatures[0].Signature
		}
	} else {
		parts := strings.Split(s, ".")
		if len(parts) != 3 {
			return "", nil, false
		}
		h, p, g = parts[0], parts[1], parts[2]
	}
	hc, ok1 := c06Canon(h)
	pc, ok2 := c06Canon(p)
	b, err := c06raw.DecodeString(strings.TrimRight(g, "="))
	return hc + "." + pc, b, ok1 && ok2 && err == nil
}

type c06JFacts struct {
	parse, claims bool
	headers       int
	alg           string
	sig           bool
	exp, iat, nbf bool
}

func (f c06JFacts) coq() string {
	return fmt.Sprintf("(JF %s %s %d %s %s %s %s %s)", B(f.parse), B(f.claims), f.headers, Q(f.alg), B(f.sig), B(f.exp), B(f.iat), B(f.nbf))
}

func c06Num(v interface{}) (int64, bool) {
	switch t := v.(type) {
	case float64:
		return int64(t), true
	case json.Number:
		i, err := t.Int64()
		if err != nil {
			f, err2 := t.Float64()
			return int64(f), err2 == nil
		}
		return i, true
	case int64:
		return t, true
	}
	return 0, false
}

func c06JwtFacts(raw string, k c06JKey) c06JFacts {
	f := c06JFacts{exp: true, iat: true, nbf: true}
	obj, err := josejwt.ParseSigned(raw)
	if err != nil {
		return f
	}
	f.parse = true
	var m map[string]interface{}
	f.claims = obj.UnsafeClaimsWithoutVerification(&m) == nil
	f.headers = len(obj.Headers)
	if f.headers > 0 {
		f.alg = obj.Headers[0].Algorithm
	}
	if in, sig, ok := c06Dissect(raw); ok {
		f.sig = c06Verify(f.alg, k, in, sig)
	}
	now := time.Now().Unix()
	if v, ok := c06Num(m["exp"]); ok && v != 0 {
		f.exp = now <= v
	}
	if v, ok := c06Num(m["iat"]); ok && v != 0 {
		f.iat = now >= v
	}
	if v, ok := c06Num(m["nbf"]); ok && v != 0 {
		f.nbf = now >= v
	}
	return f
}

func c06JwtImpl(k c06JKey, raw string) string {
	getter := func(context.Context) (interface{}, error) { return k.priv, nil }
	s := &oauth2.DefaultJWTStrategy{Signer: &jwt.DefaultSigner{GetPrivateKey: getter}, Config: &fosite.Config{}}
	return c06Guard(func() string { return c06ErrName(s.ValidateAccessToken(context.Background(), nil, raw)) })
}

func c06JwtCase(label string, k c06JKey, raw string) Case {
	f := c06JwtFacts(raw, k)
	impl := c06JwtImpl(k, raw)
	return Case{
		Coq:        fmt.Sprintf("KJwt %s %s %s", k.coq, f.coq(), Q(impl)),
		Replay:     c06Replay{Kind: "jwt", Label: label, JKey: k.name, Raw: raw, Impl: impl},
		NonTrivial: f.parse,
		Key:        "j|" + k.name + "|" + raw,
	}
}

func c06JwtGenCase(k c06JKey) Case {
	getter := func(context.Context) (interface{}, error) { return k.priv, nil }
	s := &jwt.DefaultSigner{GetPrivateKey: getter}
	var tok string
	var err error
	panicked := c06Guard(func() string {
		tok, _, err = s.Generate(context.Background(), jwt.MapClaims{"sub": "peter", "exp": int64(4102444800)}, &jwt.Headers{})
		return ""
	}) == "panic"
	impl, implS := "None", "refused"
	if panicked {
		impl, implS = `(Some "panic")`, "panic"
	} else if err == nil {
		alg := "?"
		if obj, e := josejwt.ParseSigned(tok); e == nil && len(obj.Headers) == 1 {
			alg = obj.Headers[0].Algorithm
		}
		impl, implS = "(Some "+Q(alg)+")", alg
	}
	return Case{
		Coq:        fmt.Sprintf("KJwtGen %s %s", k.coq, impl),
		Replay:     c06Replay{Kind: "jwt_gen", JKey: k.name, Impl: implS},
		NonTrivial: true,
		Key:        "jg|" + k.name,
	}
}

const (
	c06Past   = int64(978307200)  // 2001-01-01
	c06Future = int64(4102444800) // 2100-01-01
)

func c06Claims(variant string) string {
	m := map[string]interface{}{"sub": "peter", "client_id": "c0", "scp": []string{"photos"}, "jti": "id-1"}
	switch variant {
	case "valid":
		m["exp"], m["iat"], m["nbf"] = c06Future, c06Past, c06Past
	case "expired":
		m["exp"], m["iat"] = c06Past+10, c06Past
	case "nbf-future":
		m["exp"], m["nbf"] = c06Future, c06Future-10
	case "iat-future":
		m["exp"], m["iat"] = c06Future, c06Future-10
	case "expired-and-nbf-future":
		m["exp"], m["nbf"] = c06Past+10, c06Future-10
	case "no-times":
	case "exp-string":
		m["exp"] = "4102444800"
	case "exp-zero":
		m["exp"] = 0
	}
	return c06J(m)
}

func c06Header(alg string, extra map[string]interface{}) string {
	m := map[string]interface{}{"typ": "JWT"}
	if alg != "<missing>" {
		m["alg"] = alg
	}
	for k, v := range extra {
		m[k] = v
	}
	return c06J(m)
}

type c06JTok struct{ label, raw string }

// the catalogue for one configured key
func c06JwtCatalogue(r *RNG, k c06JKey, thorough bool) []c06JTok {
	var out []c06JTok
	add := func(label, raw string) { out = append(out, c06JTok{label, raw}) }
	var foreign interface{}
	switch k.own.(type) {
	case *rsa.PrivateKey:
		foreign = c06rsa2
	case *ecdsa.PrivateKey:
		foreign = c06ec256b
	}
	signWith := func(alg string, key interface{}) func(string) []byte {
		return func(in string) []byte {
			b, err := c06Sign(alg, key, in)
			if err != nil {
				return nil
			}
			return b
		}
	}
	empty := func(string) []byte { return nil }
	garbage := func(string) []byte { return c06Rand(r, 256) }
	valid := c06Claims("valid")
	algs := []string{"none", "None", "NONE", "nOnE", "HS256", "HS384", "HS512", "RS256", "RS384", "RS512", "PS256", "PS384", "PS512", "ES256", "ES384", "ES512", "", "<missing>", "RS256 ", "rs256", "EdDSA"}
	for _, alg := range algs {
		h := c06Header(alg, nil)
		base := strings.TrimSpace(strings.ToUpper(alg))
		if k.own != nil {
			if b, err := c06Sign(base, k.own, "x"); err == nil && b != nil {
				add("alg="+alg+"/own-key", c06Compact(h, valid, signWith(base, k.own)))
				add("alg="+alg+"/foreign-key", c06Compact(h, valid, signWith(base, foreign)))
			}
		}
		if strings.HasPrefix(base, "HS") {
			if k.rsaPub != nil {
				add("alg="+alg+"/hmac-public-key-pem", c06Compact(h, valid, signWith(base, c06PubPEM(k.rsaPub))))
			}
			if k.ecPub != nil {
				add("alg="+alg+"/hmac-public-key-pem", c06Compact(h, valid, signWith(base, c06PubPEM(k.ecPub))))
			}
			if k.sym != nil {
				add("alg="+alg+"/hmac-configured-bytes", c06Compact(h, valid, signWith(base, k.sym)))
			}
			add("alg="+alg+"/hmac-empty-key", c06Compact(h, valid, signWith(base, []byte{})))
		}
		add("alg="+alg+"/empty-signature", c06Compact(h, valid, empty))
		add("alg="+alg+"/garbage-signature", c06Compact(h, valid, garbage))
	}
	// an honest token for this key type and what can be done to it
	natural := ""
	switch o := k.own.(type) {
	case *rsa.PrivateKey:
		natural = "RS256"
	case *ecdsa.PrivateKey:
		natural = map[int]string{256: "ES256", 384: "ES384"}[o.Curve.Params().BitSize]
	}
	if k.sym != nil {
		natural = "HS256"
	}
	signer := func(alg string) func(string) []byte {
		if k.sym != nil {
			return signWith(alg, k.sym)
		}
		return signWith(alg, k.own)
	}
	if natural != "" {
		nats := []string{natural}
		if natural == "RS256" {
			nats = append(nats, "PS256", "RS512")
		}
		for _, alg := range nats {
			for _, cv := range []string{"valid", "expired", "nbf-future", "iat-future", "expired-and-nbf-future", "no-times", "exp-string", "exp-zero"} {
				add("honest/"+alg+"/claims-"+cv, c06Compact(c06Header(alg, nil), c06Claims(cv), signer(alg)))
			}
		}
		h, p := c06Header(natural, map[string]interface{}{"kid": "k1"}), valid
		good := c06Compact(h, p, signer(natural))
		parts := strings.Split(good, ".")
		sigB, _ := c06raw.DecodeString(parts[2])
		add("honest", good)
		add("flip-signature-bit", parts[0]+"."+parts[1]+"."+c06raw.EncodeToString(c06FlipBit(r, sigB)))
		add("alter-payload", parts[0]+"."+c06raw.EncodeToString([]byte(strings.Replace(p, "peter", "admin", 1)))+"."+parts[2])
		add("alter-header", c06raw.EncodeToString([]byte(c06Header(natural, map[string]interface{}{"kid": "k2"})))+"."+parts[1]+"."+parts[2])
		add("header-to-none-keep-signature", c06raw.EncodeToString([]byte(c06Header("none", nil)))+"."+parts[1]+"."+parts[2])
		add("header-to-none-drop-signature", c06raw.EncodeToString([]byte(c06Header("none", nil)))+"."+parts[1]+".")
		add("header-to-HS256-keep-signature", c06raw.EncodeToString([]byte(c06Header("HS256", nil)))+"."+parts[1]+"."+parts[2])
		add("strip-signature", parts[0]+"."+parts[1]+".")
		add("two-parts", parts[0]+"."+parts[1])
		add("four-parts", good+".AAAA")
		add("five-parts", good+".AAAA.BBBB")
		add("whitespace-inside", parts[0]+" .\n"+parts[1]+"\t."+parts[2])
		add("truncate-signature", good[:len(good)-3])
		add("json-flattened", c06J(map[string]string{"protected": parts[0], "payload": parts[1], "signature": parts[2]}))
		add("json-general-two-signatures", c06J(map[string]interface{}{"payload": parts[1], "signatures": []map[string]string{
			{"protected": parts[0], "signature": parts[2]}, {"protected": parts[0], "signature": parts[2]}}}))
		add("json-unprotected-alg-none", c06J(map[string]interface{}{"payload": parts[1], "header": map[string]string{"alg": "none"}, "signature": ""}))
		for _, pl := range []string{"123", "[]", "null", `"str"`, "{not json"} {
			add("payload="+pl, c06Compact(h, pl, signer(natural)))
		}
		add("header-not-json", c06Compact("{not json", p, signer(natural)))
		other := c06Compact(h, c06Claims("no-times"), signer(natural))
		add("signature-of-another-token", parts[0]+"."+parts[1]+"."+strings.Split(other, ".")[2])
		add("padded-base64", parts[0]+"=."+parts[1]+"."+parts[2])
	}
	add("empty", "")
	add("garbage", "a.b.c")
	add("dots", "..")
	add("opaque-token", "ory_at_AAAAAAAAAAAAAAAAAAAAAAAAAAAAAAAAAAAAAAAAAAA.BBBBBBBBBBBBBBBBBBBBBBBBBBBBBBBBBBBBBBBBBBB")
	_ = thorough
	return out
}

// ---------------------------------------------------------------- end to end with the JWT strategy

type c06JWorld struct {
	t     *testing.T
	k     c06JKey
	store *storage.MemoryStore
	prov  fosite.OAuth2Provider
}

func newC06JWorld(t *testing.T, k c06JKey) *c06JWorld {
	conf := &fosite.Config{GlobalSecret: []byte("0123456789abcdef0123456789abcdef"), TokenURL: "https://as.example/token", AccessTokenIssuer: "https://as.example"}
	store := storage.NewMemoryStore()
	store.Clients["c0"] = c06Client()
	getter := func(context.Context) (interface{}, error) { return k.priv, nil }
	strat := &compose.CommonStrategy{
		CoreStrategy: compose.NewOAuth2JWTStrategy(getter, compose.NewOAuth2HMACStrategy(conf), conf),
		Signer:       &jwt.DefaultSigner{GetPrivateKey: getter},
	}
	prov := compose.Compose(conf, store, strat, compose.OAuth2ClientCredentialsGrantFactory, compose.OAuth2TokenIntrospectionFactory)
	return &c06JWorld{t: t, k: k, store: store, prov: prov}
}

func (w *c06JWorld) session(exp time.Time) *oauth2.JWTSession {
	s := &oauth2.JWTSession{JWTClaims: &jwt.JWTClaims{Subject: "peter", Extra: map[string]interface{}{}}, JWTHeader: &jwt.Headers{Extra: map[string]interface{}{}}}
	if !exp.IsZero() {
		s.ExpiresAt = map[fosite.TokenType]time.Time{fosite.AccessToken: exp}
	}
	return s
}

func (w *c06JWorld) mint() string {
	ctx := context.Background()
	form := url.Values{"grant_type": {"client_credentials"}, "scope": {"photos"}}
	wr := &c06World{}
	ar, err := w.prov.NewAccessRequest(ctx, wr.post("/token", form), w.session(time.Time{}))
	if err != nil {
		w.t.Fatalf("jwt mint request: %v", fosite.ErrorToRFC6749Error(err).WithExposeDebug(true).GetDescription())
	}
	ar.GrantScope("photos")
	resp, err := w.prov.NewAccessResponse(ctx, ar)
	if err != nil {
		w.t.Fatalf("jwt mint response: %v", fosite.ErrorToRFC6749Error(err).WithExposeDebug(true).GetDescription())
	}
	return resp.GetAccessToken()
}

func (w *c06JWorld) stored() []string {
	var out []string
	for k := range w.store.AccessTokens {
		out = append(out, k)
	}
	sort.Strings(out)
	return out
}

func (w *c06JWorld) e2eCase(label, raw string) Case {
	f := c06JwtFacts(raw, w.k)
	stored := w.stored()
	impl := c06Guard(func() string {
		if _, _, err := w.prov.IntrospectToken(context.Background(), raw, fosite.AccessToken, w.session(time.Time{})); err != nil {
			return "inactive"
		}
		return ""
	})
	return Case{
		Coq:        fmt.Sprintf("KJwtE2E %s %s %s %s %s", QL(stored), Q(raw), w.k.coq, f.coq(), Q(impl)),
		Replay:     c06Replay{Kind: "jwt_e2e", Label: label, JKey: w.k.name, Raw: raw, Stored: stored, Impl: impl},
		NonTrivial: f.parse,
		Key:        "je|" + w.k.name + "|" + raw,
	}
}

func c06JwtE2E(t *testing.T, r *RNG, out *Out, k c06JKey) []string {
	w := newC06JWorld(t, k)
	a, b := w.mint(), w.mint()
	pa, pb := strings.Split(a, "."), strings.Split(b, ".")
	if len(pa) != 3 || len(pb) != 3 {
		t.Fatalf("minted JWT without three parts")
	}
	sigA, _ := c06raw.DecodeString(pa[2])
	hdr, _ := c06raw.DecodeString(pa[0])
	pay, _ := c06raw.DecodeString(pa[1])
	var hm map[string]interface{}
	json.Unmarshal(hdr, &hm)
	alg, _ := hm["alg"].(string)
	reh := func(newAlg string) string {
		m := map[string]interface{}{}
		for k, v := range hm {
			m[k] = v
		}
		m["alg"] = newAlg
		return c06raw.EncodeToString([]byte(c06J(m)))
	}
	altered := c06raw.EncodeToString([]byte(strings.Replace(string(pay), "peter", "admin", 1)))
	var pem []byte
	if k.rsaPub != nil {
		pem = c06PubPEM(k.rsaPub)
	} else {
		pem = c06PubPEM(k.ecPub)
	}
	hsIn := reh("HS256") + "." + altered
	hsSig, _ := c06Sign("HS256", pem, hsIn)
	foreignIn := pa[0] + "." + altered
	var fk interface{} = c06rsa2
	if k.ecPub != nil {
		fk = c06ec256b
	}
	fSig, _ := c06Sign(alg, fk, foreignIn)
	toks := []c06JTok{
		{"same", a}, {"same-2", b},
		{"flip-signature-bit", pa[0] + "." + pa[1] + "." + c06raw.EncodeToString(c06FlipBit(r, sigA))},
		{"alter-payload-keep-signature", pa[0] + "." + altered + "." + pa[2]},
		{"alter-header-keep-signature", reh(alg) + "." + pa[1] + "." + pa[2]},
		{"alg-none-keep-signature", reh("none") + "." + pa[1] + "." + pa[2]},
		{"alg-none-altered-keep-signature", reh("none") + "." + altered + "." + pa[2]},
		{"alg-none-drop-signature", reh("none") + "." + altered + "."},
		{"alg-HS256-keep-signature", reh("HS256") + "." + pa[1] + "." + pa[2]},
		{"alg-HS256-public-key-pem", hsIn + "." + c06raw.EncodeToString(hsSig)},
		{"resigned-foreign-key", foreignIn + "." + c06raw.EncodeToString(fSig)},
		{"payload-of-b-signature-of-a", pb[0] + "." + pb[1] + "." + pa[2]},
		{"payload-of-a-signature-of-b", pa[0] + "." + pa[1] + "." + pb[2]},
		{"whitespace-inside", pa[0] + " ." + pa[1] + "\n." + pa[2]},
		{"whitespace-after", a + "\n"},
		{"four-parts", a + "." + pa[2]},
		{"two-parts", pa[0] + "." + pa[1]},
		{"json-flattened", c06J(map[string]string{"protected": pa[0], "payload": pa[1], "signature": pa[2]})},
		{"noncanonical-signature", ""},
		{"opaque-token", "ory_at_AAAAAAAAAAAAAAAAAAAAAAAAAAAAAAAAAAAAAAAAAAA." + pa[2]},
		{"empty", ""},
	}
	if s2, ok := c06NonCanonical(r, pa[2], len(sigA)); ok {
		toks[18].raw = pa[0] + "." + pa[1] + "." + s2
	} else {
		toks[18].raw = a + "A"
	}
	for _, tk := range toks {
		out.Add(w.e2eCase(tk.label, tk.raw))
		out.Count("jwt-e2e")
	}
	return []string{a, b}
}

func c06JwtReplay(t *testing.T, out *Out, rp *c06Replay) {
	k, ok := c06JKeyByName(rp.JKey)
	if !ok {
		t.Fatalf("unknown jwt key %q", rp.JKey)
	}
	switch rp.Kind {
	case "jwt":
		out.Add(c06JwtCase(rp.Label, k, rp.Raw))
	case "jwt_gen":
		out.Add(c06JwtGenCase(k))
	case "jwt_e2e":
		// a store holding records under the recorded signatures
		w := newC06JWorld(t, k)
		for _, sig := range rp.Stored {
			req := fosite.NewRequest()
			req.Client = w.store.Clients["c0"]
			req.Session = w.session(time.Time{})
			if err := w.store.CreateAccessTokenSession(context.Background(), sig, req); err != nil {
				t.Fatal(err)
			}
		}
		out.Add(w.e2eCase(rp.Label, rp.Raw))
	}
}

func c06RunJwt(t *testing.T, e Env, r *RNG, out *Out) {
	thorough := e.Tier == "thorough"
	for _, k := range c06JKeys() {
		out.Add(c06JwtGenCase(k))
		out.Count("jwt-generate")
		for _, tk := range c06JwtCatalogue(r, k, thorough) {
			out.Add(c06JwtCase(tk.label, k, tk.raw))
			out.Count("jwt-validate")
		}
	}
	var jwts []string
	for _, name := range []string{"rsa", "ec256", "jwkptr-rsa-PS256"} {
		k, _ := c06JKeyByName(name)
		jwts = append(jwts, c06JwtE2E(t, r, out, k)...)
	}
	seen := map[string]bool{}
	for _, j := range jwts {
		seen[j] = true
	}
	out.Notes["jwt_minted_distinct"] = fmt.Sprintf("%d of %d", len(seen), len(jwts))
}
