package hx

// C20, second half: what reaches the storage interface.  A recording wrapper around the unmodified
// storage.MemoryStore logs every call (method, string arguments, form of the request object handed
// over); every flow is driven through the real endpoints of compose.ComposeAllEnabled with
// recognisable secrets injected (client secret, user password, S256 verifier, client assertion) and
// every complete code / token handed out is added to the list.  The Coq monitor searches the log
// for those strings.

import (
	"context"
	"fmt"
	"net/http"
	"net/http/httptest"
	"net/url"
	"sort"
	"strings"
	"testing"
	"time"

	jose "github.com/go-jose/go-jose/v3"

	"github.com/ory/fosite"
	"github.com/ory/fosite/compose"
	"github.com/ory/fosite/handler/openid"
	"github.com/ory/fosite/storage"
	"github.com/ory/fosite/token/jwt"
)

// ---------------------------------------------------------------- Request.Sanitize, function level

type c20SanReplay struct {
	Kind    string  `json:"kind"`
	Allowed []BS    `json:"allowed"`
	Form    []c20KV `json:"form"`
}

func c20SanitizeCase(rp *c20SanReplay) Case {
	rp.Kind = "sanitize"
	req := fosite.NewRequest()
	req.Form = kvValues(rp.Form)
	allowed := make([]string, len(rp.Allowed))
	for i, a := range rp.Allowed {
		allowed[i] = string(a)
	}
	var arg []string
	if len(allowed) > 0 {
		arg = append(arg, allowed...)
	}
	stored := req.Sanitize(arg).GetRequestForm()
	defaults := []string{"grant_type", "response_type", "scope", "client_id"}
	return Case{
		Coq:        fmt.Sprintf("KSan %s %s %s %s", QL(allowed), QL(defaults), c20Values(req.Form), c20Values(stored)),
		Replay:     rp,
		NonTrivial: len(req.Form) > 0,
		Key:        "san|" + strings.Join(allowed, ",") + "|" + req.Form.Encode(),
	}
}

func c20RandSanitize(r *RNG) *c20SanReplay {
	names := []string{"grant_type", "response_type", "scope", "client_id", "client_secret", "password", "code", "code_verifier",
		"client_assertion", "refresh_token", "redirect_uri", "nonce", "state", "Scope", "scope ", "", "code_challenge", "max_age", "device_code"}
	rp := &c20SanReplay{}
	for n := r.Intn(4); n > 0; n-- {
		rp.Allowed = append(rp.Allowed, BS(Pick(r, names)))
	}
	seen := map[string]bool{}
	for n := r.Intn(8); n > 0; n-- {
		k := Pick(r, names)
		if seen[k] {
			continue
		}
		seen[k] = true
		kv := c20KV{K: BS(k), V: bs(c20Text(r))}
		if r.Chance(15) {
			kv.V = append(kv.V, BS(c20Text(r)))
		}
		rp.Form = append(rp.Form, kv)
	}
	return rp
}

// ---------------------------------------------------------------- the recording store

type recCall struct {
	method string
	src    string
	keys   []string
	input  url.Values
	form   url.Values
	stores bool
}

type recStore struct {
	*storage.MemoryStore
	log   []recCall
	src   string
	input url.Values
}

func (s *recStore) begin(src string, form url.Values) {
	s.src = src
	s.input = url.Values{}
	for k, v := range form {
		s.input[k] = append([]string{}, v...)
	}
}

func (s *recStore) rec(method string, keys ...string) {
	s.log = append(s.log, recCall{method: method, src: s.src, keys: keys})
}

func (s *recStore) recReq(method string, req fosite.Requester, keys ...string) {
	form := url.Values{}
	if req != nil {
		for k, v := range req.GetRequestForm() {
			form[k] = append([]string{}, v...)
		}
	}
	in := url.Values{}
	for k, v := range s.input {
		in[k] = append([]string{}, v...)
	}
	s.log = append(s.log, recCall{method: method, src: s.src, keys: keys, input: in, form: form, stores: true})
}

func (s *recStore) CreateOpenIDConnectSession(ctx context.Context, code string, req fosite.Requester) error {
	s.recReq("CreateOpenIDConnectSession", req, code)
	return s.MemoryStore.CreateOpenIDConnectSession(ctx, code, req)
}
func (s *recStore) GetOpenIDConnectSession(ctx context.Context, code string, req fosite.Requester) (fosite.Requester, error) {
	s.rec("GetOpenIDConnectSession", code)
	return s.MemoryStore.GetOpenIDConnectSession(ctx, code, req)
}
func (s *recStore) DeleteOpenIDConnectSession(ctx context.Context, code string) error {
	s.rec("DeleteOpenIDConnectSession", code)
	return s.MemoryStore.DeleteOpenIDConnectSession(ctx, code)
}
func (s *recStore) GetClient(ctx context.Context, id string) (fosite.Client, error) {
	s.rec("GetClient", id)
	return s.MemoryStore.GetClient(ctx, id)
}
func (s *recStore) ClientAssertionJWTValid(ctx context.Context, jti string) error {
	s.rec("ClientAssertionJWTValid", jti)
	return s.MemoryStore.ClientAssertionJWTValid(ctx, jti)
}
func (s *recStore) SetClientAssertionJWT(ctx context.Context, jti string, exp time.Time) error {
	s.rec("SetClientAssertionJWT", jti)
	return s.MemoryStore.SetClientAssertionJWT(ctx, jti, exp)
}
func (s *recStore) CreateAuthorizeCodeSession(ctx context.Context, code string, req fosite.Requester) error {
	s.recReq("CreateAuthorizeCodeSession", req, code)
	return s.MemoryStore.CreateAuthorizeCodeSession(ctx, code, req)
}
func (s *recStore) GetAuthorizeCodeSession(ctx context.Context, code string, sess fosite.Session) (fosite.Requester, error) {
	s.rec("GetAuthorizeCodeSession", code)
	return s.MemoryStore.GetAuthorizeCodeSession(ctx, code, sess)
}
func (s *recStore) InvalidateAuthorizeCodeSession(ctx context.Context, code string) error {
	s.rec("InvalidateAuthorizeCodeSession", code)
	return s.MemoryStore.InvalidateAuthorizeCodeSession(ctx, code)
}
func (s *recStore) CreatePKCERequestSession(ctx context.Context, code string, req fosite.Requester) error {
	s.recReq("CreatePKCERequestSession", req, code)
	return s.MemoryStore.CreatePKCERequestSession(ctx, code, req)
}
func (s *recStore) GetPKCERequestSession(ctx context.Context, code string, sess fosite.Session) (fosite.Requester, error) {
	s.rec("GetPKCERequestSession", code)
	return s.MemoryStore.GetPKCERequestSession(ctx, code, sess)
}
func (s *recStore) DeletePKCERequestSession(ctx context.Context, code string) error {
	s.rec("DeletePKCERequestSession", code)
	return s.MemoryStore.DeletePKCERequestSession(ctx, code)
}
func (s *recStore) CreateAccessTokenSession(ctx context.Context, sig string, req fosite.Requester) error {
	s.recReq("CreateAccessTokenSession", req, sig)
	return s.MemoryStore.CreateAccessTokenSession(ctx, sig, req)
}
func (s *recStore) GetAccessTokenSession(ctx context.Context, sig string, sess fosite.Session) (fosite.Requester, error) {
	s.rec("GetAccessTokenSession", sig)
	return s.MemoryStore.GetAccessTokenSession(ctx, sig, sess)
}
func (s *recStore) DeleteAccessTokenSession(ctx context.Context, sig string) error {
	s.rec("DeleteAccessTokenSession", sig)
	return s.MemoryStore.DeleteAccessTokenSession(ctx, sig)
}
func (s *recStore) CreateRefreshTokenSession(ctx context.Context, sig, accessSig string, req fosite.Requester) error {
	s.recReq("CreateRefreshTokenSession", req, sig, accessSig)
	return s.MemoryStore.CreateRefreshTokenSession(ctx, sig, accessSig, req)
}
func (s *recStore) GetRefreshTokenSession(ctx context.Context, sig string, sess fosite.Session) (fosite.Requester, error) {
	s.rec("GetRefreshTokenSession", sig)
	return s.MemoryStore.GetRefreshTokenSession(ctx, sig, sess)
}
func (s *recStore) DeleteRefreshTokenSession(ctx context.Context, sig string) error {
	s.rec("DeleteRefreshTokenSession", sig)
	return s.MemoryStore.DeleteRefreshTokenSession(ctx, sig)
}
func (s *recStore) RotateRefreshToken(ctx context.Context, requestID string, sig string) error {
	s.rec("RotateRefreshToken", requestID, sig)
	return s.MemoryStore.RotateRefreshToken(ctx, requestID, sig)
}
func (s *recStore) Authenticate(ctx context.Context, name string, secret string) (string, error) {
	s.rec("Authenticate", name, secret)
	return s.MemoryStore.Authenticate(ctx, name, secret)
}
func (s *recStore) RevokeRefreshToken(ctx context.Context, requestID string) error {
	s.rec("RevokeRefreshToken", requestID)
	return s.MemoryStore.RevokeRefreshToken(ctx, requestID)
}
func (s *recStore) RevokeAccessToken(ctx context.Context, requestID string) error {
	s.rec("RevokeAccessToken", requestID)
	return s.MemoryStore.RevokeAccessToken(ctx, requestID)
}
func (s *recStore) GetPublicKey(ctx context.Context, issuer string, subject string, keyId string) (*jose.JSONWebKey, error) {
	s.rec("GetPublicKey", issuer, subject, keyId)
	return s.MemoryStore.GetPublicKey(ctx, issuer, subject, keyId)
}
func (s *recStore) GetPublicKeys(ctx context.Context, issuer string, subject string) (*jose.JSONWebKeySet, error) {
	s.rec("GetPublicKeys", issuer, subject)
	return s.MemoryStore.GetPublicKeys(ctx, issuer, subject)
}
func (s *recStore) GetPublicKeyScopes(ctx context.Context, issuer string, subject string, keyId string) ([]string, error) {
	s.rec("GetPublicKeyScopes", issuer, subject, keyId)
	return s.MemoryStore.GetPublicKeyScopes(ctx, issuer, subject, keyId)
}
func (s *recStore) IsJWTUsed(ctx context.Context, jti string) (bool, error) {
	s.rec("IsJWTUsed", jti)
	return s.MemoryStore.IsJWTUsed(ctx, jti)
}
func (s *recStore) MarkJWTUsedForTime(ctx context.Context, jti string, exp time.Time) error {
	s.rec("MarkJWTUsedForTime", jti)
	return s.MemoryStore.MarkJWTUsedForTime(ctx, jti, exp)
}
func (s *recStore) CreatePARSession(ctx context.Context, requestURI string, request fosite.AuthorizeRequester) error {
	s.recReq("CreatePARSession", request, requestURI)
	return s.MemoryStore.CreatePARSession(ctx, requestURI, request)
}
func (s *recStore) GetPARSession(ctx context.Context, requestURI string) (fosite.AuthorizeRequester, error) {
	s.rec("GetPARSession", requestURI)
	return s.MemoryStore.GetPARSession(ctx, requestURI)
}
func (s *recStore) DeletePARSession(ctx context.Context, requestURI string) error {
	s.rec("DeletePARSession", requestURI)
	return s.MemoryStore.DeletePARSession(ctx, requestURI)
}
func (s *recStore) CreateDeviceAuthSession(ctx context.Context, deviceSig, userSig string, req fosite.DeviceRequester) error {
	s.recReq("CreateDeviceAuthSession", req, deviceSig, userSig)
	return s.MemoryStore.CreateDeviceAuthSession(ctx, deviceSig, userSig, req)
}
func (s *recStore) GetDeviceCodeSession(ctx context.Context, sig string, sess fosite.Session) (fosite.DeviceRequester, error) {
	s.rec("GetDeviceCodeSession", sig)
	return s.MemoryStore.GetDeviceCodeSession(ctx, sig, sess)
}
func (s *recStore) InvalidateDeviceCodeSession(ctx context.Context, sig string) error {
	s.rec("InvalidateDeviceCodeSession", sig)
	return s.MemoryStore.InvalidateDeviceCodeSession(ctx, sig)
}

// ---------------------------------------------------------------- flows

type c20Flow struct {
	Kind         string   `json:"kind"` // "store"
	Flow         string   `json:"flow"` // code implicit hybrid password client_credentials device par
	Auth         string   `json:"auth"` // basic post jwt public
	Scopes       []string `json:"scopes"`
	PKCE         bool     `json:"pkce"`
	ResponseType string   `json:"response_type,omitempty"`
	Refresh      bool     `json:"refresh"`
	Revoke       bool     `json:"revoke"`
	Introspect   bool     `json:"introspect"`
	ReplayCode   bool     `json:"replay_code"`
	WrongSecret  bool     `json:"wrong_secret"` // a failing attempt first (wrong verifier / password / device code)
	Hostile      bool     `json:"hostile"`      // secret-named parameters smuggled into requests where they do not belong
	Tag          uint64   `json:"tag"`          // makes the secret values unique
	stepErrs     []string
}

type c20Secret struct{ kind, val string }

type c20World struct {
	t       *testing.T
	f       *c20Flow
	conf    *fosite.Config
	rec     *recStore
	prov    fosite.OAuth2Provider
	secrets []c20Secret
	errs    []string
	jti     int
}

const (
	c20Redirect = "https://app.example/cb"
	c20TokenURL = "https://as.example/token"
)

func (w *c20World) secret(kind, val string) string {
	if val != "" {
		w.secrets = append(w.secrets, c20Secret{kind, val})
	}
	return val
}

func (w *c20World) clientID() string {
	switch w.f.Auth {
	case "public":
		return "pub"
	case "jwt":
		return "cj"
	}
	return "cc"
}

func (w *c20World) clientSecret() string { return fmt.Sprintf("SECRET-client-%d-zz", w.f.Tag) }
func (w *c20World) password() string     { return fmt.Sprintf("SECRET-password-%d-zz", w.f.Tag) }
func (w *c20World) verifier() string {
	return fmt.Sprintf("SECRET-verifier-%d-0123456789abcdefghijklmnopqrstuvwxyz", w.f.Tag)
}

func c20Session() *openid.DefaultSession {
	now := time.Now().UTC()
	return &openid.DefaultSession{
		Claims:   &jwt.IDTokenClaims{Subject: "peter", Issuer: "https://as.example", RequestedAt: now, AuthTime: now},
		Headers:  &jwt.Headers{},
		Subject:  "peter",
		Username: "peter",
	}
}

func newC20World(t *testing.T, f *c20Flow) *c20World {
	w := &c20World{t: t, f: f}
	w.conf = &fosite.Config{
		GlobalSecret:                   []byte("0123456789abcdef0123456789abcdef-global"),
		TokenURL:                       c20TokenURL,
		DeviceVerificationURL:          "https://as.example/device",
		DeviceAuthTokenPollingInterval: -1,
		SendDebugMessagesToClients:     true,
		IDTokenIssuer:                  "https://as.example",
	}
	mem := storage.NewMemoryStore()
	grants := []string{"authorization_code", "implicit", "refresh_token", "password", "client_credentials", "urn:ietf:params:oauth:grant-type:device_code"}
	rts := []string{"code", "token", "id_token", "code token", "code id_token", "id_token token", "code id_token token"}
	scopes := []string{"openid", "offline", "fosite", "photos"}
	base := func(id string) *fosite.DefaultClient {
		return &fosite.DefaultClient{ID: id, RedirectURIs: []string{c20Redirect}, GrantTypes: grants, ResponseTypes: rts, Scopes: scopes}
	}
	cc := base("cc")
	cc.Secret = hashSecret(w.clientSecret())
	mem.Clients["cc"] = cc
	pub := base("pub")
	pub.Public = true
	mem.Clients["pub"] = pub
	key := theKey()
	cj := &fosite.DefaultOpenIDConnectClient{
		DefaultClient:                     base("cj"),
		JSONWebKeys:                       &jose.JSONWebKeySet{Keys: []jose.JSONWebKey{{Key: &key.PublicKey, KeyID: "kid-1", Algorithm: "RS256", Use: "sig"}}},
		TokenEndpointAuthMethod:           "private_key_jwt",
		TokenEndpointAuthSigningAlgorithm: "RS256",
	}
	mem.Clients["cj"] = cj
	mem.Users["peter"] = storage.MemoryUserRelation{Username: "peter", Password: w.password()}
	w.rec = &recStore{MemoryStore: mem}
	w.prov = compose.ComposeAllEnabled(w.conf, w.rec, key)
	return w
}

func (w *c20World) assertion() string {
	w.jti++
	tok := jwt.NewWithClaims(jose.RS256, jwt.MapClaims{
		"iss": "cj", "sub": "cj", "aud": c20TokenURL,
		"jti": fmt.Sprintf("jti-%d-%d", w.f.Tag, w.jti),
		"exp": time.Now().Add(time.Hour).Unix(), "iat": time.Now().Unix(),
	})
	tok.Header["kid"] = "kid-1"
	s, err := tok.SignedString(theKey())
	if err != nil {
		w.t.Fatalf("cannot sign client assertion: %v", err)
	}
	return w.secret("client_assertion", s)
}

// adds the client's credentials to a POST request
func (w *c20World) post(path string, form url.Values) *http.Request {
	basic := false
	switch w.f.Auth {
	case "basic":
		basic = true
	case "post":
		form.Set("client_id", "cc")
		form.Set("client_secret", w.secret("client_secret", w.clientSecret()))
	case "jwt":
		form.Set("client_assertion_type", "urn:ietf:params:oauth:client-assertion-type:jwt-bearer")
		form.Set("client_assertion", w.assertion())
	case "public":
		form.Set("client_id", "pub")
	}
	req := httptest.NewRequest("POST", path, strings.NewReader(form.Encode()))
	req.Header.Set("Content-Type", "application/x-www-form-urlencoded")
	if basic {
		req.SetBasicAuth(url.QueryEscape("cc"), url.QueryEscape(w.secret("client_secret", w.clientSecret())))
	}
	return req
}

func (w *c20World) note(step string, err error) bool {
	if err != nil {
		w.errs = append(w.errs, step+":"+fosite.ErrorToRFC6749Error(err).ErrorField)
		return false
	}
	return true
}

func (w *c20World) hostile(form url.Values) {
	if !w.f.Hostile {
		return
	}
	// secret-named parameters where they do not belong; the values are registered as secrets
	form.Set("password", w.secret("password", fmt.Sprintf("SECRET-smuggled-password-%d", w.f.Tag)))
	form.Set("code_verifier", w.secret("code_verifier", fmt.Sprintf("SECRET-smuggled-verifier-%d-0123456789abcdefghijklmnop", w.f.Tag)))
}

// authorization endpoint; returns the response parameters
func (w *c20World) authorize(q url.Values, merged url.Values) (fosite.AuthorizeResponder, bool) {
	ctx := context.Background()
	req := httptest.NewRequest("GET", "/auth?"+q.Encode(), nil)
	w.rec.begin("EAuthorize", merged)
	ar, err := w.prov.NewAuthorizeRequest(ctx, req)
	if !w.note("authorize-request", err) {
		return nil, false
	}
	for _, s := range ar.GetRequestedScopes() {
		ar.GrantScope(s)
	}
	resp, err := w.prov.NewAuthorizeResponse(ctx, ar, c20Session())
	if !w.note("authorize-response", err) {
		return nil, false
	}
	if c := resp.GetCode(); c != "" {
		w.secret("authorization_code", c)
	}
	if at := resp.GetParameters().Get("access_token"); at != "" {
		w.secret("access_token", at)
	}
	return resp, true
}

func (w *c20World) token(src string, form url.Values, grantAll bool) (fosite.AccessResponder, bool) {
	ctx := context.Background()
	req := w.post("/token", form)
	w.rec.begin(src, form)
	ar, err := w.prov.NewAccessRequest(ctx, req, c20Session())
	if !w.note("access-request", err) {
		return nil, false
	}
	if grantAll {
		for _, s := range ar.GetRequestedScopes() {
			ar.GrantScope(s)
		}
	}
	resp, err := w.prov.NewAccessResponse(ctx, ar)
	if !w.note("access-response", err) {
		return nil, false
	}
	w.secret("access_token", resp.GetAccessToken())
	if rt, ok := resp.GetExtra("refresh_token").(string); ok {
		w.secret("refresh_token", rt)
	}
	return resp, true
}

func (w *c20World) authorizeQuery() url.Values {
	q := url.Values{}
	q.Set("client_id", w.clientID())
	q.Set("response_type", w.f.ResponseType)
	q.Set("redirect_uri", c20Redirect)
	q.Set("scope", strings.Join(w.f.Scopes, " "))
	q.Set("state", "state-0123456789abcdef")
	q.Set("nonce", "nonce-0123456789abcdef")
	if w.f.PKCE {
		q.Set("code_challenge", s256(w.verifier()))
		q.Set("code_challenge_method", "S256")
	}
	return q
}

func (w *c20World) redeem(code string) (fosite.AccessResponder, bool) {
	form := url.Values{}
	form.Set("grant_type", "authorization_code")
	form.Set("code", code)
	form.Set("redirect_uri", c20Redirect)
	if w.f.PKCE {
		form.Set("code_verifier", w.secret("code_verifier", w.verifier()))
	}
	return w.token("ETokenCode", form, false)
}

func (w *c20World) followUps(resp fosite.AccessResponder) {
	ctx := context.Background()
	if resp == nil {
		return
	}
	at := resp.GetAccessToken()
	rt, _ := resp.GetExtra("refresh_token").(string)
	if w.f.Refresh && rt != "" {
		form := url.Values{}
		form.Set("grant_type", "refresh_token")
		form.Set("refresh_token", rt)
		if r2, ok := w.token("ETokenRefresh", form, false); ok {
			at = r2.GetAccessToken()
			rt, _ = r2.GetExtra("refresh_token").(string)
		}
	}
	if w.f.Introspect && w.f.Auth != "public" && w.f.Auth != "jwt" {
		for _, tok := range []string{at, rt} {
			if tok == "" {
				continue
			}
			form := url.Values{}
			form.Set("token", tok)
			req := httptest.NewRequest("POST", "/introspect", strings.NewReader(form.Encode()))
			req.Header.Set("Content-Type", "application/x-www-form-urlencoded")
			req.SetBasicAuth(url.QueryEscape("cc"), url.QueryEscape(w.secret("client_secret", w.clientSecret())))
			w.rec.begin("EIntrospect", form)
			_, err := w.prov.NewIntrospectionRequest(ctx, req, c20Session())
			w.note("introspect", err)
		}
	}
	if w.f.Revoke {
		for _, tok := range []string{rt, at} {
			if tok == "" {
				continue
			}
			form := url.Values{}
			form.Set("token", tok)
			req := w.post("/revoke", form)
			w.rec.begin("ERevoke", form)
			w.note("revoke", w.prov.NewRevocationRequest(ctx, req))
		}
	}
}

func (w *c20World) run() {
	ctx := context.Background()
	f := w.f
	switch f.Flow {
	case "code", "hybrid", "implicit", "par":
		q := w.authorizeQuery()
		merged := q
		if f.Flow == "par" {
			body := url.Values{}
			for k, v := range q {
				body[k] = v
			}
			w.hostile(body)
			req := w.post("/par", body)
			w.rec.begin("EPar", body)
			par, err := w.prov.NewPushedAuthorizeRequest(ctx, req)
			if !w.note("par-request", err) {
				return
			}
			presp, err := w.prov.NewPushedAuthorizeResponse(ctx, par, c20Session())
			if !w.note("par-response", err) {
				return
			}
			q = url.Values{}
			q.Set("client_id", w.clientID())
			q.Set("request_uri", presp.GetRequestURI())
			merged = url.Values{}
			for k, v := range q {
				merged[k] = v
			}
			for k, v := range body { // Request.Merge: the pushed form wins
				merged[k] = v
			}
		} else {
			w.hostile(q)
			if f.Hostile {
				q.Set("client_secret", w.secret("client_secret", w.clientSecret()))
			}
			merged = q
		}
		resp, ok := w.authorize(q, merged)
		if !ok {
			return
		}
		code := resp.GetCode()
		if code == "" {
			return
		}
		if f.WrongSecret && f.PKCE {
			form := url.Values{}
			form.Set("grant_type", "authorization_code")
			form.Set("code", code)
			form.Set("redirect_uri", c20Redirect)
			form.Set("code_verifier", w.secret("code_verifier", "SECRET-wrong-verifier-0123456789abcdefghijklmnopqrstuvwxyz"))
			w.token("ETokenCode", form, false)
		}
		tr, ok := w.redeem(code)
		if f.ReplayCode {
			w.redeem(code)
		}
		if ok {
			w.followUps(tr)
		}
	case "password":
		form := url.Values{}
		form.Set("grant_type", "password")
		form.Set("username", "peter")
		form.Set("scope", strings.Join(f.Scopes, " "))
		if f.WrongSecret {
			bad := url.Values{}
			for k, v := range form {
				bad[k] = v
			}
			bad.Set("password", w.secret("password", "SECRET-wrong-password-zz"))
			w.token("ETokenPassword", bad, true)
		}
		form.Set("password", w.secret("password", w.password()))
		if tr, ok := w.token("ETokenPassword", form, true); ok {
			w.followUps(tr)
		}
	case "client_credentials":
		form := url.Values{}
		form.Set("grant_type", "client_credentials")
		form.Set("scope", strings.Join(f.Scopes, " "))
		w.hostile(form)
		if tr, ok := w.token("ETokenClientCreds", form, true); ok {
			w.followUps(tr)
		}
	case "device":
		form := url.Values{}
		form.Set("client_id", w.clientID())
		form.Set("scope", strings.Join(f.Scopes, " "))
		w.hostile(form)
		req := w.post("/device_auth", form)
		w.rec.begin("EDeviceAuth", form)
		dreq, err := w.prov.NewDeviceRequest(ctx, req)
		if !w.note("device-request", err) {
			return
		}
		dresp, err := w.prov.NewDeviceResponse(ctx, dreq, c20Session())
		if !w.note("device-response", err) {
			return
		}
		dc := w.secret("device_code", dresp.GetDeviceCode())
		// the embedding application: the user approves; done on the underlying store, not part of the log
		sig, err := compose.NewDeviceStrategy(w.conf).DeviceCodeSignature(ctx, dc)
		if err != nil {
			w.t.Fatalf("device code signature: %v", err)
		}
		stored, err := w.rec.MemoryStore.GetDeviceCodeSession(ctx, sig, nil)
		if err != nil {
			// not stored under the signature: nothing to approve; the log already shows what was used as key
			w.errs = append(w.errs, "device-approve:session-not-under-signature")
		} else {
			for _, s := range stored.GetRequestedScopes() {
				stored.GrantScope(s)
			}
			stored.SetUserCodeState(fosite.UserCodeAccepted)
			for _, s := range f.Scopes {
				if s == "openid" {
					_ = w.rec.MemoryStore.CreateOpenIDConnectSession(ctx, sig, stored)
				}
			}
		}
		poll := func(code string) (fosite.AccessResponder, bool) {
			tf := url.Values{}
			tf.Set("grant_type", "urn:ietf:params:oauth:grant-type:device_code")
			tf.Set("device_code", code)
			if w.f.Auth == "basic" {
				tf.Set("client_id", "cc")
			}
			return w.token("ETokenDevice", tf, false)
		}
		if f.WrongSecret {
			poll(w.secret("device_code", "ory_dc_AAAAAAAAAAAAAAAAAAAAAAAAAAAAAAAAAAAAAAAAAAA.BBBBBBBBBBBBBBBBBBBBBBBBBBBBBBBBBBBBBBBBBBB"))
		}
		if tr, ok := poll(dc); ok {
			w.followUps(tr)
		}
	default:
		w.t.Fatalf("unknown flow %q", f.Flow)
	}
}

func c20EndpointCoq(src string) string { return src }

func c20StoreCase(t *testing.T, f *c20Flow) Case {
	f.Kind = "store"
	w := newC20World(t, f)
	w.run()
	// distinct secrets, longest first is irrelevant for the monitor; keep insertion order
	seen := map[string]bool{}
	var secs []string
	for _, s := range w.secrets {
		k := s.kind + "\x00" + s.val
		if seen[k] {
			continue
		}
		seen[k] = true
		secs = append(secs, fmt.Sprintf("mkSec %s %s", Q(s.kind), Q(s.val)))
	}
	calls := make([]string, len(w.rec.log))
	for i, c := range w.rec.log {
		form := "None"
		input := "[]"
		if c.stores {
			form = "(Some " + c20Values(c.form) + ")"
			input = c20Values(c.input)
		}
		calls[i] = fmt.Sprintf("mkCall %s %s %s %s %s", Q(c.method), c20EndpointCoq(c.src), QL(c.keys), input, form)
	}
	sort.Strings(w.errs)
	f.stepErrs = w.errs
	return Case{
		Coq:        fmt.Sprintf("KStore %s %s %s", Q(f.Flow), L(secs), L(calls)),
		Replay:     f,
		NonTrivial: len(w.rec.log) > 3,
		Key:        fmt.Sprintf("store|%s|%s|%v|%v|%s|%v%v%v%v%v%v|%d|%s", f.Flow, f.Auth, f.Scopes, f.PKCE, f.ResponseType, f.Refresh, f.Revoke, f.Introspect, f.ReplayCode, f.WrongSecret, f.Hostile, len(w.rec.log), strings.Join(w.errs, ",")),
	}
}

func c20FlowErrs(t *testing.T, f *c20Flow) []string {
	w := newC20World(t, f)
	w.run()
	return w.errs
}

func c20StoreCases(t *testing.T, e Env, r *RNG, out *Out) {
	flows := []string{"code", "hybrid", "implicit", "par", "password", "client_credentials", "device"}
	auths := []string{"basic", "post", "jwt", "public"}
	scopeSets := [][]string{{"openid", "offline", "fosite"}, {"fosite"}, {"offline", "photos"}, {"openid"}}
	n := 0
	add := func(f *c20Flow) {
		n++
		f.Tag = uint64(n)
		c := c20StoreCase(t, f)
		out.Add(c)
		out.Count("store-flow:" + f.Flow)
		out.Count("store-auth:" + f.Auth)
		for _, se := range f.stepErrs {
			out.Count("store-step-refused:" + se)
		}
		if len(f.stepErrs) == 0 {
			out.Count("store-all-steps-succeeded")
		}
	}
	mk := func(flow, auth string, scopes []string) *c20Flow {
		f := &c20Flow{Flow: flow, Auth: auth, Scopes: scopes, ResponseType: "code"}
		switch flow {
		case "implicit":
			f.ResponseType = Pick(r, []string{"token", "id_token token", "id_token"})
		case "hybrid":
			f.ResponseType = Pick(r, []string{"code token", "code id_token", "code id_token token"})
		}
		if (flow == "password" || flow == "client_credentials") && auth == "public" {
			f.Auth = "basic"
		}
		f.PKCE = r.Chance(60) || auth == "public"
		f.Refresh = r.Chance(60)
		f.Revoke = r.Chance(50)
		f.Introspect = r.Chance(50)
		f.ReplayCode = r.Chance(20)
		f.WrongSecret = r.Chance(25)
		f.Hostile = r.Chance(30)
		return f
	}
	// structured: every flow x every client authentication method x every scope set
	for _, flow := range flows {
		for _, auth := range auths {
			for _, sc := range scopeSets {
				add(mk(flow, auth, sc))
			}
		}
	}
	extra := 120
	if e.Tier == "thorough" {
		extra = 3000
	}
	for i := 0; i < extra; i++ {
		add(mk(Pick(r, flows), Pick(r, auths), Pick(r, scopeSets)))
	}
}
