package c19race

// TestLeaks: for every ordered pair (f, g) of methods of *storage.MemoryStore (including a method
// called twice with the same arguments) on a fresh, populated store: call f, probe, call g,
// probe.  The probe tries to take every mutex field of the store exclusively (TryLock through
// reflect/unsafe, the fields are unexported); a mutex that cannot be taken although no call is in
// progress was leaked by the call just made.  Every call runs under a watchdog: a call that does
// not return is reported as hung.  Sequential, deterministic, no race detector needed.

import (
	"fmt"
	"os"
	"reflect"
	"sort"
	"strings"
	"sync"
	"testing"
	"time"
	"unsafe"

	"github.com/ory/fosite/storage"
)

type tryLocker interface {
	TryLock() bool
	Unlock()
}

func storeMutexes(s *storage.MemoryStore) (names []string, mus map[string]tryLocker) {
	mus = map[string]tryLocker{}
	v := reflect.ValueOf(s).Elem()
	rw, mu := reflect.TypeOf(sync.RWMutex{}), reflect.TypeOf(sync.Mutex{})
	for i := 0; i < v.NumField(); i++ {
		f := v.Field(i)
		name := v.Type().Field(i).Name
		switch f.Type() {
		case rw:
			mus[name] = (*sync.RWMutex)(unsafe.Pointer(f.UnsafeAddr()))
		case mu:
			mus[name] = (*sync.Mutex)(unsafe.Pointer(f.UnsafeAddr()))
		default:
			continue
		}
		names = append(names, name)
	}
	sort.Strings(names)
	return
}

func heldMutexes(names []string, mus map[string]tryLocker) []string {
	var held []string
	for _, n := range names {
		if mus[n].TryLock() {
			mus[n].Unlock()
		} else {
			held = append(held, n)
		}
	}
	return held
}

// callWithWatchdog reports false when the call did not return in time
func callWithWatchdog(m reflect.Value, args []reflect.Value, d time.Duration) bool {
	done := make(chan struct{})
	go func() {
		defer func() { recover(); close(done) }()
		m.Call(args)
	}()
	select {
	case <-done:
		return true
	case <-time.After(d):
		return false
	}
}

func TestLeaks(t *testing.T) {
	if os.Getenv("C19R_LEAKS") == "" {
		t.Skip("C19R_LEAKS not set")
	}
	st := reflect.TypeOf(&storage.MemoryStore{})
	var methods []string
	for i := 0; i < st.NumMethod(); i++ {
		methods = append(methods, st.Method(i).Name)
	}
	only := os.Getenv("C19R_ONLY")
	seqs := 0
	reported := map[string]bool{}
	report := func(line string) {
		if !reported[line] {
			reported[line] = true
			mark("%s", line)
		}
	}
	for _, f := range methods {
		for _, g := range methods {
			if only != "" && !strings.Contains(","+only+",", ","+f+",") {
				continue
			}
			s := populated()
			names, mus := storeMutexes(s)
			if held := heldMutexes(names, mus); len(held) > 0 {
				report(fmt.Sprintf("LEAK setup %s", strings.Join(held, ",")))
				continue
			}
			v := reflect.ValueOf(s)
			seqs++
			for step, name := range []string{f, g} {
				m, _ := st.MethodByName(name)
				args, err := argsFor(m)
				if err != nil {
					t.Fatal(err)
				}
				if !callWithWatchdog(v.MethodByName(name), args, 2*time.Second) {
					report(fmt.Sprintf("HUNG %s in-sequence %s;%s step %d", name, f, g, step+1))
					break
				}
				if held := heldMutexes(names, mus); len(held) > 0 {
					report(fmt.Sprintf("LEAK %s %s in-sequence %s;%s step %d", name, strings.Join(held, ","), f, g, step+1))
					break
				}
			}
		}
	}
	mark("LEAKDONE %d sequences, %d methods, %d mutexes", seqs, len(methods), func() int { n, _ := storeMutexes(storage.NewMemoryStore()); return len(n) }())
}
