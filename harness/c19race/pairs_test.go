// Package c19race is built with `go test -race` by the C19 harness (harness/c19.go) and run as a
// child process.  TestPairs hammers pairs of methods of one storage.MemoryStore from two
// goroutines on overlapping keys; the race detector's reports, bracketed by the marker lines
// written here, are parsed by the parent.
package c19race

import (
	"context"
	"fmt"
	"os"
	"reflect"
	"strconv"
	"strings"
	"sync"
	"testing"
	"time"

	"github.com/go-jose/go-jose/v3"

	"github.com/ory/fosite"
	"github.com/ory/fosite/storage"
)

const key = "k"

func newReq() *fosite.Request {
	return &fosite.Request{ID: key, RequestedAt: time.Now(), Client: &fosite.DefaultClient{ID: key},
		Session: &fosite.DefaultSession{Subject: "sub"}}
}

var (
	tCtx     = reflect.TypeOf((*context.Context)(nil)).Elem()
	tReq     = reflect.TypeOf((*fosite.Requester)(nil)).Elem()
	tDevReq  = reflect.TypeOf((*fosite.DeviceRequester)(nil)).Elem()
	tAuthReq = reflect.TypeOf((*fosite.AuthorizeRequester)(nil)).Elem()
	tSess    = reflect.TypeOf((*fosite.Session)(nil)).Elem()
	tTime    = reflect.TypeOf(time.Time{})
	tLife    = reflect.TypeOf((*fosite.ClientLifespanConfig)(nil))
)

// argsFor builds one argument list for method m: every string is the same key, every request has
// the same id, so that all methods work on overlapping entries
func argsFor(m reflect.Method) ([]reflect.Value, error) {
	mt := m.Type
	var out []reflect.Value
	for i := 1; i < mt.NumIn(); i++ { // 0 = receiver
		t := mt.In(i)
		switch {
		case t == tCtx:
			out = append(out, reflect.ValueOf(context.Background()))
		case t.Kind() == reflect.String:
			out = append(out, reflect.ValueOf(key).Convert(t))
		case t == tTime:
			out = append(out, reflect.ValueOf(time.Now().Add(time.Hour)))
		case t == tSess:
			out = append(out, reflect.Zero(t))
		case t == tReq:
			out = append(out, reflect.ValueOf(newReq()).Convert(t))
		case t == tDevReq:
			out = append(out, reflect.ValueOf(&fosite.DeviceRequest{Request: *newReq()}).Convert(t))
		case t == tAuthReq:
			out = append(out, reflect.ValueOf(&fosite.AuthorizeRequest{Request: *newReq()}).Convert(t))
		case t == tLife:
			out = append(out, reflect.ValueOf(&fosite.ClientLifespanConfig{}))
		default:
			return nil, fmt.Errorf("method %s: no value for parameter %d of type %s", m.Name, i, t)
		}
	}
	return out, nil
}

func populated() *storage.MemoryStore {
	s := storage.NewMemoryStore()
	ctx := context.Background()
	s.Clients[key] = &fosite.DefaultClientWithCustomTokenLifespans{DefaultClient: &fosite.DefaultClient{ID: key}}
	s.Users[key] = storage.MemoryUserRelation{Username: key, Password: key}
	s.IssuerPublicKeys[key] = storage.IssuerPublicKeys{Issuer: key, KeysBySub: map[string]storage.SubjectPublicKeys{
		key: {Subject: key, Keys: map[string]storage.PublicKeyScopes{key: {Key: &jose.JSONWebKey{KeyID: key}, Scopes: []string{"a"}}}}}}
	// the remaining tables through the store's own methods (their records have unexported fields)
	v := reflect.ValueOf(s)
	for _, name := range []string{"CreateAuthorizeCodeSession", "CreateAccessTokenSession", "CreateRefreshTokenSession",
		"CreatePKCERequestSession", "CreateOpenIDConnectSession", "CreateDeviceAuthSession", "CreatePARSession", "SetClientAssertionJWT"} {
		if m, ok := v.Type().MethodByName(name); ok {
			if args, err := argsFor(m); err == nil {
				v.MethodByName(name).Call(args)
			}
		}
	}
	_ = ctx
	return s
}

func mark(format string, a ...any) {
	os.Stderr.WriteString(fmt.Sprintf("@@"+format+"\n", a...))
}

func TestPairs(t *testing.T) {
	list := os.Getenv("C19R_METHODS")
	if list == "" {
		t.Skip("C19R_METHODS not set")
	}
	names := strings.Split(list, ",")
	skip, _ := strconv.Atoi(os.Getenv("C19R_SKIP"))
	iters, _ := strconv.Atoi(os.Getenv("C19R_ITERS"))
	if iters <= 0 {
		iters = 30
	}
	stagger, _ := strconv.Atoi(os.Getenv("C19R_STAGGER_US"))
	st := reflect.TypeOf(&storage.MemoryStore{})
	idx := 0
	for i, f := range names {
		for _, g := range names[i:] {
			cur := idx
			idx++
			if cur < skip {
				continue
			}
			if skipM := "," + os.Getenv("C19R_SKIPMETHODS") + ","; strings.Contains(skipM, ","+f+",") || strings.Contains(skipM, ","+g+",") {
				mark("PAIR %d %s %s SKIPPED", cur, f, g)
				continue
			}
			mf, okf := st.MethodByName(f)
			mg, okg := st.MethodByName(g)
			if !okf || !okg {
				mark("PAIR %d %s %s NOMETHOD", cur, f, g)
				continue
			}
			s := populated()
			af, err1 := argsFor(mf)
			ag, err2 := argsFor(mg)
			if err1 != nil || err2 != nil {
				t.Fatalf("%v %v", err1, err2)
			}
			v := reflect.ValueOf(s)
			cf, cg := v.MethodByName(f), v.MethodByName(g)
			mark("PAIR %d %s %s BEGIN", cur, f, g)
			var wg sync.WaitGroup
			start := make(chan struct{})
			wg.Add(2)
			go func() {
				defer wg.Done()
				<-start
				for k := 0; k < iters; k++ {
					cf.Call(af)
				}
			}()
			go func() {
				defer wg.Done()
				<-start
				// no synchronisation with the other goroutine: the detector sees two unordered
				// accesses even when they do not overlap in time (which would make the runtime
				// abort with "concurrent map writes")
				if stagger > 0 {
					time.Sleep(time.Duration(stagger) * time.Microsecond)
				}
				for k := 0; k < iters; k++ {
					cg.Call(ag)
				}
			}()
			close(start)
			fin := make(chan struct{})
			go func() { wg.Wait(); close(fin) }()
			select {
			case <-fin:
				mark("PAIR %d %s %s END", cur, f, g)
			case <-time.After(2 * time.Second):
				// a leaked or cyclically acquired mutex: the goroutines stay blocked, go on
				mark("PAIR %d %s %s HUNG", cur, f, g)
			}
		}
	}
	mark("DONE %d", idx)
}
