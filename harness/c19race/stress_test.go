package c19race

// TestStress: free-running load on ONE provider (compose.ComposeAllEnabled) over ONE
// storage.MemoryStore from many goroutines, under the race detector.  After the sequential
// set-up there is no synchronisation between the goroutines other than the library's own, so
// every happens-before edge the detector sees comes from fosite.  C19R_CONFIG selects a
// default-constructed configuration (only the global secret) or a fully populated one.
// This is search: a clean run proves nothing.

import (
	"context"
	"crypto/rand"
	"crypto/rsa"
	"fmt"
	"net/http"
	"net/http/httptest"
	"net/url"
	"os"
	"strconv"
	"strings"
	"sync"
	"sync/atomic"
	"testing"
	"time"

	"github.com/ory/fosite"
	"github.com/ory/fosite/compose"
	"github.com/ory/fosite/handler/openid"
	"github.com/ory/fosite/storage"
	"github.com/ory/fosite/token/jwt"
)

var stressOpenID = os.Getenv("C19R_OPENID") == "1"

func stressSession() fosite.Session {
	if !stressOpenID {
		return &fosite.DefaultSession{Subject: "peter", Username: "peter"}
	}
	return &openid.DefaultSession{
		Claims:  &jwt.IDTokenClaims{Subject: "peter", Issuer: "https://as.example", AuthTime: time.Now().UTC(), RequestedAt: time.Now().UTC()},
		Headers: &jwt.Headers{},
		Subject: "peter",
	}
}

const redirect = "https://app.example/cb"

type stressWorld struct {
	prov  fosite.OAuth2Provider
	store *storage.MemoryStore
}

func newStressWorld(config string, key *rsa.PrivateKey) *stressWorld {
	secret := []byte("0123456789abcdef0123456789abcdef-global")
	var conf *fosite.Config
	if config == "default" {
		conf = &fosite.Config{GlobalSecret: secret}
	} else {
		conf = &fosite.Config{
			GlobalSecret: secret, AuthorizeCodeLifespan: 10 * time.Minute, AccessTokenLifespan: time.Hour,
			RefreshTokenLifespan: 24 * time.Hour, IDTokenLifespan: time.Hour, VerifiableCredentialsNonceLifespan: time.Hour,
			DeviceAndUserCodeLifespan: 10 * time.Minute, DeviceAuthTokenPollingInterval: 5 * time.Second,
			UserCodeLength: 8, UserCodeSymbols: []rune("BCDFGHJKLMNPQRSTVWXZ"),
			ScopeStrategy: fosite.WildcardScopeStrategy, AudienceMatchingStrategy: fosite.DefaultAudienceMatchingStrategy,
			RefreshTokenScopes: []string{"offline"}, TokenURL: "https://as.example/token", IDTokenIssuer: "https://as.example",
			HashCost: 4, TokenEntropy: 32, MinParameterEntropy: 8, RedirectSecureChecker: fosite.IsRedirectURISecure,
			GrantTypeJWTBearerMaxDuration: time.Hour, PushedAuthorizeRequestURIPrefix: "urn:ietf:params:oauth:request_uri:",
			PushedAuthorizeContextLifespan: 5 * time.Minute, HTTPClient: nil,
			JWKSFetcherStrategy: fosite.NewDefaultJWKSFetcherStrategy(),
		}
		conf.ClientSecretsHasher = &fosite.BCrypt{Config: conf}
	}
	st := storage.NewMemoryStore()
	st.Clients["c0"] = &fosite.DefaultClient{ID: "c0", Public: true, RedirectURIs: []string{redirect},
		GrantTypes:    []string{"authorization_code", "refresh_token", "implicit", "urn:ietf:params:oauth:grant-type:device_code"},
		ResponseTypes: []string{"code", "token", "id_token", "code token", "code id_token", "id_token token", "code id_token token"},
		Scopes:        []string{"offline", "openid", "photos"}, Audience: []string{}}
	return &stressWorld{prov: compose.ComposeAllEnabled(conf, st, key), store: st}
}

func (w *stressWorld) post(path string, form url.Values) *http.Request {
	form.Set("client_id", "c0")
	r := httptest.NewRequest("POST", path, strings.NewReader(form.Encode()))
	r.Header.Set("Content-Type", "application/x-www-form-urlencoded")
	return r
}

func (w *stressWorld) authorize(ctx context.Context, scopes string) string {
	q := url.Values{}
	q.Set("client_id", "c0")
	q.Set("response_type", "code")
	q.Set("state", "state-0123456789")
	q.Set("nonce", "nonce-0123456789")
	q.Set("redirect_uri", redirect)
	q.Set("scope", scopes)
	ar, err := w.prov.NewAuthorizeRequest(ctx, httptest.NewRequest("GET", "/auth?"+q.Encode(), nil))
	if err != nil {
		w.prov.WriteAuthorizeError(ctx, httptest.NewRecorder(), ar, err)
		return ""
	}
	for _, s := range ar.GetRequestedScopes() {
		ar.GrantScope(s)
	}
	resp, err := w.prov.NewAuthorizeResponse(ctx, ar, stressSession())
	if err != nil {
		w.prov.WriteAuthorizeError(ctx, httptest.NewRecorder(), ar, err)
		return ""
	}
	w.prov.WriteAuthorizeResponse(ctx, httptest.NewRecorder(), ar, resp)
	return resp.GetCode()
}

func (w *stressWorld) token(ctx context.Context, form url.Values) (at, rt string) {
	ar, err := w.prov.NewAccessRequest(ctx, w.post("/token", form), stressSession())
	if err != nil {
		w.prov.WriteAccessError(ctx, httptest.NewRecorder(), ar, err)
		return "", ""
	}
	resp, err := w.prov.NewAccessResponse(ctx, ar)
	if err != nil {
		w.prov.WriteAccessError(ctx, httptest.NewRecorder(), ar, err)
		return "", ""
	}
	w.prov.WriteAccessResponse(ctx, httptest.NewRecorder(), ar, resp)
	rt, _ = resp.GetExtra("refresh_token").(string)
	return resp.GetAccessToken(), rt
}

func (w *stressWorld) redeem(ctx context.Context, code string) (string, string) {
	f := url.Values{}
	f.Set("grant_type", "authorization_code")
	f.Set("code", code)
	f.Set("redirect_uri", redirect)
	return w.token(ctx, f)
}

func (w *stressWorld) refresh(ctx context.Context, rt string) (string, string) {
	f := url.Values{}
	f.Set("grant_type", "refresh_token")
	f.Set("refresh_token", rt)
	return w.token(ctx, f)
}

func (w *stressWorld) revoke(ctx context.Context, tok string) {
	f := url.Values{}
	f.Set("token", tok)
	err := w.prov.NewRevocationRequest(ctx, w.post("/revoke", f))
	w.prov.WriteRevocationResponse(ctx, httptest.NewRecorder(), err)
}

func (w *stressWorld) introspect(ctx context.Context, tok string, use fosite.TokenUse) {
	_, _, _ = w.prov.IntrospectToken(ctx, tok, use, stressSession())
}

func TestStress(t *testing.T) {
	config := os.Getenv("C19R_CONFIG")
	if config == "" {
		t.Skip("C19R_CONFIG not set")
	}
	gor, _ := strconv.Atoi(os.Getenv("C19R_GOROUTINES"))
	iters, _ := strconv.Atoi(os.Getenv("C19R_ITERS"))
	if gor <= 0 {
		gor = 8
	}
	if iters <= 0 {
		iters = 24
	}
	key, err := rsa.GenerateKey(rand.Reader, 2048)
	if err != nil {
		t.Fatal(err)
	}
	w := newStressWorld(config, key)
	ctx := context.Background()
	scopes := "offline photos"
	if os.Getenv("C19R_OPENID") == "1" {
		scopes = "offline openid photos"
	}
	// sequential set-up: K grants with tokens, K unredeemed codes
	const K = 6
	var ats, rts, codes []string
	if os.Getenv("C19R_COLD") != "1" { // cold start: the very first requests of the provider run concurrently
		for i := 0; i < K; i++ {
			at, rt := w.redeem(ctx, w.authorize(ctx, scopes))
			if at == "" || rt == "" {
				t.Fatalf("set-up failed")
			}
			ats, rts = append(ats, at), append(rts, rt)
			codes = append(codes, w.authorize(ctx, scopes))
		}
	}
	mark("STRESS %s BEGIN", config)
	var wg sync.WaitGroup
	var requests, panics int64
	start := make(chan struct{})
	for g := 0; g < gor; g++ {
		wg.Add(1)
		go func(g int) {
			defer wg.Done()
			defer func() {
				if p := recover(); p != nil {
					atomic.AddInt64(&panics, 1)
					mark("PANIC %v", p)
				}
			}()
			<-start
			myRT := ""
			for i := 0; i < iters; i++ {
				atomic.AddInt64(&requests, 1)
				if len(ats) == 0 {
					// cold start
					at, rt := w.redeem(ctx, w.authorize(ctx, scopes))
					w.introspect(ctx, at, fosite.AccessToken)
					_, _ = w.refresh(ctx, rt)
					w.authorize(ctx, "scope-the-client-may-not-request")
					w.redeem(ctx, "ory_ac_no-such-code.no-such-signature")
					continue
				}
				j := (i*3 + g) % K
				switch (g + i) % 7 {
				case 0:
					w.introspect(ctx, ats[j], fosite.AccessToken)
				case 1:
					rt := rts[j]
					if myRT != "" && i%2 == 0 {
						rt = myRT
					}
					if _, n := w.refresh(ctx, rt); n != "" {
						myRT = n
					}
				case 2:
					w.revoke(ctx, ats[j])
				case 3:
					w.redeem(ctx, codes[j])
				case 4:
					if i%2 == 0 {
						w.authorize(ctx, scopes)
					} else {
						w.authorize(ctx, "scope-the-client-may-not-request") // error path: WriteAuthorizeError
					}
				case 5:
					w.introspect(ctx, rts[j], fosite.RefreshToken)
				case 6:
					w.revoke(ctx, rts[(j+1)%K])
				}
			}
		}(g)
	}
	close(start)
	wd, _ := strconv.Atoi(os.Getenv("C19R_WATCHDOG_S"))
	if wd <= 0 {
		wd = 60
	}
	doneCh := make(chan struct{})
	go func() { wg.Wait(); close(doneCh) }()
	select {
	case <-doneCh:
	case <-time.After(time.Duration(wd) * time.Second):
		mark("DEADLOCK the requests did not finish within %d s", wd)
		t.Fatalf("watchdog")
	}
	mark("STRESS %s END requests=%d panics=%d", config, requests, panics)
	fmt.Fprintln(os.Stderr, "")
}
