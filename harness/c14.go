package hx

// C14 — ID Tokens are bound to the right client, user, nonce and tokens.
//
// Streams (all randomness from NewRNG(seed)):
//   flow    one provider (compose.ComposeAllEnabled over storage.NewMemoryStore) per mini-history:
//           authorization request (code / implicit / hybrid, every response-type set) -> code
//           redemption -> refresh (-> refresh), under the virtual clock; one case per step.
//   device  device authorization + approval by the "application" + token poll.
//   gen     direct calls of openid.DefaultStrategy.GenerateIDToken with wide inputs.
//   val     direct calls of OpenIDConnectRequestValidator.ValidatePrompt.
//   src     the oidcParameters white-list read from the Go source with go/parser.
// Every ID token that comes back is parsed and verified independently (go-jose + the public key),
// at_hash / c_hash are recomputed with crypto/sha256|512 over every token of the mini-history.

import (
	"context"
	"crypto/ecdsa"
	"crypto/elliptic"
	"crypto/rand"
	"crypto/rsa"
	"crypto/sha256"
	"crypto/sha512"
	"encoding/base64"
	"encoding/json"
	"fmt"
	"go/ast"
	"go/parser"
	"go/token"
	"hash"
	"net/http"
	"net/http/httptest"
	"net/url"
	"os"
	"path/filepath"
	"sort"
	"strconv"
	"strings"
	"sync"
	"testing"
	"testing/synctest"
	"time"

	"github.com/go-jose/go-jose/v3"

	"github.com/ory/fosite"
	"github.com/ory/fosite/compose"
	"github.com/ory/fosite/handler/openid"
	"github.com/ory/fosite/storage"
	"github.com/ory/fosite/token/jwt"
)

// ---------------------------------------------------------------- replay records

type c14Cfg struct {
	Key     int      `json:"key"` // index into c14KeyCfgs
	Iss     string   `json:"iss"`
	Entropy int      `json:"entropy"` // 0 = library default (8)
	Life    int64    `json:"life_s"`  // 0 = library default (3600)
	Prompts []string `json:"prompts,omitempty"`
}

type c14Client struct {
	Public       bool     `json:"public"`
	Grants       []string `json:"grants"`
	LifeCode     *int64   `json:"life_code,omitempty"`
	LifeImplicit *int64   `json:"life_implicit,omitempty"`
	LifeRefresh  *int64   `json:"life_refresh,omitempty"`
	Insecure     bool     `json:"insecure_redirect,omitempty"`
}

// times are offsets (seconds) from the instant the session is created; nil = zero time
type c14Sess struct {
	Sub     string      `json:"sub"`
	Iss     string      `json:"iss,omitempty"`
	Aud     []string    `json:"aud,omitempty"`
	Nonce   string      `json:"nonce,omitempty"`
	Exp     *int64      `json:"exp,omitempty"`
	Rat     *int64      `json:"rat,omitempty"`
	Auth    *int64      `json:"auth,omitempty"`
	Acr     string      `json:"acr,omitempty"`
	Extra   [][2]string `json:"extra,omitempty"`
	HdrAlg  *string     `json:"hdr_alg,omitempty"`
	HdrInt  bool        `json:"hdr_alg_not_string,omitempty"`
	AtHash  string      `json:"at_hash,omitempty"`
	CHash   string      `json:"c_hash,omitempty"`
}

type c14Hint struct {
	Kind string `json:"kind"` // "" ok expired nosub subint foreign malformed expired_foreign expired_iatfuture notyet
	Sub  string `json:"sub,omitempty"`
}

type c14Auth struct {
	RTs          []string `json:"response_types"`
	Scopes       []string `json:"scopes"`
	Granted      []string `json:"granted"`
	Nonce        string   `json:"nonce,omitempty"`
	Prompt       string   `json:"prompt,omitempty"`
	MaxAge       string   `json:"max_age,omitempty"`
	AcrValues    string   `json:"acr_values,omitempty"`
	Hint         c14Hint  `json:"hint"`
	OmitRedirect bool     `json:"omit_redirect,omitempty"`
	GrantType    string   `json:"grant_type_param,omitempty"` // smuggled into the authorization request
}

type c14Step struct {
	Kind    string `json:"kind"` // advance redeem refresh
	Secs    int64  `json:"secs,omitempty"`
	Nonce   string `json:"nonce,omitempty"`  // smuggled into the refresh request
	Prompt  string `json:"prompt,omitempty"` // smuggled into the refresh request
	MaxAge  string `json:"max_age,omitempty"`
	Foreign bool   `json:"foreign_client,omitempty"`
}

type c14Flow struct {
	Stream string     `json:"stream"` // flow device gen val src
	Emit   int        `json:"emit"`   // index of the step this record stands for (0 = authorization)
	Cfg    c14Cfg     `json:"cfg"`
	Client c14Client  `json:"client"`
	Sess   c14Sess    `json:"session"`
	Auth   c14Auth    `json:"auth"`
	Steps  []c14Step  `json:"steps,omitempty"`
	Gen    *c14GenRec `json:"gen,omitempty"`
	Dev    *c14DevRec `json:"device,omitempty"`
}

type c14GenRec struct {
	Life      int64  `json:"lifespan_s"`
	GrantType string `json:"grant_type"`
}

type c14DevRec struct {
	StoreOIDC   bool     `json:"store_oidc_session"`
	Granted     []string `json:"granted"`
	Nonce       string   `json:"nonce,omitempty"`
	Prompt      string   `json:"prompt,omitempty"`
	MaxAge      string   `json:"max_age,omitempty"`
	AdvanceSecs int64    `json:"advance,omitempty"`
}

// ---------------------------------------------------------------- keys

type c14KeyCfg struct {
	Name string // Coq term
	Alg  string
	Kind string // rsa p256 p384 p521
	JWK  bool
}

var c14KeyCfgs = []c14KeyCfg{
	{"KRawRSA", "RS256", "rsa", false},
	{"KRawEC", "ES256", "p256", false},
	{`(KJwk "RS256")`, "RS256", "rsa", true},
	{`(KJwk "RS384")`, "RS384", "rsa", true},
	{`(KJwk "RS512")`, "RS512", "rsa", true},
	{`(KJwk "PS256")`, "PS256", "rsa", true},
	{`(KJwk "ES256")`, "ES256", "p256", true},
	{`(KJwk "ES384")`, "ES384", "p384", true},
	{`(KJwk "ES512")`, "ES512", "p521", true},
}

var (
	c14KeyOnce sync.Once
	c14RSA     [2]*rsa.PrivateKey
	c14EC      map[string][2]*ecdsa.PrivateKey
)

func c14Keys() {
	c14KeyOnce.Do(func() {
		for i := range c14RSA {
			k, err := rsa.GenerateKey(rand.Reader, 2048)
			if err != nil {
				panic(err)
			}
			c14RSA[i] = k
		}
		c14EC = map[string][2]*ecdsa.PrivateKey{}
		for name, curve := range map[string]elliptic.Curve{"p256": elliptic.P256(), "p384": elliptic.P384(), "p521": elliptic.P521()} {
			var pair [2]*ecdsa.PrivateKey
			for i := range pair {
				k, err := ecdsa.GenerateKey(curve, rand.Reader)
				if err != nil {
					panic(err)
				}
				pair[i] = k
			}
			c14EC[name] = pair
		}
	})
}

// raw private key of a key configuration; which = 0 the server's, 1 a foreign one of the same type
func c14Raw(kc c14KeyCfg, which int) any {
	c14Keys()
	if kc.Kind == "rsa" {
		return c14RSA[which]
	}
	return c14EC[kc.Kind][which]
}

func c14ServerKey(kc c14KeyCfg) any {
	raw := c14Raw(kc, 0)
	if kc.JWK {
		return &jose.JSONWebKey{Key: raw, Algorithm: kc.Alg, KeyID: "kid-1", Use: "sig"}
	}
	return raw
}

func c14Public(kc c14KeyCfg) any {
	switch k := c14Raw(kc, 0).(type) {
	case *rsa.PrivateKey:
		return &k.PublicKey
	case *ecdsa.PrivateKey:
		return &k.PublicKey
	}
	return nil
}

// ---------------------------------------------------------------- token table and hashes

type c14Table struct{ toks []string }

func (tb *c14Table) add(tok string) int {
	tb.toks = append(tb.toks, tok)
	return len(tb.toks) - 1
}

func c14Half(h hash.Hash, s string) string {
	h.Write([]byte(s))
	sum := h.Sum(nil)
	return base64.RawURLEncoding.EncodeToString(sum[:len(sum)/2])
}

// classify a hash claim against every token of the mini-history and the three SHA-2 functions
func (tb *c14Table) classify(v string) string {
	if v == "" {
		return "HNone"
	}
	for i, tok := range tb.toks {
		if c14Half(sha256.New(), tok) == v {
			return fmt.Sprintf("(HOf SHA256 %d)", i)
		}
		if c14Half(sha512.New384(), tok) == v {
			return fmt.Sprintf("(HOf SHA384 %d)", i)
		}
		if c14Half(sha512.New(), tok) == v {
			return fmt.Sprintf("(HOf SHA512 %d)", i)
		}
	}
	return "HOther"
}

// ---------------------------------------------------------------- Coq printers

const c14Epoch = 946684800 // 2000-01-01T00:00:00Z, where the synctest clock starts

func c14OZ(p *int64) string {
	if p == nil {
		return "None"
	}
	return "(Sz " + c14Z(*p) + ")"
}

func c14Z(n int64) string {
	if n < 0 {
		return fmt.Sprintf("(%d)", n)
	}
	return fmt.Sprintf("%d", n)
}

func c14Time(t time.Time) *int64 {
	if t.IsZero() {
		return nil
	}
	v := t.Unix() - c14Epoch
	return &v
}

func c14Pairs(p [][2]string) string {
	parts := make([]string, len(p))
	for i, kv := range p {
		parts[i] = "(" + Q(kv[0]) + ", " + Q(kv[1]) + ")"
	}
	return L(parts)
}

func c14OptS(p *string) string {
	if p == nil {
		return "None"
	}
	return "(Some " + Q(*p) + ")"
}

func c14OptZ64(p *int64) string {
	if p == nil {
		return "None"
	}
	return "(Sz " + c14Z(*p) + ")"
}

func (c *c14Cfg) coq() string {
	ent := c.Entropy
	if ent == 0 {
		ent = fosite.MinParameterEntropy
	}
	life := c.Life
	if life == 0 {
		life = 3600
	}
	return fmt.Sprintf("(mkConfig %s %s %d %s %s)", c14KeyCfgs[c.Key].Name, Q(c.Iss), ent, c14Z(life), QL(c.Prompts))
}

func (c *c14Client) coq(id string) string {
	return fmt.Sprintf("(mkClient %s %s %s %s %s %s)", Q(id), B(c.Public), QL(c.Grants), c14OptZ64(c.LifeCode), c14OptZ64(c.LifeImplicit), c14OptZ64(c.LifeRefresh))
}

// snapshot of jwt.IDTokenClaims as the model's [claims]
func c14Claims(cl *jwt.IDTokenClaims, tb *c14Table) string {
	if cl == nil {
		cl = &jwt.IDTokenClaims{}
	}
	keys := make([]string, 0, len(cl.Extra))
	for k := range cl.Extra {
		keys = append(keys, k)
	}
	sort.Strings(keys)
	ex := make([][2]string, len(keys))
	for i, k := range keys {
		ex[i] = [2]string{k, c14Render(cl.Extra[k])}
	}
	return fmt.Sprintf("(mkClaims %s %s %s %s %s %s %s %s %s %s %s %s %s)",
		Q(cl.Subject), Q(cl.Issuer), QL(cl.Audience), Q(cl.Nonce),
		c14OZ(c14Time(cl.ExpiresAt)), c14OZ(c14Time(cl.IssuedAt)), c14OZ(c14Time(cl.RequestedAt)), c14OZ(c14Time(cl.AuthTime)),
		tb.classify(cl.AccessTokenHash), tb.classify(cl.CodeHash), Q(cl.AuthenticationContextClassReference), B(cl.JTI != ""),
		c14Pairs(ex))
}

func c14Render(v any) string {
	if s, ok := v.(string); ok {
		return s
	}
	b, _ := json.Marshal(v)
	return string(b)
}

func c14Hdr(h *jwt.Headers) string {
	if h == nil {
		return "(mkHdr None None)"
	}
	alg, ok := h.Extra["alg"].(string)
	if !ok {
		return "(mkHdr None None)"
	}
	num := "None"
	if len(alg) > 2 {
		if n, err := strconv.Atoi(alg[2:]); err == nil {
			num = "(Sz " + c14Z(int64(n)) + ")"
		}
	}
	return fmt.Sprintf("(mkHdr (Some %s) %s)", Q(alg), num)
}

var c14Err = map[string]string{
	"server_error": "EServerError", "insufficient_entropy": "EInsufficientEntropy", "login_required": "ELoginRequired",
	"invalid_request": "EInvalidRequest", "consent_required": "EConsentRequired", "invalid_grant": "EInvalidGrant",
	"invalid_scope": "EInvalidScope", "unauthorized_client": "EUnauthorizedClient", "misconfiguration": "EMisconfiguration",
	"unsupported_response_type": "EUnsupportedResponseType",
}

func c14ErrCoq(err error) string {
	if err == nil {
		return "None"
	}
	name := fosite.ErrorToRFC6749Error(err).ErrorField
	if c, ok := c14Err[name]; ok {
		return "(Some " + c + ")"
	}
	return "(Some EOther)"
}

func c14Form(f url.Values, keys []string) string {
	var p [][2]string
	for _, k := range keys {
		if vs, ok := f[k]; ok && len(vs) > 0 {
			p = append(p, [2]string{k, vs[0]})
		}
	}
	return c14Pairs(p)
}

var c14FormKeys = []string{"grant_type", "max_age", "prompt", "acr_values", "id_token_hint", "nonce", "redirect_uri"}

func c14MaxAge(s string) int64 {
	n, err := strconv.ParseInt(s, 10, 64)
	if err != nil {
		return 0
	}
	return n
}

// classification of the hint [elapsed] seconds after it was minted (exp = +3600, nbf of "notyet" = +500)
func (h *c14Hint) coqAt(elapsed int64) string {
	k := *h
	if k.Kind == "notyet" && elapsed >= 500 {
		k.Kind = "ok"
	}
	if k.Kind == "ok" && elapsed > 3600 {
		k.Kind = "expired"
	}
	if (k.Kind == "nosub" || k.Kind == "subint") && elapsed > 3600 {
		return `(HintExpired "")`
	}
	return k.coq()
}

func (h *c14Hint) coq() string {
	switch h.Kind {
	case "":
		return "HintAbsent"
	case "ok":
		return "(HintOk " + Q(h.Sub) + ")"
	case "expired", "expired_iatfuture":
		return "(HintExpired " + Q(h.Sub) + ")"
	case "nosub", "subint":
		return `(HintOk "")`
	}
	return "HintBad"
}

// ---------------------------------------------------------------- id_token_hint construction

func c14Sign(kc c14KeyCfg, which int, claims map[string]any) string {
	signer, err := jose.NewSigner(jose.SigningKey{Algorithm: jose.SignatureAlgorithm(kc.Alg), Key: c14Raw(kc, which)}, (&jose.SignerOptions{}).WithType("JWT"))
	if err != nil {
		panic(err)
	}
	b, _ := json.Marshal(claims)
	obj, err := signer.Sign(b)
	if err != nil {
		panic(err)
	}
	s, err := obj.CompactSerialize()
	if err != nil {
		panic(err)
	}
	return s
}

func c14HintToken(kc c14KeyCfg, h c14Hint, iss string) string {
	now := time.Now().Unix()
	cl := map[string]any{"iss": iss, "aud": []string{"c0"}, "iat": now - 100, "exp": now + 3600, "sub": h.Sub}
	which := 0
	switch h.Kind {
	case "":
		return ""
	case "ok":
	case "expired":
		cl["exp"] = now - 50
	case "expired_iatfuture":
		cl["exp"] = now - 50
		cl["iat"] = now + 500
	case "notyet":
		cl["nbf"] = now + 500
	case "nosub":
		delete(cl, "sub")
	case "subint":
		cl["sub"] = 5
	case "foreign":
		which = 1
	case "expired_foreign":
		which = 1
		cl["exp"] = now - 50
	case "malformed":
		return "abc.def"
	}
	return c14Sign(kc, which, cl)
}

// ---------------------------------------------------------------- independent parsing of an ID token

// returns the Coq term (mkIdt sig alg tokclaims)
func c14ParseIDT(tok string, kc c14KeyCfg, tb *c14Table) (string, error) {
	sig, err := jose.ParseSigned(tok)
	if err != nil {
		return "", err
	}
	if len(sig.Signatures) != 1 {
		return "", fmt.Errorf("%d signatures", len(sig.Signatures))
	}
	alg := sig.Signatures[0].Header.Algorithm
	payload, verr := sig.Verify(c14Public(kc))
	if verr != nil {
		payload = sig.UnsafePayloadWithoutVerification()
	}
	dec := json.NewDecoder(strings.NewReader(string(payload)))
	dec.UseNumber()
	var m map[string]any
	if err := dec.Decode(&m); err != nil {
		return "", err
	}
	str := func(k string) string {
		v, ok := m[k]
		if !ok {
			return ""
		}
		if s, ok := v.(string); ok {
			return s
		}
		return "\x01non-string:" + c14Render(v)
	}
	tm := func(k string) string {
		v, ok := m[k]
		if !ok {
			return "None"
		}
		if n, ok := v.(json.Number); ok {
			if i, err := n.Int64(); err == nil {
				return "(Sz " + c14Z(i-c14Epoch) + ")"
			}
		}
		return "(Sz (-999999999))"
	}
	var aud []string
	switch a := m["aud"].(type) {
	case []any:
		for _, x := range a {
			aud = append(aud, c14Render(x))
		}
	case string:
		aud = []string{a}
	}
	std := map[string]bool{"sub": true, "iss": true, "jti": true, "aud": true, "iat": true, "exp": true, "rat": true, "nonce": true,
		"at_hash": true, "c_hash": true, "auth_time": true, "acr": true, "amr": true}
	var keys []string
	for k := range m {
		if !std[k] {
			keys = append(keys, k)
		}
	}
	sort.Strings(keys)
	ex := make([][2]string, len(keys))
	for i, k := range keys {
		ex[i] = [2]string{k, c14Render(m[k])}
	}
	atc, chc := tb.classify(str("at_hash")), tb.classify(str("c_hash"))
	t := fmt.Sprintf("(mkTok %s %s %s %s %s %s %s %s %s %s %s %s)", Q(str("sub")), Q(str("iss")), QL(aud), Q(str("nonce")),
		tm("exp"), tm("iat"), tm("rat"), tm("auth_time"), atc, chc, Q(str("acr")), c14Pairs(ex))
	c14LastHash = [3]string{alg, atc, chc}
	return fmt.Sprintf("(mkIdt %s %s %s)", B(verr == nil), Q(alg), t), nil
}

// header alg and hash classes of the ID token parsed last (for the A6 experiment table)
var c14LastHash [3]string

// one line of the experiment "which hash function does at_hash / c_hash use for which key and session header"
func c14HashNote(out *Out, kc c14KeyCfg, s *c14Sess) {
	hdr := "absent"
	if s.HdrInt {
		hdr = "non-string"
	} else if s.HdrAlg != nil {
		hdr = "\"" + *s.HdrAlg + "\""
	}
	used := ""
	for _, c := range c14LastHash[1:] {
		if strings.HasPrefix(c, "(HOf ") {
			used = strings.Fields(c)[1]
		}
	}
	if used == "" {
		return
	}
	kind := "raw-key"
	if kc.JWK {
		kind = "JWK"
	}
	want := "SHA" + c14LastHash[0][2:]
	verdict := "ok"
	if want != used {
		verdict = "MISMATCH"
	}
	out.Count(fmt.Sprintf("hash-experiment:%s:%s token-alg=%s session-header-alg=%s hash-used=%s", verdict, kind, c14LastHash[0], hdr, used))
}

// ---------------------------------------------------------------- world

const c14ClientID = "c0"
const c14OtherID = "c1"

type c14World struct {
	t     *testing.T
	fl    *c14Flow
	kc    c14KeyCfg
	conf  *fosite.Config
	store *storage.MemoryStore
	prov  fosite.OAuth2Provider
	tb    *c14Table
	start time.Time
}

func c14Dur(s int64) time.Duration { return time.Duration(s) * time.Second }

func c14NewWorld(t *testing.T, fl *c14Flow) *c14World {
	w := &c14World{t: t, fl: fl, kc: c14KeyCfgs[fl.Cfg.Key], tb: &c14Table{}, start: time.Now()}
	w.conf = &fosite.Config{
		GlobalSecret:               []byte("0123456789abcdef0123456789abcdef-global"),
		IDTokenIssuer:              fl.Cfg.Iss,
		IDTokenLifespan:            c14Dur(fl.Cfg.Life),
		MinParameterEntropy:        fl.Cfg.Entropy,
		AllowedPromptValues:        fl.Cfg.Prompts,
		AuthorizeCodeLifespan:      24 * time.Hour,
		SendDebugMessagesToClients: true,
		TokenURL:                   "https://as.example/token",
	}
	w.store = storage.NewMemoryStore()
	w.store.Clients[c14ClientID] = c14MakeClient(c14ClientID, &fl.Client)
	other := fl.Client
	other.Public = false
	w.store.Clients[c14OtherID] = c14MakeClient(c14OtherID, &other)
	w.prov = compose.ComposeAllEnabled(w.conf, w.store, c14ServerKey(w.kc))
	return w
}

func c14Redirect(c *c14Client) string {
	if c.Insecure {
		return "http://app-c0.example/cb"
	}
	return "https://app-c0.example/cb"
}

func c14MakeClient(id string, c *c14Client) fosite.Client {
	dc := &fosite.DefaultClient{
		ID: id, Public: c.Public, RedirectURIs: []string{c14Redirect(c), "https://second.example/cb"},
		GrantTypes:    append([]string{}, c.Grants...),
		ResponseTypes: []string{"code", "token", "id_token", "code token", "code id_token", "id_token token", "code id_token token"},
		Scopes:        []string{"openid", "offline", "a"},
	}
	if !c.Public {
		dc.Secret = hashSecret("secret-of-" + id)
	}
	if c.LifeCode == nil && c.LifeImplicit == nil && c.LifeRefresh == nil {
		return dc
	}
	d := func(p *int64) *time.Duration {
		if p == nil {
			return nil
		}
		v := c14Dur(*p)
		return &v
	}
	return &fosite.DefaultClientWithCustomTokenLifespans{DefaultClient: dc, TokenLifespans: &fosite.ClientLifespanConfig{
		AuthorizationCodeGrantIDTokenLifespan: d(c.LifeCode), ImplicitGrantIDTokenLifespan: d(c.LifeImplicit), RefreshTokenGrantIDTokenLifespan: d(c.LifeRefresh)}}
}

func c14At(base time.Time, off *int64) time.Time {
	if off == nil {
		return time.Time{}
	}
	return base.Add(c14Dur(*off)).UTC()
}

func c14Session(s *c14Sess, base time.Time) *openid.DefaultSession {
	cl := &jwt.IDTokenClaims{Subject: s.Sub, Issuer: s.Iss, Nonce: s.Nonce, AuthenticationContextClassReference: s.Acr,
		ExpiresAt: c14At(base, s.Exp), RequestedAt: c14At(base, s.Rat), AuthTime: c14At(base, s.Auth),
		AccessTokenHash: s.AtHash, CodeHash: s.CHash}
	if s.Aud != nil {
		cl.Audience = append([]string{}, s.Aud...)
	}
	if len(s.Extra) > 0 {
		cl.Extra = map[string]any{}
		for _, kv := range s.Extra {
			cl.Extra[kv[0]] = kv[1]
		}
	}
	h := &jwt.Headers{Extra: map[string]any{"kid": "kid-1"}}
	if s.HdrInt {
		h.Extra["alg"] = 384
	} else if s.HdrAlg != nil {
		h.Extra["alg"] = *s.HdrAlg
	}
	return &openid.DefaultSession{Claims: cl, Headers: h, Subject: s.Sub}
}

func (w *c14World) now() int64 { return time.Now().Unix() - c14Epoch }

func (w *c14World) tokenReq(form url.Values, client string, public bool) *http.Request {
	if public {
		form.Set("client_id", client)
	}
	req := httptest.NewRequest("POST", "/token", strings.NewReader(form.Encode()))
	req.Header.Set("Content-Type", "application/x-www-form-urlencoded")
	if !public {
		req.SetBasicAuth(client, "secret-of-"+client)
	}
	return req
}

func c14Contains(l []string, s string) bool {
	for _, x := range l {
		if x == s {
			return true
		}
	}
	return false
}

func c14SessClaims(s fosite.Session) *jwt.IDTokenClaims {
	if ds, ok := s.(*openid.DefaultSession); ok && ds != nil {
		return ds.Claims
	}
	return nil
}

func c14SessHdr(s fosite.Session) *jwt.Headers {
	if ds, ok := s.(*openid.DefaultSession); ok && ds != nil {
		return ds.Headers
	}
	return nil
}

// areq term of the authorization request (also needed by the redemption case)
func (w *c14World) areqCoq(form url.Values, secure bool, codeID, atID int, elapsed int64) string {
	a := &w.fl.Auth
	parsed := fmt.Sprintf("(mkParsed %s %s)", c14Z(c14MaxAge(a.MaxAge)), a.Hint.coqAt(elapsed))
	return fmt.Sprintf("(mkAreq %s %s %s %s %s true %d %d)", QL(a.RTs), QL(a.Granted), c14Form(form, c14FormKeys), parsed, B(secure), codeID, atID)
}

// runs the whole mini-history; emits the case of step [only] (or all when only < 0)
func (w *c14World) runFlow(out *Out, only int) {
	ctx := context.Background()
	fl := w.fl
	a := &fl.Auth
	emit := func(step int, kind string, coq string, nt bool) {
		if only >= 0 && only != step {
			return
		}
		rec := *fl
		rec.Emit = step
		out.Add(Case{Coq: coq, Replay: rec, NonTrivial: nt, Key: coq})
		out.Count(kind)
	}
	// ---- authorization request
	q := url.Values{}
	q.Set("client_id", c14ClientID)
	q.Set("response_type", strings.Join(a.RTs, " "))
	q.Set("state", "state-0123456789")
	if !a.OmitRedirect {
		q.Set("redirect_uri", c14Redirect(&fl.Client))
	}
	if len(a.Scopes) > 0 {
		q.Set("scope", strings.Join(a.Scopes, " "))
	}
	if a.Nonce != "" {
		q.Set("nonce", a.Nonce)
	}
	if a.Prompt != "" {
		q.Set("prompt", a.Prompt)
	}
	if a.MaxAge != "" {
		q.Set("max_age", a.MaxAge)
	}
	if a.AcrValues != "" {
		q.Set("acr_values", a.AcrValues)
	}
	if a.GrantType != "" {
		q.Set("grant_type", a.GrantType)
	}
	if ht := c14HintToken(w.kc, a.Hint, fl.Cfg.Iss); ht != "" {
		q.Set("id_token_hint", ht)
	}
	req := httptest.NewRequest("GET", "/auth?"+q.Encode(), nil)
	ar, err := w.prov.NewAuthorizeRequest(ctx, req)
	if err != nil {
		out.Count("outer:authorize-request-refused:" + fosite.ErrorToRFC6749Error(err).ErrorField)
		return
	}
	for _, s := range a.Granted {
		ar.GrantScope(s)
	}
	sess := c14Session(&fl.Sess, time.Now())
	pre := c14Claims(sess.Claims, w.tb)
	hdr := c14Hdr(sess.Headers)
	now0 := w.now()
	secure := fosite.IsRedirectURISecure(ctx, ar.GetRedirectURI())
	form := ar.GetRequestForm()
	resp, err := w.prov.NewAuthorizeResponse(ctx, ar, sess)
	code, at, idt := "", "", ""
	if err == nil {
		code = resp.GetCode()
		at = resp.GetParameters().Get("access_token")
		idt = resp.GetParameters().Get("id_token")
	}
	codeID, atID := 90, 91
	if code != "" {
		codeID = w.tb.add(code)
	}
	if at != "" {
		atID = w.tb.add(at)
	}
	idtCoq := "None"
	if idt != "" {
		s, perr := c14ParseIDT(idt, w.kc, w.tb)
		if perr != nil {
			w.t.Fatalf("id token does not parse: %v", perr)
		}
		idtCoq = "(Some " + s + ")"
		c14HashNote(out, w.kc, &fl.Sess)
	}
	_, stored := w.store.IDSessions[code]
	cfgCoq := fl.Cfg.coq()
	clCoq := fl.Client.coq(c14ClientID)
	areq := w.areqCoq(form, secure, codeID, atID, 0)
	post := c14Claims(sess.Claims, w.tb)
	if err != nil {
		post = pre // not compared on errors
	}
	emit(0, "flow:authorize:"+c14RTKey(a.RTs)+":"+c14Outcome(err, idt != ""),
		fmt.Sprintf("KAuth %s %s %s %s %s %s %s %s %s %s %s %s", cfgCoq, clCoq, hdr, areq, pre, c14Z(now0),
			c14ErrCoq(err), idtCoq, B(code != ""), B(at != ""), B(code != "" && stored), post),
		idt != "" || err != nil)
	if err != nil || code == "" {
		return
	}
	// ---- token endpoint steps
	refresh := ""
	authNonce := a.Nonce
	for i, st := range fl.Steps {
		step := i + 1
		switch st.Kind {
		case "advance":
			time.Sleep(c14Dur(st.Secs))
		case "redeem":
			if code == "" {
				continue
			}
			f := url.Values{}
			f.Set("grant_type", "authorization_code")
			f.Set("code", code)
			if !a.OmitRedirect {
				f.Set("redirect_uri", c14Redirect(&fl.Client))
			}
			oidcReq, present := w.store.IDSessions[code]
			var preClaims *jwt.IDTokenClaims
			var preHdr *jwt.Headers
			if present {
				preClaims, preHdr = c14SessClaims(oidcReq.GetSession()), c14SessHdr(oidcReq.GetSession())
			} else {
				preClaims, preHdr = sess.Claims, sess.Headers
			}
			preC := c14Claims(preClaims, w.tb)
			hdrC := c14Hdr(preHdr)
			nowS := w.now()
			ax, err := w.prov.NewAccessRequest(ctx, w.tokenReq(f, c14ClientID, fl.Client.Public), &openid.DefaultSession{})
			if err != nil {
				out.Count("outer:redeem-request-refused:" + fosite.ErrorToRFC6749Error(err).ErrorField)
				return
			}
			ares, err := w.prov.NewAccessResponse(ctx, ax)
			usedCode := code
			code = ""
			newAT, newIDT := "", ""
			if err == nil {
				newAT = ares.GetAccessToken()
				newIDT, _ = ares.GetExtra("id_token").(string)
				refresh, _ = ares.GetExtra("refresh_token").(string)
			}
			_ = usedCode
			id := 91
			if newAT != "" {
				id = w.tb.add(newAT)
			}
			tokC := "None"
			if newIDT != "" {
				s, perr := c14ParseIDT(newIDT, w.kc, w.tb)
				if perr != nil {
					w.t.Fatalf("id token does not parse: %v", perr)
				}
				tokC = "(Some " + s + ")"
				c14HashNote(out, w.kc, &fl.Sess)
			}
			postC := preC
			if err == nil && newIDT != "" {
				postC = c14Claims(preClaims, w.tb)
			}
			areqNow := w.areqCoq(form, secure, codeID, atID, nowS-now0)
			emit(step, "flow:redeem:"+c14RTKey(a.RTs)+":"+c14Outcome(err, newIDT != ""),
				fmt.Sprintf("KRedeem %s %s %s %s %s %s %d %s %s %s %s %s", cfgCoq, clCoq, hdrC, B(present), clCoq, areqNow, id, preC, c14Z(nowS),
					c14ErrCoq(err), tokC, postC),
				newIDT != "" || err != nil)
			if err != nil {
				return
			}
		case "refresh":
			if refresh == "" {
				continue
			}
			f := url.Values{}
			f.Set("grant_type", "refresh_token")
			f.Set("refresh_token", refresh)
			if st.Nonce != "" {
				f.Set("nonce", st.Nonce)
			}
			if st.Prompt != "" {
				f.Set("prompt", st.Prompt)
			}
			if st.MaxAge != "" {
				f.Set("max_age", st.MaxAge)
			}
			parts := strings.Split(refresh, ".")
			rec, ok := w.store.RefreshTokens[parts[len(parts)-1]]
			if !ok {
				w.t.Fatalf("refresh token session not found in the store")
			}
			preClaims, preHdr := c14SessClaims(rec.GetSession()), c14SessHdr(rec.GetSession())
			preC := c14Claims(preClaims, w.tb)
			hdrC := c14Hdr(preHdr)
			granted := []string(rec.GetGrantedScopes())
			nowS := w.now()
			ax, err := w.prov.NewAccessRequest(ctx, w.tokenReq(f, c14ClientID, fl.Client.Public), &openid.DefaultSession{})
			if err != nil {
				out.Count("outer:refresh-request-refused:" + fosite.ErrorToRFC6749Error(err).ErrorField)
				return
			}
			formC := c14Form(ax.GetRequestForm(), c14FormKeys)
			ares, err := w.prov.NewAccessResponse(ctx, ax)
			newAT, newIDT := "", ""
			refresh = ""
			if err == nil {
				newAT = ares.GetAccessToken()
				newIDT, _ = ares.GetExtra("id_token").(string)
				refresh, _ = ares.GetExtra("refresh_token").(string)
			}
			id := 91
			if newAT != "" {
				id = w.tb.add(newAT)
			}
			tokC := "None"
			if newIDT != "" {
				s, perr := c14ParseIDT(newIDT, w.kc, w.tb)
				if perr != nil {
					w.t.Fatalf("id token does not parse: %v", perr)
				}
				tokC = "(Some " + s + ")"
				c14HashNote(out, w.kc, &fl.Sess)
			}
			postC := preC
			if err == nil && newIDT != "" {
				postC = c14Claims(c14SessClaims(ax.GetSession()), w.tb)
			}
			kind := "flow:refresh:"
			if st.Nonce != "" {
				kind = "flow:refresh-smuggled-nonce:"
			}
			emit(step, kind+c14Outcome(err, newIDT != ""),
				fmt.Sprintf("KRefresh %s %s %s %s %s %d %s %s %s %s %s %s", cfgCoq, clCoq, hdrC, QL(granted), formC, id, preC, c14Z(nowS), Q(authNonce),
					c14ErrCoq(err), tokC, postC),
				newIDT != "" || err != nil)
			if err != nil {
				return
			}
		}
	}
}

func c14RTKey(rts []string) string {
	s := append([]string{}, rts...)
	sort.Strings(s)
	return strings.Join(s, "+")
}

func c14Outcome(err error, idt bool) string {
	if err != nil {
		return "refused:" + fosite.ErrorToRFC6749Error(err).ErrorField
	}
	if idt {
		return "id_token"
	}
	return "ok-without-id_token"
}

// ---------------------------------------------------------------- device flow

func (w *c14World) runDevice(out *Out) {
	ctx := context.Background()
	fl := w.fl
	d := fl.Dev
	f := url.Values{}
	f.Set("client_id", c14ClientID)
	f.Set("scope", strings.Join(fl.Auth.Scopes, " "))
	req := w.tokenReq(f, c14ClientID, fl.Client.Public)
	dr, err := w.prov.NewDeviceRequest(ctx, req)
	if err != nil {
		out.Count("outer:device-request-refused:" + fosite.ErrorToRFC6749Error(err).ErrorField)
		return
	}
	sess := c14Session(&fl.Sess, time.Now())
	dresp, err := w.prov.NewDeviceResponse(ctx, dr, sess)
	if err != nil {
		out.Count("outer:device-response-refused:" + fosite.ErrorToRFC6749Error(err).ErrorField)
		return
	}
	deviceCode := dresp.GetDeviceCode()
	sig, _ := compose.NewDeviceStrategy(w.conf).DeviceCodeSignature(ctx, deviceCode)
	stored, ok := w.store.DeviceAuths[sig]
	if !ok {
		w.t.Fatalf("device session not in the store")
	}
	// the application: the user logs in and consents
	stored.SetUserCodeState(fosite.UserCodeAccepted)
	for _, s := range d.Granted {
		stored.GrantScope(s)
	}
	oform := url.Values{}
	if d.Nonce != "" {
		oform.Set("nonce", d.Nonce)
	}
	if d.Prompt != "" {
		oform.Set("prompt", d.Prompt)
	}
	if d.MaxAge != "" {
		oform.Set("max_age", d.MaxAge)
	}
	stCoq := "None"
	if d.StoreOIDC {
		oreq := &fosite.Request{ID: stored.GetID(), RequestedAt: stored.GetRequestedAt(), Client: stored.GetClient(), Form: oform,
			Session: stored.GetSession(), RequestedScope: stored.GetRequestedScopes(), GrantedScope: fosite.Arguments(append([]string{}, d.Granted...))}
		if err := w.store.CreateOpenIDConnectSession(ctx, sig, oreq); err != nil {
			w.t.Fatal(err)
		}
		stCoq = fmt.Sprintf("(Some (mkStored %s (mkParsed %s HintAbsent) %s %s))", c14Form(oform, c14FormKeys), c14Z(c14MaxAge(d.MaxAge)), QL(d.Granted), fl.Client.coq(c14ClientID))
	}
	time.Sleep(c14Dur(d.AdvanceSecs))
	ssess := stored.GetSession()
	preClaims, preHdr := c14SessClaims(ssess), c14SessHdr(ssess)
	preC := c14Claims(preClaims, w.tb)
	hdrC := c14Hdr(preHdr)
	nowS := w.now()
	tf := url.Values{}
	tf.Set("grant_type", "urn:ietf:params:oauth:grant-type:device_code")
	tf.Set("device_code", deviceCode)
	ax, err := w.prov.NewAccessRequest(ctx, w.tokenReq(tf, c14ClientID, fl.Client.Public), &openid.DefaultSession{})
	if err != nil {
		out.Count("outer:device-token-request-refused:" + fosite.ErrorToRFC6749Error(err).ErrorField)
		return
	}
	ares, err := w.prov.NewAccessResponse(ctx, ax)
	newAT, newIDT := "", ""
	if err == nil {
		newAT = ares.GetAccessToken()
		newIDT, _ = ares.GetExtra("id_token").(string)
	}
	id := 91
	if newAT != "" {
		id = w.tb.add(newAT)
	}
	tokC := "None"
	if newIDT != "" {
		s, perr := c14ParseIDT(newIDT, w.kc, w.tb)
		if perr != nil {
			w.t.Fatalf("id token does not parse: %v", perr)
		}
		tokC = "(Some " + s + ")"
		c14HashNote(out, w.kc, &fl.Sess)
	}
	postC := preC
	if err == nil && newIDT != "" {
		postC = c14Claims(preClaims, w.tb)
	}
	coq := fmt.Sprintf("KDevice %s %s %s %s %d %s %s %s %s %s", fl.Cfg.coq(), fl.Client.coq(c14ClientID), hdrC, stCoq, id, preC, c14Z(nowS),
		c14ErrCoq(err), tokC, postC)
	out.Add(Case{Coq: coq, Replay: *fl, NonTrivial: newIDT != "" || err != nil, Key: coq})
	out.Count("device:" + c14Outcome(err, newIDT != ""))
}

// ---------------------------------------------------------------- direct calls

func (w *c14World) runGen(out *Out) {
	ctx := context.Background()
	fl := w.fl
	a := &fl.Auth
	strat := compose.NewOpenIDConnectStrategy(func(context.Context) (any, error) { return c14ServerKey(w.kc), nil }, w.conf)
	form := url.Values{}
	if fl.Gen.GrantType != "" {
		form.Set("grant_type", fl.Gen.GrantType)
	}
	if a.Nonce != "" {
		form.Set("nonce", a.Nonce)
	}
	if a.Prompt != "" {
		form.Set("prompt", a.Prompt)
	}
	if a.MaxAge != "" {
		form.Set("max_age", a.MaxAge)
	}
	if a.AcrValues != "" {
		form.Set("acr_values", a.AcrValues)
	}
	if ht := c14HintToken(w.kc, a.Hint, fl.Cfg.Iss); ht != "" {
		form.Set("id_token_hint", ht)
	}
	sess := c14Session(&fl.Sess, time.Now())
	r := &fosite.Request{Client: w.store.Clients[c14ClientID], Form: form, Session: sess}
	pre := c14Claims(sess.Claims, w.tb)
	now := w.now()
	tok, err := strat.GenerateIDToken(ctx, c14Dur(fl.Gen.Life), r)
	tokC := "None"
	if err == nil {
		s, perr := c14ParseIDT(tok, w.kc, w.tb)
		if perr != nil {
			w.t.Fatalf("id token does not parse: %v", perr)
		}
		tokC = "(Some " + s + ")"
	}
	post := c14Claims(sess.Claims, w.tb)
	parsed := fmt.Sprintf("(mkParsed %s %s)", c14Z(c14MaxAge(a.MaxAge)), a.Hint.coq())
	coq := fmt.Sprintf("KGen %s %s %s %s %s %s %s %s %s %s", fl.Cfg.coq(), Q(c14ClientID), c14Z(fl.Gen.Life), c14Form(form, c14FormKeys), parsed, pre, c14Z(now),
		c14ErrCoq(err), tokC, post)
	out.Add(Case{Coq: coq, Replay: *fl, NonTrivial: true, Key: coq})
	out.Count("gen:" + c14Outcome(err, err == nil))
}

func (w *c14World) runVal(out *Out) {
	ctx := context.Background()
	fl := w.fl
	a := &fl.Auth
	signer := &jwt.DefaultSigner{GetPrivateKey: func(context.Context) (any, error) { return c14ServerKey(w.kc), nil }}
	v := openid.NewOpenIDConnectRequestValidator(signer, w.conf)
	form := url.Values{}
	if a.Prompt != "" {
		form.Set("prompt", a.Prompt)
	}
	if a.MaxAge != "" {
		form.Set("max_age", a.MaxAge)
	}
	if ht := c14HintToken(w.kc, a.Hint, fl.Cfg.Iss); ht != "" {
		form.Set("id_token_hint", ht)
	}
	sess := c14Session(&fl.Sess, time.Now())
	ru, _ := url.Parse(c14Redirect(&fl.Client))
	ar := &fosite.AuthorizeRequest{RedirectURI: ru, Request: fosite.Request{Client: w.store.Clients[c14ClientID], Form: form, Session: sess}}
	pre := c14Claims(sess.Claims, w.tb)
	now := w.now()
	err := v.ValidatePrompt(ctx, ar)
	secure := fosite.IsRedirectURISecure(ctx, ru)
	parsed := fmt.Sprintf("(mkParsed %s %s)", c14Z(c14MaxAge(a.MaxAge)), a.Hint.coq())
	coq := fmt.Sprintf("KVal %s %s %s %s %s %s %s %s", fl.Cfg.coq(), B(fl.Client.Public), B(secure), c14Form(form, c14FormKeys), parsed, pre, c14Z(now), c14ErrCoq(err))
	out.Add(Case{Coq: coq, Replay: *fl, NonTrivial: true, Key: coq})
	out.Count("val:" + c14Outcome(err, false))
}

// oidcParameters as written in handler/openid/flow_explicit_auth.go (go/parser, no execution)
func c14Whitelist(repo string) ([]string, error) {
	fset := token.NewFileSet()
	file, err := parser.ParseFile(fset, filepath.Join(repo, "handler", "openid", "flow_explicit_auth.go"), nil, 0)
	if err != nil {
		return nil, err
	}
	for _, d := range file.Decls {
		gd, ok := d.(*ast.GenDecl)
		if !ok || gd.Tok != token.VAR {
			continue
		}
		for _, sp := range gd.Specs {
			vs := sp.(*ast.ValueSpec)
			for i, n := range vs.Names {
				if n.Name != "oidcParameters" || i >= len(vs.Values) {
					continue
				}
				cl, ok := vs.Values[i].(*ast.CompositeLit)
				if !ok {
					return nil, fmt.Errorf("oidcParameters is not a composite literal")
				}
				var res []string
				for _, e := range cl.Elts {
					bl, ok := e.(*ast.BasicLit)
					if !ok || bl.Kind != token.STRING {
						return nil, fmt.Errorf("oidcParameters has a non-literal element")
					}
					s, err := strconv.Unquote(bl.Value)
					if err != nil {
						return nil, err
					}
					res = append(res, s)
				}
				return res, nil
			}
		}
	}
	return nil, fmt.Errorf("oidcParameters not found")
}

// ---------------------------------------------------------------- generators

func c14P(v int64) *int64 { return &v }

var c14AllGrants = []string{"authorization_code", "implicit", "refresh_token", "urn:ietf:params:oauth:grant-type:device_code"}

func c14Without(l []string, x string) []string {
	var r []string
	for _, s := range l {
		if s != x {
			r = append(r, s)
		}
	}
	return r
}

func c14GenCfg(r *RNG, adv bool) c14Cfg {
	c := c14Cfg{Iss: "https://as.example"}
	switch k := r.Intn(100); {
	case k < 22:
		c.Key = 0
	case k < 32:
		c.Key = 1
	default:
		c.Key = 2 + r.Intn(7)
	}
	if r.Chance(8) {
		c.Iss = ""
	}
	if r.Chance(25) {
		c.Entropy = Pick(r, []int{4, 8, 12, 16})
	}
	if r.Chance(40) {
		c.Life = Pick(r, []int64{600, 60, 5, 1, 7200})
		if adv && r.Chance(15) {
			c.Life = -10
		}
	}
	if r.Chance(12) {
		c.Prompts = Pick(r, [][]string{{"login", "none"}, {"login", "none", "consent", "select_account", "custom"}, {"none"}})
	}
	return c
}

func c14GenClient(r *RNG, adv bool) c14Client {
	c := c14Client{Grants: append([]string{}, c14AllGrants...)}
	c.Public = r.Chance(20)
	if r.Chance(12) || (adv && r.Chance(25)) {
		c.Grants = c14Without(c.Grants, Pick(r, []string{"implicit", "authorization_code", "refresh_token", "implicit"}))
	}
	if r.Chance(30) {
		switch r.Intn(4) {
		case 0:
			c.LifeCode = c14P(Pick(r, []int64{120, 30, 0}))
		case 1:
			c.LifeImplicit = c14P(Pick(r, []int64{30, 900, 0}))
		case 2:
			c.LifeRefresh = c14P(Pick(r, []int64{45, 5000}))
		case 3:
			c.LifeCode, c.LifeImplicit, c.LifeRefresh = c14P(100), c14P(200), c14P(300)
		}
	}
	c.Insecure = r.Chance(8)
	return c
}

func c14GenSess(r *RNG, adv bool, keyAlg string) c14Sess {
	s := c14Sess{Sub: "alice"}
	if r.Chance(4) {
		s.Sub = ""
	} else if r.Chance(10) {
		s.Sub = "bob"
	}
	if r.Chance(10) {
		s.Iss = "https://session-iss.example"
	}
	switch r.Intn(10) {
	case 0:
		s.Aud = []string{"extra-aud"}
	case 1:
		s.Aud = []string{c14ClientID}
	case 2:
		s.Aud = []string{"x", c14ClientID, "x", "y"}
	}
	// requested_at / auth_time relation
	rat := int64(0)
	if r.Chance(30) {
		rat = -int64(Pick(r, []int{1, 30, 600}))
	}
	s.Rat = &rat
	if r.Chance(4) {
		s.Rat = nil
	}
	switch k := r.Intn(100); {
	case k < 35:
		s.Auth = c14P(rat)
	case k < 65:
		s.Auth = c14P(rat - int64(Pick(r, []int{1, 10, 59, 60, 61, 100, 3600, 3601, 100000})))
	case k < 85:
		s.Auth = c14P(rat + int64(Pick(r, []int{1, 2, 5})))
	case k < 93:
		s.Auth = nil
	case k < 97:
		s.Auth = c14P(Pick(r, []int64{4, 5, 6, 7, 100}))
	default:
		s.Auth = c14P(0)
	}
	switch k := r.Intn(100); {
	case k < 78:
	case k < 86:
		s.Exp = c14P(Pick(r, []int64{50, 10000, 2, 1}))
	case k < 92:
		s.Exp = c14P(0)
	default:
		s.Exp = c14P(-int64(Pick(r, []int{1, 5, 1000})))
	}
	if r.Chance(10) {
		s.Acr = "2"
	}
	switch k := r.Intn(100); {
	case k < 60:
	case k < 80:
		s.Extra = [][2]string{{"foo", "bar"}}
	case k < 90:
		s.Extra = [][2]string{{"email", "alice@example.org"}, {"zoneinfo", "Europe/Berlin"}}
	default:
		s.Extra = [][2]string{{"at_hash", "x"}, {"aud", "zzz"}, {"c_hash", "y"}, {"exp", "1"}, {"foo", "bar"}, {"iss", "evil-iss"}, {"nonce", "evil-nonce-0123456789"}, {"sub", "mallory"}}
	}
	switch k := r.Intn(100); {
	case k < 45:
	case k < 82:
		a := keyAlg
		s.HdrAlg = &a
	case k < 97:
		a := Pick(r, []string{"RS256", "ES256", "ES384", "ES512", "RS384", "RS512", "PS384", "none", "ES", "", "HS512", "ES 384", "ES+512", "ES0384"})
		s.HdrAlg = &a
	default:
		s.HdrInt = true
	}
	if !adv && s.HdrAlg != nil && *s.HdrAlg != keyAlg && r.Chance(60) {
		// keep most of the structured stream on consistent headers
		a := keyAlg
		s.HdrAlg = &a
	}
	return s
}

var c14RTSets = [][]string{{"code"}, {"id_token"}, {"id_token", "token"}, {"code", "id_token"}, {"code", "token"}, {"code", "id_token", "token"}}

func c14Shuffle(r *RNG, l []string) []string {
	o := append([]string{}, l...)
	for i := len(o) - 1; i > 0; i-- {
		j := r.Intn(i + 1)
		o[i], o[j] = o[j], o[i]
	}
	return o
}

func c14GenNonce(r *RNG, adv bool, entropy int) string {
	if entropy == 0 {
		entropy = 8
	}
	switch k := r.Intn(100); {
	case k < 12:
		return ""
	case k < 20:
		return strings.Repeat("n", entropy-1)
	case k < 28:
		return strings.Repeat("n", entropy)
	case k < 34:
		return "abc"
	case k < 44:
		return "long-nonce-" + strings.Repeat("0123456789", 4)
	case k < 50:
		return `n "quoted" & + / = ? % nonce`
	case k < 54:
		return "nonce-\xc3\xa9-\xc3\xbc-0123456789"
	}
	return fmt.Sprintf("nonce-%016x", r.Next())
}

func c14GenAuth(r *RNG, adv bool, cfg *c14Cfg, sess *c14Sess) c14Auth {
	a := c14Auth{}
	a.RTs = c14Shuffle(r, Pick(r, c14RTSets))
	if r.Chance(2) {
		a.RTs = []string{"token"}
	}
	a.Scopes = []string{"openid", "offline"}
	if r.Chance(10) {
		a.Scopes = []string{"offline", "a"}
	} else if r.Chance(15) {
		a.Scopes = []string{"openid"}
	}
	a.Granted = append([]string{}, a.Scopes...)
	if r.Chance(6) {
		a.Granted = c14Without(a.Granted, "openid")
	}
	if !c14Contains(a.Scopes, "openid") && r.Chance(40) {
		a.Granted = append(a.Granted, "openid")
		a.OmitRedirect = r.Chance(50)
	}
	a.Nonce = c14GenNonce(r, adv, cfg.Entropy)
	pp := 35
	if adv {
		pp = 70
	}
	if r.Chance(pp) {
		a.Prompt = Pick(r, []string{"none", "login", "consent", "login consent", "none login", "bogus", " none", "none ", "select_account", "custom", "consent login", "login  consent"})
	}
	if r.Chance(pp) {
		a.MaxAge = Pick(r, []string{"0", "1", "60", "3600", "abc", "-5", "+10", "1e3", "100000", "59", "61"})
	}
	if r.Chance(10) {
		a.AcrValues = "1 2"
	}
	if adv && r.Chance(12) {
		a.GrantType = Pick(r, []string{"refresh_token", "authorization_code"})
	}
	hp := 20
	if adv {
		hp = 60
	}
	if r.Chance(hp) {
		kinds := []string{"ok", "ok", "ok", "expired", "expired", "nosub", "subint", "foreign", "malformed", "expired_foreign", "expired_iatfuture", "notyet"}
		a.Hint.Kind = Pick(r, kinds)
		a.Hint.Sub = sess.Sub
		if r.Chance(35) {
			a.Hint.Sub = Pick(r, []string{"mallory", "Alice", "alice ", "bob"})
		}
		if a.Hint.Sub == "" {
			a.Hint.Sub = "alice"
		}
	}
	return a
}

func c14GenSteps(r *RNG, adv bool) []c14Step {
	var st []c14Step
	adv1 := Pick(r, []int64{0, 0, 1, 3, 30, 100, 700, 4000})
	if adv1 > 0 {
		st = append(st, c14Step{Kind: "advance", Secs: adv1})
	}
	st = append(st, c14Step{Kind: "redeem"})
	n := r.Intn(3)
	for i := 0; i < n; i++ {
		if r.Chance(60) {
			st = append(st, c14Step{Kind: "advance", Secs: Pick(r, []int64{1, 10, 100, 4000})})
		}
		s := c14Step{Kind: "refresh"}
		if adv && r.Chance(45) {
			s.Nonce = Pick(r, []string{"smuggled-nonce-0123456789", "short", "other-nonce-abcdefgh"})
		}
		if r.Chance(15) {
			s.Prompt = Pick(r, []string{"none", "login"})
			s.MaxAge = Pick(r, []string{"", "1"})
		}
		st = append(st, s)
	}
	return st
}

func c14GenFlow(r *RNG, adv bool) c14Flow {
	fl := c14Flow{Stream: "flow"}
	fl.Cfg = c14GenCfg(r, adv)
	fl.Client = c14GenClient(r, adv)
	fl.Sess = c14GenSess(r, adv, c14KeyCfgs[fl.Cfg.Key].Alg)
	fl.Auth = c14GenAuth(r, adv, &fl.Cfg, &fl.Sess)
	if !adv {
		// structured stream: mostly well-formed requests of consenting, freshly authenticated users
		if r.Chance(75) {
			fl.Sess.Sub = "alice"
			if fl.Auth.Hint.Kind != "" && r.Chance(70) {
				fl.Auth.Hint.Sub = "alice"
			}
		}
		if r.Chance(70) && fl.Auth.Nonce != "" {
			fl.Auth.Nonce = fmt.Sprintf("nonce-%016x", r.Next())
		}
		if r.Chance(50) {
			fl.Sess.Exp = nil
		}
	}
	fl.Steps = c14GenSteps(r, adv)
	return fl
}

func c14GenDevice(r *RNG, adv bool) c14Flow {
	fl := c14GenFlow(r, adv)
	fl.Stream = "device"
	fl.Steps = nil
	fl.Client.Public = r.Chance(15)
	if !c14Contains(fl.Client.Grants, c14AllGrants[3]) {
		fl.Client.Grants = append(fl.Client.Grants, c14AllGrants[3])
	}
	d := &c14DevRec{StoreOIDC: !r.Chance(12), Granted: append([]string{}, fl.Auth.Scopes...)}
	if r.Chance(8) {
		d.Granted = c14Without(d.Granted, "openid")
	}
	if r.Chance(30) {
		d.Nonce = c14GenNonce(r, adv, fl.Cfg.Entropy)
	}
	if r.Chance(30) {
		d.Prompt = Pick(r, []string{"none", "login", "consent"})
	}
	if r.Chance(30) {
		d.MaxAge = Pick(r, []string{"1", "60", "3600", "abc"})
	}
	d.AdvanceSecs = Pick(r, []int64{0, 1, 5, 100})
	fl.Dev = d
	return fl
}

func c14GenGen(r *RNG, adv bool) c14Flow {
	fl := c14GenFlow(r, true)
	fl.Stream = "gen"
	fl.Steps = nil
	fl.Gen = &c14GenRec{Life: Pick(r, []int64{0, 0, 1, 60, 3600, 86400, -5, -1}), GrantType: Pick(r, []string{"", "authorization_code", "authorization_code", "refresh_token", "implicit"})}
	if r.Chance(20) {
		fl.Sess.Nonce = "preset-nonce-0123456789"
	}
	if r.Chance(10) {
		fl.Sess.AtHash = "preset-at-hash"
	}
	if r.Chance(10) {
		fl.Sess.CHash = "preset-c-hash"
	}
	if !adv && r.Chance(60) {
		// half of the direct stream stays close to acceptable inputs so that successes are frequent
		fl.Sess.Sub = "alice"
		fl.Auth.Hint = c14Hint{}
		if r.Chance(50) {
			fl.Auth.Prompt = ""
		}
		if r.Chance(50) {
			fl.Auth.MaxAge = ""
		}
		if r.Chance(50) {
			fl.Sess.Exp = nil
		}
	}
	return fl
}

func c14GenVal(r *RNG, adv bool) c14Flow {
	fl := c14GenFlow(r, true)
	fl.Stream = "val"
	fl.Steps = nil
	if !adv && r.Chance(50) {
		fl.Sess.Sub = "alice"
		if r.Chance(50) {
			fl.Auth.Hint = c14Hint{}
		}
	}
	return fl
}

// ---------------------------------------------------------------- driver

func c14Run(t *testing.T, fl *c14Flow, out *Out, only int) {
	c14Keys()
	synctest.Test(t, func(t *testing.T) {
		w := c14NewWorld(t, fl)
		switch fl.Stream {
		case "flow":
			w.runFlow(out, only)
		case "device":
			w.runDevice(out)
		case "gen":
			w.runGen(out)
		case "val":
			w.runVal(out)
		}
	})
}

func c14Src(t *testing.T, out *Out) {
	repo := os.Getenv("HX_REPO")
	if repo == "" {
		repo = "/repo"
	}
	wl, err := c14Whitelist(repo)
	if err != nil {
		t.Fatalf("translator: %v", err)
	}
	coq := "KWhitelist " + QL(wl)
	out.Add(Case{Coq: coq, Replay: c14Flow{Stream: "src"}, NonTrivial: true, Key: coq})
	out.Count("src:oidcParameters")
}

func init() { Register("C14", runC14) }

func runC14(t *testing.T, e Env) {
	out := NewOut(e.Out, "Cases.CasesC14", "c14case", "check", 120)
	if e.Replay != nil {
		var fl c14Flow
		if err := json.Unmarshal(e.Replay, &fl); err != nil {
			t.Fatal(err)
		}
		if fl.Stream == "src" {
			c14Src(t, out)
		} else {
			c14Run(t, &fl, out, fl.Emit)
		}
		if err := out.Flush("replay"); err != nil {
			t.Fatal(err)
		}
		return
	}
	r := NewRNG(e.Seed)
	nFlow, nAdv, nDev, nGen, nVal := 520, 200, 160, 1300, 700
	if e.Tier == "thorough" {
		nFlow, nAdv, nDev, nGen, nVal = 9000, 4000, 2500, 22000, 10000
	}
	c14Src(t, out)
	for i := 0; i < nFlow; i++ {
		fl := c14GenFlow(r, false)
		c14Run(t, &fl, out, -1)
	}
	for i := 0; i < nAdv; i++ {
		fl := c14GenFlow(r, true)
		c14Run(t, &fl, out, -1)
	}
	for i := 0; i < nDev; i++ {
		fl := c14GenDevice(r, i%4 == 3)
		c14Run(t, &fl, out, -1)
	}
	for i := 0; i < nGen; i++ {
		fl := c14GenGen(r, i%3 == 2)
		c14Run(t, &fl, out, -1)
	}
	for i := 0; i < nVal; i++ {
		fl := c14GenVal(r, i%2 == 1)
		c14Run(t, &fl, out, -1)
	}
	out.Notes["streams"] = "flow (structured + adversarial): authorize -> redeem -> refresh* on one provider per mini-history; device; gen = direct GenerateIDToken; val = direct ValidatePrompt; src = oidcParameters read with go/parser"
	out.Notes["key_configs"] = "raw RSA, raw P-256, JWK RS256/RS384/RS512/PS256/ES256/ES384/ES512"
	if err := out.Flush("one case per step of a mini-history (authorization / redemption / refresh / device poll) or per direct call; non-trivial = an ID token was issued or the step was refused by an OpenID Connect check (direct calls: always); distinct by the full Coq term (inputs + projected observation, no random values)"); err != nil {
		t.Fatal(err)
	}
}
