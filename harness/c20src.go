package hx

// C20: data read from the Go source of the library at run time (go/parser, go/ast): the table of
// package-level `Err* = &RFC6749Error{ErrorField, CodeField, ...}` values of errors.go and the
// parameter white-lists that feed Request.Sanitize.  A shape the reader does not recognise is a
// hard failure, never a silent skip.  The extracted data is emitted as cases; the Coq side judges
// it (mon_table / mon_wl) and the theorems of Props/C20.v about [table_ok] apply to it.

import (
	"fmt"
	"go/ast"
	"go/parser"
	"go/token"
	"go/types"
	"os"
	"path/filepath"
	"strconv"
	"strings"
	"testing"
)

var c20HTTPStatus = map[string]int{
	"StatusOK": 200, "StatusCreated": 201, "StatusFound": 302, "StatusSeeOther": 303,
	"StatusBadRequest": 400, "StatusUnauthorized": 401, "StatusPaymentRequired": 402, "StatusForbidden": 403,
	"StatusNotFound": 404, "StatusMethodNotAllowed": 405, "StatusNotAcceptable": 406, "StatusRequestTimeout": 408,
	"StatusConflict": 409, "StatusGone": 410, "StatusPreconditionFailed": 412, "StatusUnsupportedMediaType": 415,
	"StatusTeapot": 418, "StatusUnprocessableEntity": 422, "StatusTooManyRequests": 429,
	"StatusInternalServerError": 500, "StatusNotImplemented": 501, "StatusBadGateway": 502,
	"StatusServiceUnavailable": 503, "StatusGatewayTimeout": 504,
}

type c20Entry struct {
	Var  string `json:"var"`
	Name string `json:"name"`
	Code int    `json:"code"`
}

func c20Repo() string {
	if r := os.Getenv("HX_REPO"); r != "" {
		return r
	}
	return "/repo"
}

func c20ParseFile(t *testing.T, rel string) *ast.File {
	fset := token.NewFileSet()
	f, err := parser.ParseFile(fset, filepath.Join(c20Repo(), rel), nil, 0)
	if err != nil {
		t.Fatalf("cannot parse %s: %v", rel, err)
	}
	return f
}

func c20StringConsts(f *ast.File) map[string]string {
	out := map[string]string{}
	for _, d := range f.Decls {
		gd, ok := d.(*ast.GenDecl)
		if !ok || gd.Tok != token.CONST {
			continue
		}
		for _, sp := range gd.Specs {
			vs := sp.(*ast.ValueSpec)
			for i, n := range vs.Names {
				if i < len(vs.Values) {
					if bl, ok := vs.Values[i].(*ast.BasicLit); ok && bl.Kind == token.STRING {
						if s, err := strconv.Unquote(bl.Value); err == nil {
							out[n.Name] = s
						}
					}
				}
			}
		}
	}
	return out
}

// every package-level variable of errors.go initialised with &RFC6749Error{...}
func c20ErrorTable(t *testing.T) []c20Entry {
	f := c20ParseFile(t, "errors.go")
	consts := c20StringConsts(f)
	var out []c20Entry
	for _, d := range f.Decls {
		gd, ok := d.(*ast.GenDecl)
		if !ok || gd.Tok != token.VAR {
			continue
		}
		for _, sp := range gd.Specs {
			vs := sp.(*ast.ValueSpec)
			for i, n := range vs.Names {
				if i >= len(vs.Values) {
					continue
				}
				ue, ok := vs.Values[i].(*ast.UnaryExpr)
				if !ok || ue.Op != token.AND {
					continue
				}
				cl, ok := ue.X.(*ast.CompositeLit)
				if !ok {
					continue
				}
				if id, ok := cl.Type.(*ast.Ident); !ok || id.Name != "RFC6749Error" {
					continue
				}
				e := c20Entry{Var: n.Name, Code: -1}
				haveName := false
				for _, el := range cl.Elts {
					kv, ok := el.(*ast.KeyValueExpr)
					if !ok {
						t.Fatalf("errors.go: %s: positional composite literal not understood", n.Name)
					}
					key := kv.Key.(*ast.Ident).Name
					switch key {
					case "ErrorField":
						switch v := kv.Value.(type) {
						case *ast.Ident:
							s, ok := consts[v.Name]
							if !ok {
								t.Fatalf("errors.go: %s: ErrorField constant %s not found", n.Name, v.Name)
							}
							e.Name, haveName = s, true
						case *ast.BasicLit:
							s, err := strconv.Unquote(v.Value)
							if err != nil {
								t.Fatalf("errors.go: %s: %v", n.Name, err)
							}
							e.Name, haveName = s, true
						default:
							t.Fatalf("errors.go: %s: ErrorField expression not understood", n.Name)
						}
					case "CodeField":
						switch v := kv.Value.(type) {
						case *ast.SelectorExpr:
							pkg, ok := v.X.(*ast.Ident)
							code, known := c20HTTPStatus[v.Sel.Name]
							if !ok || pkg.Name != "http" || !known {
								t.Fatalf("errors.go: %s: CodeField %v not understood", n.Name, v.Sel.Name)
							}
							e.Code = code
						case *ast.BasicLit:
							c, err := strconv.Atoi(v.Value)
							if err != nil {
								t.Fatalf("errors.go: %s: %v", n.Name, err)
							}
							e.Code = c
						default:
							t.Fatalf("errors.go: %s: CodeField expression not understood", n.Name)
						}
					}
				}
				if !haveName || e.Code < 0 {
					t.Fatalf("errors.go: %s: ErrorField or CodeField missing", n.Name)
				}
				out = append(out, e)
			}
		}
	}
	if len(out) < 20 {
		t.Fatalf("errors.go: only %d RFC6749Error variables found; the reader no longer understands the file", len(out))
	}
	return out
}

func c20StringSlice(t *testing.T, where string, e ast.Expr) []string {
	cl, ok := e.(*ast.CompositeLit)
	if !ok {
		t.Fatalf("%s: expected a []string literal", where)
	}
	out := []string{}
	for _, el := range cl.Elts {
		bl, ok := el.(*ast.BasicLit)
		if !ok || bl.Kind != token.STRING {
			t.Fatalf("%s: non-literal element", where)
		}
		s, err := strconv.Unquote(bl.Value)
		if err != nil {
			t.Fatalf("%s: %v", where, err)
		}
		out = append(out, s)
	}
	return out
}

func c20PackageVarSlice(t *testing.T, rel, name string) []string {
	f := c20ParseFile(t, rel)
	for _, d := range f.Decls {
		gd, ok := d.(*ast.GenDecl)
		if !ok || gd.Tok != token.VAR {
			continue
		}
		for _, sp := range gd.Specs {
			vs := sp.(*ast.ValueSpec)
			for i, n := range vs.Names {
				if n.Name == name && i < len(vs.Values) {
					return c20StringSlice(t, rel+":"+name, vs.Values[i])
				}
			}
		}
	}
	t.Fatalf("%s: variable %s not found", rel, name)
	return nil
}

// the []string literal passed to Sanitize inside the call of `method` in file rel
func c20SanitizeLiteralAt(t *testing.T, rel, method string) []string {
	f := c20ParseFile(t, rel)
	var found []string
	ok := false
	ast.Inspect(f, func(n ast.Node) bool {
		ce, is := n.(*ast.CallExpr)
		if !is {
			return true
		}
		sel, is := ce.Fun.(*ast.SelectorExpr)
		if !is || sel.Sel.Name != method || len(ce.Args) == 0 {
			return true
		}
		inner, is := ce.Args[len(ce.Args)-1].(*ast.CallExpr)
		if !is {
			return true
		}
		isel, is := inner.Fun.(*ast.SelectorExpr)
		if !is || isel.Sel.Name != "Sanitize" || len(inner.Args) != 1 {
			return true
		}
		found = c20StringSlice(t, rel+":"+method, inner.Args[0])
		ok = true
		return false
	})
	if !ok {
		t.Fatalf("%s: no %s(..., x.Sanitize([]string{...})) call found", rel, method)
	}
	return found
}

// the []string literal returned by function fn in file rel (its last return statement)
func c20ReturnedLiteral(t *testing.T, rel, fn string) []string {
	f := c20ParseFile(t, rel)
	for _, d := range f.Decls {
		fd, ok := d.(*ast.FuncDecl)
		if !ok || fd.Name.Name != fn || fd.Body == nil || len(fd.Body.List) == 0 {
			continue
		}
		rs, ok := fd.Body.List[len(fd.Body.List)-1].(*ast.ReturnStmt)
		if !ok || len(rs.Results) != 1 {
			t.Fatalf("%s: %s does not end in a single-value return", rel, fn)
		}
		return c20StringSlice(t, rel+":"+fn, rs.Results[0])
	}
	t.Fatalf("%s: function %s not found", rel, fn)
	return nil
}

type c20SrcReplay struct {
	Kind  string     `json:"kind"` // table | whitelist
	Name  string     `json:"name,omitempty"`
	List  []string   `json:"list,omitempty"`
	Table []c20Entry `json:"table,omitempty"`
}

func c20TableCase(t *testing.T) Case {
	tab := c20ErrorTable(t)
	parts := make([]string, len(tab))
	for i, e := range tab {
		parts[i] = fmt.Sprintf("mkT %s %s %d", Q(e.Var), Q(e.Name), e.Code)
	}
	return Case{Coq: "KTable " + L(parts), Replay: c20SrcReplay{Kind: "table", Table: tab}, NonTrivial: true, Key: "table"}
}

func c20WhitelistCases(t *testing.T) []Case {
	lists := []struct {
		name string
		l    []string
	}{
		{"defaultAllowedParameters", c20PackageVarSlice(t, "request.go", "defaultAllowedParameters")},
		{"oidcParameters", c20PackageVarSlice(t, "handler/openid/flow_explicit_auth.go", "oidcParameters")},
		{"pkce", c20SanitizeLiteralAt(t, "handler/pkce/handler.go", "CreatePKCERequestSession")},
		{"authcode", c20ReturnedLiteral(t, "handler/oauth2/flow_authorize_code_auth.go", "GetSanitationWhiteList")},
	}
	var out []Case
	for _, x := range lists {
		out = append(out, Case{Coq: "KWl " + Q(x.name) + " " + QL(x.l), Replay: c20SrcReplay{Kind: "whitelist", Name: x.name, List: x.l},
			NonTrivial: true, Key: "wl|" + x.name + "|" + strings.Join(x.l, ",")})
	}
	return out
}

// ---------------------------------------------------------------- storage call sites (syntactic)

type c20Site struct {
	Where     string `json:"where"`
	Method    string `json:"method"`
	Key       string `json:"key"`
	Sanitized bool   `json:"sanitized"`
}

func c20IsSanitizeCall(e ast.Expr) bool {
	if ta, ok := e.(*ast.TypeAssertExpr); ok {
		e = ta.X
	}
	ce, ok := e.(*ast.CallExpr)
	if !ok {
		return false
	}
	sel, ok := ce.Fun.(*ast.SelectorExpr)
	return ok && sel.Sel.Name == "Sanitize"
}

// every call x.Create<...>Session(ctx, key, ..., request) in the non-test sources of the root package and handler/
func c20CallSites(t *testing.T) []c20Site {
	root := c20Repo()
	var files []string
	rootFiles, _ := filepath.Glob(filepath.Join(root, "*.go"))
	files = append(files, rootFiles...)
	_ = filepath.Walk(filepath.Join(root, "handler"), func(p string, info os.FileInfo, err error) error {
		if err == nil && !info.IsDir() && strings.HasSuffix(p, ".go") {
			files = append(files, p)
		}
		return nil
	})
	var out []c20Site
	for _, p := range files {
		if strings.HasSuffix(p, "_test.go") {
			continue
		}
		fset := token.NewFileSet()
		f, err := parser.ParseFile(fset, p, nil, 0)
		if err != nil {
			t.Fatalf("cannot parse %s: %v", p, err)
		}
		rel, _ := filepath.Rel(root, p)
		for _, d := range f.Decls {
			fd, ok := d.(*ast.FuncDecl)
			if !ok || fd.Body == nil {
				continue
			}
			// local variables assigned from a Sanitize call in this function
			sanVars := map[string]bool{}
			ast.Inspect(fd.Body, func(n ast.Node) bool {
				as, ok := n.(*ast.AssignStmt)
				if !ok || len(as.Lhs) != 1 || len(as.Rhs) != 1 {
					return true
				}
				if id, ok := as.Lhs[0].(*ast.Ident); ok && c20IsSanitizeCall(as.Rhs[0]) {
					sanVars[id.Name] = true
				}
				return true
			})
			ast.Inspect(fd.Body, func(n ast.Node) bool {
				ce, ok := n.(*ast.CallExpr)
				if !ok {
					return true
				}
				sel, ok := ce.Fun.(*ast.SelectorExpr)
				if !ok || !strings.HasPrefix(sel.Sel.Name, "Create") || !strings.HasSuffix(sel.Sel.Name, "Session") || len(ce.Args) < 3 {
					return true
				}
				last := ce.Args[len(ce.Args)-1]
				san := c20IsSanitizeCall(last)
				if id, ok := last.(*ast.Ident); ok && sanVars[id.Name] {
					san = true
				}
				out = append(out, c20Site{
					Where:     fmt.Sprintf("%s:%d", rel, fset.Position(ce.Pos()).Line),
					Method:    sel.Sel.Name,
					Key:       types.ExprString(ce.Args[1]),
					Sanitized: san,
				})
				return true
			})
		}
	}
	if len(out) < 10 {
		t.Fatalf("only %d Create*Session call sites found; the reader no longer understands the sources", len(out))
	}
	return out
}

func c20SitesCase(t *testing.T) Case {
	sites := c20CallSites(t)
	parts := make([]string, len(sites))
	for i, s := range sites {
		parts[i] = fmt.Sprintf("mkCS %s %s %s %s", Q(s.Where), Q(s.Method), Q(s.Key), B(s.Sanitized))
	}
	return Case{Coq: "KSites " + L(parts), Replay: c20SrcReplay{Kind: "sites"}, NonTrivial: true, Key: "sites"}
}


// ---------------------------------------------------------------- error text in client-visible fields (syntactic)

// c20HintSites lists the calls WithHint / WithHintf / WithDescription (the fields every client sees) in the
// non-test sources whose arguments contain the text of a Go error value: `x.Error()` or an identifier named
// err (or ending in Err/err) passed to a format verb.  Such text belongs in WithDebug, which is rendered only
// when the operator enabled SendDebugMessagesToClients.
type c20HintSite struct {
	Where string `json:"where"` // file:function
	Field string `json:"field"`
	Arg   string `json:"arg"`
}

func c20IsErrText(e ast.Expr) bool {
	found := false
	ast.Inspect(e, func(n ast.Node) bool {
		switch x := n.(type) {
		case *ast.CallExpr:
			if sel, ok := x.Fun.(*ast.SelectorExpr); ok && sel.Sel.Name == "Error" && len(x.Args) == 0 {
				found = true
			}
		case *ast.Ident:
			if x.Name == "err" || strings.HasSuffix(x.Name, "Err") || strings.HasSuffix(x.Name, "err") {
				found = true
			}
		}
		return !found
	})
	return found
}

func c20HintSites(t *testing.T) []c20HintSite {
	root := c20Repo()
	var files []string
	for _, d := range []string{".", "handler", "token", "compose"} {
		_ = filepath.Walk(filepath.Join(root, d), func(p string, info os.FileInfo, err error) error {
			if err != nil {
				return nil
			}
			if info.IsDir() {
				if d == "." && p != root {
					return filepath.SkipDir
				}
				return nil
			}
			if strings.HasSuffix(p, ".go") && !strings.HasSuffix(p, "_test.go") {
				files = append(files, p)
			}
			return nil
		})
	}
	var out []c20HintSite
	calls := 0
	for _, p := range files {
		fset := token.NewFileSet()
		f, err := parser.ParseFile(fset, p, nil, 0)
		if err != nil {
			t.Fatalf("cannot parse %s: %v", p, err)
		}
		rel, _ := filepath.Rel(root, p)
		for _, d := range f.Decls {
			fd, ok := d.(*ast.FuncDecl)
			if !ok || fd.Body == nil {
				continue
			}
			ast.Inspect(fd.Body, func(n ast.Node) bool {
				ce, ok := n.(*ast.CallExpr)
				if !ok {
					return true
				}
				sel, ok := ce.Fun.(*ast.SelectorExpr)
				if !ok {
					return true
				}
				switch sel.Sel.Name {
				case "WithHint", "WithHintf", "WithDescription", "WithHintIDOrDefaultf":
				default:
					return true
				}
				calls++
				for _, a := range ce.Args {
					if c20IsErrText(a) {
						out = append(out, c20HintSite{Where: rel + ":" + fd.Name.Name, Field: sel.Sel.Name, Arg: types.ExprString(a)})
						break
					}
				}
				return true
			})
		}
	}
	if calls < 100 {
		t.Fatalf("only %d WithHint/WithDescription calls found; the reader no longer understands the sources", calls)
	}
	return out
}

// one case per site (each is an alarm of the monitor), plus one summary case that is always clean
func c20HintCases(t *testing.T) []Case {
	sites := c20HintSites(t)
	out := []Case{{Coq: "KHint \"\" \"\"", Replay: c20SrcReplay{Kind: "hints"}, NonTrivial: true, Key: "hints"}}
	for _, s := range sites {
		out = append(out, Case{Coq: "KHint " + Q(s.Where) + " " + Q(s.Field), Replay: c20SrcReplay{Kind: "hints", Name: s.Where}, NonTrivial: true, Key: "hint:" + s.Where + ":" + s.Arg})
	}
	return out
}
