module hx

go 1.26.8

require (
	github.com/asaskevich/govalidator v0.0.0-20230301143203-a9d515a09cc2
	github.com/go-jose/go-jose/v3 v3.0.3
	github.com/hashicorp/go-retryablehttp v0.7.7
	github.com/ory/fosite v0.0.0
	github.com/ory/x v0.0.677
	golang.org/x/crypto v0.31.0
	golang.org/x/net v0.33.0
)

require (
	github.com/cenkalti/backoff/v4 v4.3.0 // indirect
	github.com/cespare/xxhash/v2 v2.3.0 // indirect
	github.com/cristalhq/jwt/v4 v4.0.2 // indirect
	github.com/davecgh/go-spew v1.1.1 // indirect
	github.com/dgraph-io/ristretto v1.0.0 // indirect
	github.com/dustin/go-humanize v1.0.1 // indirect
	github.com/felixge/httpsnoop v1.0.4 // indirect
	github.com/go-logr/logr v1.4.2 // indirect
	github.com/go-logr/stdr v1.2.2 // indirect
	github.com/gobuffalo/pop/v6 v6.1.1 // indirect
	github.com/gogo/protobuf v1.3.2 // indirect
	github.com/google/uuid v1.6.0 // indirect
	github.com/grpc-ecosystem/grpc-gateway/v2 v2.23.0 // indirect
	github.com/hashicorp/go-cleanhttp v0.5.2 // indirect
	github.com/mohae/deepcopy v0.0.0-20170929034955-c48cc78d4826 // indirect
	github.com/openzipkin/zipkin-go v0.4.3 // indirect
	github.com/ory/go-convenience v0.1.0 // indirect
	github.com/pkg/errors v0.9.1 // indirect
	github.com/pmezard/go-difflib v1.0.0 // indirect
	github.com/seatgeek/logrus-gelf-formatter v0.0.0-20210414080842-5b05eb8ff761 // indirect
	github.com/sirupsen/logrus v1.9.3 // indirect
	github.com/stretchr/testify v1.9.0 // indirect
	go.opentelemetry.io/contrib/instrumentation/net/http/httptrace/otelhttptrace v0.57.0 // indirect
	go.opentelemetry.io/contrib/instrumentation/net/http/otelhttp v0.57.0 // indirect
	go.opentelemetry.io/contrib/propagators/b3 v1.32.0 // indirect
	go.opentelemetry.io/contrib/propagators/jaeger v1.32.0 // indirect
	go.opentelemetry.io/contrib/samplers/jaegerremote v0.26.0 // indirect
	go.opentelemetry.io/otel v1.32.0 // indirect
	go.opentelemetry.io/otel/exporters/jaeger v1.17.0 // indirect
	go.opentelemetry.io/otel/exporters/otlp/otlptrace v1.32.0 // indirect
	go.opentelemetry.io/otel/exporters/otlp/otlptrace/otlptracehttp v1.32.0 // indirect
	go.opentelemetry.io/otel/exporters/zipkin v1.32.0 // indirect
	go.opentelemetry.io/otel/metric v1.32.0 // indirect
	go.opentelemetry.io/otel/sdk v1.32.0 // indirect
	go.opentelemetry.io/otel/trace v1.32.0 // indirect
	go.opentelemetry.io/proto/otlp v1.3.1 // indirect
	go.uber.org/mock v0.5.0 // indirect
	golang.org/x/oauth2 v0.23.0 // indirect
	golang.org/x/sys v0.28.0 // indirect
	golang.org/x/text v0.21.0 // indirect
	google.golang.org/genproto/googleapis/api v0.0.0-20241104194629-dd2ea8efbc28 // indirect
	google.golang.org/genproto/googleapis/rpc v0.0.0-20241104194629-dd2ea8efbc28 // indirect
	google.golang.org/grpc v1.67.1 // indirect
	google.golang.org/protobuf v1.35.1 // indirect
	gopkg.in/yaml.v3 v3.0.1 // indirect
)

replace github.com/ory/fosite => /repo
