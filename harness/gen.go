package hx

// Seeded, structured history generator.  Generation is online: each operation is chosen knowing
// what the implementation handed out so far, so that most operations are meaningful (redeem a
// live code, refresh the newest or an older generation, replay, revoke as owner / foreigner,
// jump the clock across an expiry).  A profile biases the operation mix per property.

import (
	"net/url"
	"fmt"
	"strings"
	"testing"
	"testing/synctest"
)

type Profile struct {
	Name                                                                  string
	WAuthorize, WRedeem, WRefresh, WRevoke, WIntrospect, WAdvance, WSetClient, WPassword, WClientCreds, WIntrospectEP, WPush, WAuthorizePAR, WDeviceAuth, WDecide, WDevicePoll int
	PKCE                                                                  int // percent of authorizations carrying PKCE parameters
	Bad                                                                   int // percent of adversarial variants (wrong client, tamper, ...)
	ShortLives                                                            int // percent of histories with second-scale lifetimes
	ParEnforce                                                            int // percent of histories with enforced PAR
	NoRefreshScopes, NoRefreshGrant                                       int // percent: refresh scopes [] / clients without the refresh_token grant
	MinOps, MaxOps                                                        int
	PkceFlags                                                             bool // randomise enforcement flags
	Hybrid, Implicit                                                      int  // percent of authorizations using "code token" / "token"
	RawStore                                                              int  // percent of histories on the raw MemoryStore (monitors only)
	JWT                                                                   int  // percent of histories with JWT access tokens (monitors only)
	ClientLife                                                            int  // percent of clients with a table of lifetime overrides
	Contract                                                              int  // percent of histories on the contract-following device store
	Smuggle                                                               int
}

type gTok struct {
	kind     string
	client   int
	family   int // index of the code that started the grant
	redirect string
	verifier string
	altVerifier string // a verifier sent in the query next to a request_uri whose pushed request has its own challenge
	method   string
	used     bool
	issuedAt int64
	exp      int64 // expiry the introspection reported when the token was minted (0 = unknown)
	gone     bool  // the last probe reported the token inactive (access / refresh tokens)
	scopes   []string // requested scopes of the grant
	aud      []string
}

type gen struct {
	pending []HOp // scripted follow-up operations (run before anything else is drawn)
	r    *RNG
	p    *Profile
	h    *HHistory
	toks []gTok
	now  int64
	orig []HClient
}

var scopePool = []string{"offline", "photos", "users.read", "users.write", "a.b.c", "offline_access", "rt"}
var audPool = []string{"https://api.example.com/v1", "https://api.example.com/v1/users", "https://other.example/", "https://api.example.com/v10"}

func (g *gen) subset(pool []string, pct int) []string {
	out := []string{}
	for _, s := range pool {
		if g.r.Chance(pct) {
			out = append(out, s)
		}
	}
	return out
}

func (g *gen) verifierFor(i int) string {
	alphabet := "abcdefghijklmnopqrstuvwxyzABCDEFGHIJKLMNOPQRSTUVWXYZ0123456789-._~"
	n := 43 + g.r.Intn(30)
	if g.r.Chance(10) {
		n = 128
	}
	b := make([]byte, n)
	for j := range b {
		b[j] = alphabet[g.r.Intn(len(alphabet))]
	}
	return string(b)
}

func newGen(r *RNG, p *Profile) *gen {
	g := &gen{r: r, p: p, h: &HHistory{}}
	c := &g.h.Cfg
	c.Scope = Pick(r, []string{"wildcard", "wildcard", "exact", "hierarchic"})
	c.AudExact = r.Chance(30)
	rsel := r.Intn(4)
	if r.Chance(p.NoRefreshScopes) {
		rsel = 0
	}
	switch rsel {
	case 0:
		c.RefreshScopes = []string{}
	case 1:
		c.RefreshScopes = []string{"rt"}
	default:
		c.RefreshScopes = []string{"offline", "offline_access"}
	}
	if r.Chance(p.ShortLives) {
		c.LifeCode, c.LifeAT, c.LifeRT = 1500+int64(r.Intn(4))*500, 2500+int64(r.Intn(4))*250, 6000+int64(r.Intn(3))*500
	} else {
		c.LifeCode, c.LifeAT, c.LifeRT = 600000, 3600000, 86400000
	}
	if r.Chance(30) {
		c.LifeRT = -1
	}
	if p.PkceFlags {
		c.PkceEnforce = r.Chance(20)
		c.PkceEnforcePublic = r.Chance(35)
		c.PkcePlain = r.Chance(50)
	} else {
		c.PkcePlain = true
	}
	c.IntrospectRT = !r.Chance(15)
	c.LifeDev, c.ParLife = 600000, 300000
	if c.LifeCode < 10000 {
		c.LifeDev, c.ParLife = 3000+int64(r.Intn(4))*250, 2000+int64(r.Intn(3))*500
	}
	c.ParEnforced = r.Chance(p.ParEnforce)
	c.RawStore = r.Chance(p.RawStore)
	c.JWTAccess = r.Chance(p.JWT)
	if !c.JWTAccess && !c.RawStore {
		c.ContractStore = r.Chance(p.Contract)
	}
	n := 2 + r.Intn(3)
	for i := 0; i < n; i++ {
		cl := HClient{Public: r.Chance(30)}
		if r.Chance(p.ClientLife) {
			cl.Life = g.randLife(c)
		}
		cl.Grants = []string{"authorization_code", "refresh_token", "password", "client_credentials", "urn:ietf:params:oauth:grant-type:device_code", "implicit"}
		if r.Chance(20) {
			cl.Grants = cl.Grants[:5]
		}
		if r.Chance(18 + p.NoRefreshGrant) {
			cl.Grants = []string{"authorization_code", "password", "urn:ietf:params:oauth:grant-type:device_code"}
		}
		if r.Chance(15) {
			cl.Grants = []string{"authorization_code", "refresh_token"}
		}
		if r.Chance(12) {
			cl.Grants = []string{"authorization_code"}
		}
		if r.Chance(5) {
			cl.Grants = []string{"refresh_token"}
		}
		switch c.Scope {
		case "wildcard":
			cl.Scopes = []string{"offline", "photos", "users.*", "a.*", "rt", "offline_access"}
		case "hierarchic":
			cl.Scopes = []string{"offline", "photos", "users", "a.b", "rt", "offline_access"}
		default:
			cl.Scopes = []string{"offline", "photos", "users.read", "a.b.c", "rt", "offline_access"}
		}
		if r.Chance(25) {
			cl.Scopes = cl.Scopes[:2+r.Intn(3)]
		}
		cl.Aud = []string{"https://api.example.com/v1", "https://other.example/"}
		if r.Chance(20) {
			cl.Aud = cl.Aud[:1]
		}
		g.h.Clients = append(g.h.Clients, cl)
	}
	g.orig = append([]HClient{}, g.h.Clients...)
	return g
}

func (g *gen) pickTok(kind string, pred func(*gTok) bool) int {
	var c []int
	for i := range g.toks {
		if g.toks[i].kind == kind && (pred == nil || pred(&g.toks[i])) {
			c = append(c, i)
		}
	}
	if len(c) == 0 {
		return -1
	}
	// most operations aim at a credential the operation can still succeed on: not reported inactive, not yet expired by
	// the generator's clock, owned by a client that is registered for the grant
	if g.r.Chance(70) {
		var live []int
		for _, i := range c {
			t := &g.toks[i]
			if t.gone || t.used {
				continue
			}
			if t.kind == "code" && t.issuedAt+g.h.Cfg.LifeCode < g.now {
				continue
			}
			if t.kind == "refresh" && t.client < len(g.h.Clients) && !hasStr(g.h.Clients[t.client].Grants, "refresh_token") {
				continue
			}
			live = append(live, i)
		}
		if len(live) > 0 {
			c = live
		}
	}
	// prefer recent ones
	if g.r.Chance(60) {
		return c[len(c)-1-g.r.Intn(min(3, len(c)))]
	}
	return Pick(g.r, c)
}

func (g *gen) auth(owner int) int {
	if !g.r.Chance(g.p.Bad) {
		return owner
	}
	if g.r.Bool() {
		return -1
	}
	return g.r.Intn(len(g.h.Clients))
}

// staleReplay scripts "wait until a rotated-away token of a grant has itself expired while its successors are still
// valid, then replay the grant's code or that refresh token": the replay must still kill what is alive now.
func (g *gen) staleReplay() bool {
	var cand []int
	for i := range g.toks {
		t := &g.toks[i]
		if (t.kind != "access" && t.kind != "refresh") || t.exp <= g.now || !(t.gone || t.used) {
			continue
		}
		for j := range g.toks {
			u := &g.toks[j]
			if j != i && u.family == t.family && (u.kind == "access" || u.kind == "refresh") && !u.gone && !u.used && (u.exp == 0 || u.exp > t.exp+700) {
				cand = append(cand, i)
				break
			}
		}
	}
	if len(cand) == 0 {
		return false
	}
	i := Pick(g.r, cand)
	t := &g.toks[i]
	adv := HOp{Kind: "advance", Ms: t.exp - g.now + Pick(g.r, []int64{1, 250, 600})}
	var rep HOp
	if t.kind == "refresh" && g.r.Bool() {
		rep = HOp{Kind: "refresh", Tok: HTok{Ref: i}, Auth: t.client}
	} else if t.family >= 0 && t.family < len(g.toks) && g.toks[t.family].kind == "code" {
		c := &g.toks[t.family]
		rep = HOp{Kind: "redeem", Tok: HTok{Ref: t.family}, Auth: c.client, Redirect: c.redirect, Verifier: c.verifier}
	} else if t.kind == "refresh" {
		rep = HOp{Kind: "refresh", Tok: HTok{Ref: i}, Auth: t.client}
	} else {
		return false
	}
	g.pending = append(g.pending, adv, rep)
	return true
}

// pausedRefresh scripts "let some time pass, then the owner refreshes a token that is still valid": the new tokens' lifetimes
// must start at the refresh, not at the original grant
func (g *gen) pausedRefresh() bool {
	j := g.pickTok("refresh", func(t *gTok) bool {
		return !t.used && !t.gone && (t.exp == 0 || t.exp > g.now+2000) && t.client < len(g.h.Clients) && hasStr(g.h.Clients[t.client].Grants, "refresh_token")
	})
	if j < 0 || g.toks[j].used || g.toks[j].gone {
		return false
	}
	g.pending = append(g.pending, HOp{Kind: "advance", Ms: 600 + int64(g.r.Intn(8))*200}, HOp{Kind: "refresh", Tok: HTok{Ref: j}, Auth: g.toks[j].client})
	return true
}

// expiredRevoke scripts "an access token expires while the refresh token issued alongside it is still valid, some other
// token is issued, then the owner revokes the expired access token": the revocation is accepted and retires the pair
func (g *gen) expiredRevoke() bool {
	var cand []int
	for i := range g.toks {
		t := &g.toks[i]
		if t.kind != "access" || t.gone || t.used || t.exp <= g.now {
			continue
		}
		for j := range g.toks {
			u := &g.toks[j]
			if u.kind == "refresh" && u.family == t.family && u.issuedAt == t.issuedAt && !u.gone && !u.used && (u.exp == 0 || u.exp > t.exp+2000) {
				cand = append(cand, i)
				break
			}
		}
	}
	if len(cand) == 0 {
		return false
	}
	i := Pick(g.r, cand)
	t := &g.toks[i]
	other := g.r.Intn(len(g.h.Clients))
	g.pending = append(g.pending,
		HOp{Kind: "advance", Ms: t.exp - g.now + Pick(g.r, []int64{1, 300, 900})},
		HOp{Kind: "password", Auth: other, CredsOK: true, Scopes: []string{"photos"}, Granted: []string{"photos"}},
		HOp{Kind: "revoke", Tok: HTok{Ref: i}, Auth: t.client, Hint: Pick(g.r, []string{"access_token", "", "refresh_token"})})
	return true
}

func (g *gen) next() HOp {
	p := g.p
	if len(g.pending) == 0 && g.r.Chance(4) {
		g.staleReplay()
	}
	if len(g.pending) == 0 && p.WRevoke >= 8 && g.r.Chance(3) {
		g.expiredRevoke()
	}
	if len(g.pending) == 0 && g.r.Chance(5) {
		g.pausedRefresh()
	}
	if len(g.pending) > 0 {
		op := g.pending[0]
		g.pending = g.pending[1:]
		return op
	}
	total := p.WAuthorize + p.WRedeem + p.WRefresh + p.WRevoke + p.WIntrospect + p.WAdvance + p.WSetClient + p.WPassword + p.WClientCreds + p.WIntrospectEP + p.WPush + p.WAuthorizePAR + p.WDeviceAuth + p.WDecide + p.WDevicePoll
	x := g.r.Intn(total)
	pick := func(w int) bool {
		if x < w {
			return true
		}
		x -= w
		return false
	}
	r := g.r
	switch {
	case pick(p.WAuthorize) || len(g.toks) == 0:
		op := HOp{Kind: "authorize", Client: r.Intn(len(g.h.Clients)), Subject: fmt.Sprintf("user-%d", r.Intn(3))}
		op.Scopes = g.subset(scopePool, 45)
		if r.Chance(6) {
			op.Scopes = append(op.Scopes, "admin")
		}
		op.Granted = append([]string{}, op.Scopes...)
		if r.Chance(25) && len(op.Granted) > 0 {
			op.Granted = op.Granted[:len(op.Granted)-1]
		}
		if r.Chance(60) {
			op.Redirect = clientRedirect(op.Client)
		}
		op.ForeignURI = r.Chance(15)
		if r.Chance(p.Hybrid) {
			op.RType = "code token"
			if r.Chance(85) {
				op.Redirect = clientRedirect(op.Client)
			}
		} else if r.Chance(p.Implicit) {
			op.RType = "token"
		}
		if r.Chance(35) {
			op.Aud = g.subset(audPool, 40)
		}
		op.GAud = append([]string{}, op.Aud...)
		if r.Chance(20) && len(op.GAud) > 0 {
			op.GAud = op.GAud[1:]
		}
		if r.Chance(18) {
			// the integrator grants an audience that was not requested
			if x := Pick(r, audPool); !strings.Contains(" "+strings.Join(op.GAud, " ")+" ", " "+x+" ") {
				op.GAud = append(op.GAud, x)
			}
		}
		if r.Chance(p.PKCE) {
			v := g.verifierFor(0)
			if r.Chance(15) {
				// a challenge derived from a verifier that is not well-formed: must never be redeemable
				switch r.Intn(3) {
				case 0:
					bad := Pick(r, []string{"!", "[", "\\", "]", "^", "`", "@", "/", "+", "=", " ", "*"})
					k := r.Intn(len(v))
					v = v[:k] + bad + v[k+1:]
				case 1:
					v = v[:42]
				case 2:
					v = v + strings.Repeat("x", 129-len(v))
				}
			}
			switch r.Intn(10) {
			case 0, 1, 2, 3, 4:
				op.Challenge, op.Method = s256(v), "S256"
			case 5, 6:
				op.Challenge, op.Method = v, "plain"
			case 7:
				op.Challenge, op.Method = v, ""
			case 8:
				op.Challenge, op.Method = s256(v), Pick(r, []string{"S512", "s256", "S256 ", "PLAIN", "Plain", "none"})
			case 9:
				op.Challenge, op.Method = "", "S256"
			}
			op.Verifier = v // remembered by the generator only
		}
		return op
	case pick(p.WRedeem):
		i := g.pickTok("code", func(t *gTok) bool { return !t.used || r.Chance(35) })
		if i < 0 {
			i = g.pickTok("code", nil)
		}
		op := HOp{Kind: "redeem", Tok: HTok{Ref: i}}
		if i < 0 {
			op.Auth = g.auth(0)
			return op
		}
		t := &g.toks[i]
		op.Auth = g.auth(t.client)
		op.Redirect = t.redirect
		if r.Chance(p.Bad) {
			cr := clientRedirect(t.client)
			op.Redirect = Pick(r, []string{"", "https://evil.example/cb", cr + "/", strings.ToUpper(cr),
				// the same URI under another encoding: still a different string
				strings.Replace(cr, "/cb", "/c%62", 1), url.QueryEscape(cr), strings.Replace(cr, "example", "ex%61mple", 1),
				// the same host under another port, and without one
				otherPort(cr, ":49152"), otherPort(cr, "")})
		} else if op.Redirect == "" && r.Chance(30) {
			op.Redirect = clientRedirect(t.client)
		}
		if t.verifier != "" {
			switch {
			case t.altVerifier != "" && r.Chance(35):
				op.Verifier = t.altVerifier // the query's verifier: the pushed challenge is authoritative, so this must fail
			case !r.Chance(2 * p.Bad):
				op.Verifier = t.verifier
			default:
				switch r.Intn(6) {
				case 0:
					op.Verifier = ""
				case 1:
					op.Verifier = g.verifierFor(0)
				case 2:
					op.Verifier = t.verifier[:20]
				case 3:
					bad := Pick(r, []string{"!", "[", "\\", "]", "^", "`", "@", "/", "+", "=", " ", "%", "*", "\x7f", "\xc3\xa9"})
					k := r.Intn(len(t.verifier))
					op.Verifier = t.verifier[:k] + bad + t.verifier[k+1:]
				case 4:
					op.Verifier = s256(t.verifier)
				case 5:
					op.Verifier = t.verifier + strings.Repeat("a", 129-len(t.verifier))
				}
			}
		} else if r.Chance(p.Bad) {
			op.Verifier = g.verifierFor(0)
		}
		if r.Chance(p.Bad / 3) {
			op.Tok.Tamper = true
		}
		if r.Chance(p.Bad / 4) {
			op.Tok.Ref = -1
		}
		if r.Chance(p.Smuggle) {
			op.Smuggled = []string{"admin", "photos"}
		}
		if r.Chance(8) {
			// impersonation attempt: another public client identifies itself in the Basic header and names the code's
			// owner in the client_id parameter; everything else about the request is right
			var pubs []int
			for k, cl := range g.h.Clients {
				if k != t.client && cl.Public && hasStr(cl.Grants, "authorization_code") {
					pubs = append(pubs, k)
				}
			}
			if len(pubs) > 0 {
				op.Auth, op.PublicBasic, op.ClaimedClient = Pick(r, pubs), true, t.client+1
				op.Tok = HTok{Ref: i}
				op.Redirect, op.Verifier = t.redirect, t.verifier
				if op.Redirect == "" {
					op.Redirect = clientRedirect(t.client)
				}
			}
		}
		// half of the wrong redirect_uri presentations are the omitted one, sent together with a code_verifier (the right
		// one when the code has a challenge): the binding to the redirect_uri must not depend on other parameters of the
		// token request (no draw from the PRNG)
		if t.redirect != "" && op.Redirect != t.redirect && !op.PublicBasic && len(g.h.Ops)%2 == 0 {
			op.Redirect = ""
			if op.Verifier == "" {
				op.Verifier = t.verifier
				if op.Verifier == "" {
					op.Verifier = "omitted-redirect-with-a-verifier-0123456789abcdefghij"
				}
			}
		}
		return op
	case pick(p.WRefresh):
		i := g.pickTok("refresh", func(t *gTok) bool { return !t.used || r.Chance(40) })
		if i < 0 {
			i = g.pickTok("refresh", nil)
		}
		if i < 0 && !r.Chance(15) {
			// nothing to refresh yet: move a flow forward instead
			if j := g.pickTok("code", func(t *gTok) bool { return !t.used }); j >= 0 {
				t := &g.toks[j]
				return HOp{Kind: "redeem", Tok: HTok{Ref: j}, Auth: t.client, Redirect: t.redirect, Verifier: t.verifier}
			}
		}
		if i < 0 || r.Chance(p.Bad/4) {
			i = g.pickTok("access", nil) // an access token presented as a refresh token
		}
		op := HOp{Kind: "refresh", Tok: HTok{Ref: i}}
		owner := 0
		if i >= 0 {
			owner = g.toks[i].client
		}
		op.Auth = g.auth(owner)
		if i >= 0 && g.toks[i].kind == "refresh" && ((g.toks[i].used && r.Chance(25)) || r.Chance(6)) {
			// an exchanged refresh token replayed by another registered client that may use the grant
			var others []int
			for k, cl := range g.h.Clients {
				if k != owner && hasStr(cl.Grants, "refresh_token") {
					others = append(others, k)
				}
			}
			if len(others) > 0 {
				op.Auth = Pick(r, others)
			}
		}
		if r.Chance(p.Bad / 3) {
			op.Tok.Tamper = true
		}
		if r.Chance(p.Smuggle) {
			op.Smuggled = []string{"admin", "users.write"}
		}
		return op
	case pick(p.WRevoke):
		kind := Pick(r, []string{"access", "refresh"})
		i := g.pickTok(kind, nil)
		usedRT := false
		if r.Chance(20) {
			// a refresh token that was already exchanged: must be answered with success and change nothing
			if j := g.pickTok("refresh", func(t *gTok) bool { return t.used }); j >= 0 {
				i, usedRT = j, true
			}
		}
		op := HOp{Kind: "revoke", Tok: HTok{Ref: i}}
		owner := 0
		if i >= 0 {
			owner = g.toks[i].client
		}
		op.Auth = g.auth(owner)
		op.Hint = Pick(r, []string{"access_token", "refresh_token", "other", ""})
		if usedRT && r.Chance(70) {
			op.Hint = "refresh_token"
		}
		if r.Chance(p.Bad / 3) {
			op.Tok.Tamper = true
		}
		return op
	case pick(p.WIntrospect):
		kind := Pick(r, []string{"access", "refresh"})
		i := g.pickTok(kind, nil)
		op := HOp{Kind: "introspect", Tok: HTok{Ref: i, Tamper: r.Chance(15)}, Hint: Pick(r, []string{"access_token", "refresh_token", "other", ""})}
		if r.Chance(65) {
			if i >= 0 && len(g.toks[i].scopes) > 0 && r.Chance(70) {
				// scopes the grant asked for (granted or not)
				op.Scopes = g.subset(g.toks[i].scopes, 50)
				if len(op.Scopes) == 0 {
					op.Scopes = []string{g.toks[i].scopes[len(g.toks[i].scopes)-1]}
				}
			} else {
				op.Scopes = g.subset([]string{"photos", "users.read", "offline", "", "users", "a.b.c.d"}, 30)
			}
		}
		return op
	case pick(p.WPassword), pick(p.WClientCreds):
		op := HOp{Kind: "password", CredsOK: !r.Chance(p.Bad)}
		if r.Chance(35) {
			op.Kind = "clientcreds"
		}
		op.Auth = g.auth(r.Intn(len(g.h.Clients)))
		op.Scopes = g.subset(scopePool, 40)
		if r.Chance(6) {
			op.Scopes = append(op.Scopes, "admin")
		}
		op.Granted = append([]string{}, op.Scopes...)
		if r.Chance(25) && len(op.Granted) > 0 {
			op.Granted = op.Granted[:len(op.Granted)-1]
		}
		if r.Chance(30) {
			op.Aud = g.subset(audPool, 40)
		}
		op.GAud = append([]string{}, op.Aud...)
		return op
	case pick(p.WIntrospectEP):
		kind := Pick(r, []string{"access", "refresh"})
		i := g.pickTok(kind, nil)
		op := HOp{Kind: "introspect_ep", Tok: HTok{Ref: i, Tamper: r.Chance(10)}, Hint: Pick(r, []string{"access_token", "refresh_token", "other", ""})}
		if i >= 0 && len(g.toks[i].scopes) > 0 && r.Chance(40) {
			op.Scopes = g.subset(g.toks[i].scopes, 50)
		}
		switch r.Intn(10) {
		case 0, 1, 2, 3:
			// a confidential client's Basic credentials
			op.Auth = -1
			for tries := 0; tries < 6; tries++ {
				c := r.Intn(len(g.h.Clients))
				if !g.h.Clients[c].Public {
					op.Auth = c
					break
				}
			}
		case 4:
			op.Auth = -1
		default:
			bk := Pick(r, []string{"access", "access", "access", "refresh", "code"})
			j := g.pickTok(bk, nil)
			if r.Chance(15) {
				j = i // the same token as bearer and as subject of the request
			}
			b := HTok{Ref: j, Tamper: r.Chance(8)}
			if j == i {
				b.Tamper = op.Tok.Tamper
			}
			op.Bearer = &b
		}
		return op
	case pick(p.WPush):
		op := HOp{Kind: "push", Subject: ""}
		c := r.Intn(len(g.h.Clients))
		op.Auth = g.auth(c)
		op.BodyClient = -1
		switch r.Intn(10) {
		case 0, 1:
			op.BodyClient = c
		case 2, 3:
			op.BodyClient = r.Intn(len(g.h.Clients)) // possibly another client's id
		}
		if op.Auth >= 0 && g.h.Clients[op.Auth].Public && op.BodyClient >= 0 {
			op.BodyClient = op.Auth // a public client is identified by the body's client_id
		}
		op.IDInQuery = op.BodyClient >= 0 && len(g.h.Ops)%5 < 2 // no draw from the PRNG: the histories of every seed stay what they were
		owner := c
		if op.Auth >= 0 {
			owner = op.Auth
		}
		if op.BodyClient >= 0 {
			owner = op.BodyClient
		}
		op.Client = owner
		op.Scopes = g.subset(scopePool, 45)
		if r.Chance(6) {
			op.Scopes = append(op.Scopes, "admin")
		}
		op.Redirect = clientRedirect(owner)
		if r.Chance(25) {
			op.Aud = g.subset(audPool, 40)
		}
		if r.Chance(p.PKCE + 20) {
			v := g.verifierFor(0)
			if r.Bool() {
				op.Challenge, op.Method = s256(v), "S256"
			} else {
				op.Challenge, op.Method = v, "plain"
			}
			op.Verifier = v
		}
		op.HasRequestURI = r.Chance(4)
		if r.Chance(35) {
			op.Mode = Pick(r, []string{"form_post", "fragment", "query"})
		}
		return op
	case pick(p.WAuthorizePAR):
		i := g.pickTok("par", func(t *gTok) bool { return !t.used || r.Chance(25) })
		if r.Chance(6) {
			i = -1
		}
		op := HOp{Kind: "authorize_par", Tok: HTok{Ref: i}, Subject: fmt.Sprintf("user-%d", r.Intn(3))}
		if i >= 0 {
			t := &g.toks[i]
			op.Client = t.client
			if r.Chance(p.Bad) {
				op.Client = r.Intn(len(g.h.Clients))
			}
			op.Granted = append([]string{}, t.scopes...)
			if r.Chance(25) && len(op.Granted) > 0 {
				op.Granted = op.Granted[:len(op.Granted)-1]
			}
			if r.Chance(30) { // conflicting query parameters
				op.Redirect = "https://evil.example/cb"
				op.Scopes = []string{"admin", "photos"}
			}
			if r.Chance(25) {
				op.Mode = Pick(r, []string{"form_post", "fragment", "query"})
			}
			if r.Chance(25) || (t.verifier != "" && r.Chance(40)) {
				// PKCE parameters in the query next to the request_uri (the pushed ones, if any, are authoritative)
				v := g.verifierFor(0)
				if r.Bool() {
					op.Challenge, op.Method = s256(v), "S256"
				} else {
					op.Challenge, op.Method = v, "plain"
				}
				op.Verifier = v
			}
		} else {
			op.Client = r.Intn(len(g.h.Clients))
		}
		return op
	case pick(p.WDeviceAuth):
		c := r.Intn(len(g.h.Clients))
		op := HOp{Kind: "device_auth", Auth: g.auth(c), BodyClient: c}
		if op.Auth >= 0 {
			op.BodyClient = op.Auth
		}
		if r.Chance(p.Bad) && op.Auth >= 0 && !g.h.Clients[op.Auth].Public {
			op.BodyClient = r.Intn(len(g.h.Clients))
		}
		op.Scopes = g.subset(scopePool, 45)
		if r.Chance(6) {
			op.Scopes = append(op.Scopes, "admin")
		}
		if r.Chance(25) {
			op.Aud = g.subset(audPool, 40)
		}
		return op
	case pick(p.WDecide):
		i := g.pickTok("device", nil)
		op := HOp{Kind: "decide", Tok: HTok{Ref: i}, Accept: !r.Chance(25), Subject: fmt.Sprintf("user-%d", r.Intn(3)), FreshSession: r.Chance(30)}
		if i >= 0 {
			op.Granted = append([]string{}, g.toks[i].scopes...)
			if r.Chance(25) && len(op.Granted) > 0 {
				op.Granted = op.Granted[:len(op.Granted)-1]
			}
			op.GAud = append([]string{}, g.toks[i].aud...)
			// partial consent to the audience (no draw from the PRNG)
			if len(op.GAud) > 0 && len(g.h.Ops)%3 == 0 {
				op.GAud = op.GAud[:len(op.GAud)-1]
			}
		}
		return op
	case pick(p.WDevicePoll):
		i := g.pickTok("device", func(t *gTok) bool { return !t.used || r.Chance(35) })
		if i < 0 {
			i = g.pickTok("device", nil)
		}
		op := HOp{Kind: "device_poll", Tok: HTok{Ref: i, Tamper: r.Chance(p.Bad / 3)}}
		owner := 0
		if i >= 0 {
			owner = g.toks[i].client
		}
		op.Auth = g.auth(owner)
		if r.Chance(p.Bad / 4) {
			op.Tok.Ref = -1
		}
		return op
	case pick(p.WAdvance):
		op := HOp{Kind: "advance"}
		c := &g.h.Cfg
		switch r.Intn(5) {
		case 0:
			op.Ms = int64(1 + r.Intn(1500))
		case 1, 2:
			// land near an expiry of some credential
			if len(g.toks) > 0 {
				t := Pick(r, g.toks)
				life := map[string]int64{"code": c.LifeCode, "access": c.LifeAT, "refresh": c.LifeRT, "device": c.LifeDev, "user": c.LifeDev, "par": c.ParLife}[t.kind]
				if t.exp > 0 || life > 0 {
					target := t.issuedAt + life + Pick(r, []int64{-1000, -501, -500, -499, -1, 0, 1, 499, 500, 501, 999, 1000, 1001})
					if t.exp > 0 {
						target = t.exp + Pick(r, []int64{-1000, -501, -500, -499, -1, 0, 1, 499, 500, 501, 999, 1000, 1001})
					}
					if target > g.now {
						op.Ms = target - g.now
						break
					}
				}
			}
			op.Ms = int64(250 * (1 + r.Intn(8)))
		case 3:
			op.Ms = int64(60000 * (1 + r.Intn(30)))
		case 4:
			op.Ms = Pick(r, []int64{3600000, 86400000, 599000, 601000, 3599500, 3600500})
		}
		return op
	default:
		i := r.Intn(len(g.h.Clients))
		nc := g.orig[i]
		cur := g.h.Clients[i]
		which := Pick(r, []int{0, 0, 1, 2, 3, 4, 4, 4, 5, 5, 6, 6, 7, 7, 7, 7})
		if which == 7 {
			// take away a scope that a live refresh token's grant carries, from a client that may still refresh
			j := g.pickTok("refresh", func(t *gTok) bool {
				return !t.used && !t.gone && len(t.scopes) > 0 && t.client < len(g.h.Clients) && hasStr(g.h.Clients[t.client].Grants, "refresh_token")
			})
			if j >= 0 {
				t := &g.toks[j]
				i = t.client
				cur = g.h.Clients[i]
				nc = cur
				s := Pick(r, t.scopes)
				seg := strings.SplitN(s, ".", 2)[0]
				nc.Scopes = nil
				for _, e := range cur.Scopes {
					if e != s && strings.SplitN(e, ".", 2)[0] != seg {
						nc.Scopes = append(nc.Scopes, e)
					}
				}
				nc.Public = g.orig[i].Public
				return HOp{Kind: "setclient", Client: i, NewClient: &nc}
			}
			which = 0
		}
		switch which {
		case 6: // change the table of lifetime overrides
			nc = cur
			if cur.Life != nil && r.Chance(30) {
				nc.Life = nil
			} else {
				nc.Life = g.randLife(&g.h.Cfg)
			}
		case 5: // drop one registered audience
			if len(cur.Aud) > 0 {
				k := r.Intn(len(cur.Aud))
				nc = cur
				nc.Aud = append(append([]string{}, cur.Aud[:k]...), cur.Aud[k+1:]...)
			}
		case 0:
			if len(cur.Scopes) > 1 {
				k := r.Intn(len(cur.Scopes))
				nc = cur
				nc.Scopes = append(append([]string{}, cur.Scopes[:k]...), cur.Scopes[k+1:]...)
			}
		case 1:
			nc = cur
			nc.Grants = []string{"authorization_code"}
		case 2:
			nc = cur
			nc.Aud = nil
		case 3:
			nc = cur
			nc.Grants = []string{"refresh_token"}
		case 4: // restore
		}
		nc.Public = g.orig[i].Public
		return HOp{Kind: "setclient", Client: i, NewClient: &nc}
	}
}

// otherPort replaces (or adds, or with port == "" removes) the port of a redirect URI.
func otherPort(u, port string) string {
	pu, err := url.Parse(u)
	if err != nil {
		return u + port
	}
	if port == "" && pu.Port() == "" {
		port = ":8443"
	}
	pu.Host = pu.Hostname() + port
	return pu.String()
}

// genHistory generates and executes one history.
func genHistory(t *testing.T, r *RNG, p *Profile) (*HHistory, []HObs) {
	g := newGen(r, p)
	var res []HObs
	synctest.Test(t, func(t *testing.T) {
		w := newWorld(t, g.h)
		n := p.MinOps + r.Intn(p.MaxOps-p.MinOps+1)
		for k := 0; k < n; k++ {
			op := g.next()
			if (op.Kind == "redeem" || op.Kind == "refresh" || op.Kind == "device_poll" || op.Kind == "revoke") && op.Auth >= 0 && op.Auth < len(g.h.Clients) && g.h.Clients[op.Auth].Public && r.Chance(30) {
				op.PublicBasic = true
			}
			if (op.Kind == "redeem" || op.Kind == "refresh") && r.Chance(3) {
				// the same request under another spelling of the grant type: no handler may take it
				if op.Kind == "redeem" {
					op.GrantSpelling = Pick(r, []string{"Authorization_Code", "AUTHORIZATION_CODE", "authorization-code"})
				} else {
					op.GrantSpelling = Pick(r, []string{"Refresh_Token", "REFRESH_TOKEN"})
				}
			}
			if op.Kind == "redeem" || op.Kind == "refresh" || op.Kind == "device_poll" {
				// the token's owner named in the body while another client authenticates
				if op.Tok.Ref >= 0 && op.Tok.Ref < len(g.toks) && op.Auth >= 0 && op.Auth != g.toks[op.Tok.Ref].client && r.Chance(60) {
					op.ClaimedClient = g.toks[op.Tok.Ref].client + 1
				} else if r.Chance(p.Bad / 2) {
					op.ClaimedClient = r.Intn(len(g.h.Clients)) + 1
				}
			}
			verifier := op.Verifier
			if op.Kind == "authorize" || op.Kind == "push" || op.Kind == "authorize_par" {
				op.Verifier = ""
			}
			// every other presentation of a never-issued token is an issued one of the matching kind with white space
			// appended (no draw from the PRNG: the histories of every seed keep their operations)
			if op.Tok.Ref < 0 && len(g.h.Ops)%2 == 0 {
				want := map[string]string{"redeem": "code", "refresh": "refresh", "device_poll": "device", "authorize_par": "par"}[op.Kind]
				for j := len(g.toks) - 1; j >= 0; j-- {
					k := g.toks[j].kind
					if k == want || (want == "" && (k == "access" || k == "refresh") && (op.Kind == "introspect" || op.Kind == "introspect_ep" || op.Kind == "revoke")) {
						op.Tok.PadOf, op.Tok.Pad = j+1, []string{" ", "\n", "\t", "  "}[len(g.h.Ops)/2%4]
						break
					}
				}
			}
			o := w.exec(&op)
			o.Probes = w.probe()
			g.h.Ops = append(g.h.Ops, op)
			res = append(res, o)
			// update the generator's picture
			defer0 := len(g.toks)
			_ = defer0
			switch op.Kind {
			case "authorize":
				for _, m := range o.Minted {
					if m == "code" {
						g.toks = append(g.toks, gTok{kind: "code", client: op.Client, family: len(g.toks), redirect: op.Redirect, verifier: verifier, method: op.Method, issuedAt: g.now, scopes: op.Scopes})
					} else {
						g.toks = append(g.toks, gTok{kind: "access", client: op.Client, family: len(g.toks), issuedAt: g.now, scopes: op.Scopes})
					}
				}
			case "push":
				if len(o.Minted) == 1 {
					g.toks = append(g.toks, gTok{kind: "par", client: op.Client, family: len(g.toks), redirect: op.Redirect, verifier: verifier, method: op.Method, issuedAt: g.now, scopes: op.Scopes})
				}
			case "authorize_par":
				if op.Tok.Ref >= 0 && op.Tok.Ref < len(g.toks) {
					g.toks[op.Tok.Ref].used = true
					if len(o.Minted) == 1 {
						src := g.toks[op.Tok.Ref]
						v, alt := src.verifier, ""
						if v == "" {
							v = verifier
						} else {
							alt = verifier
						}
						g.toks = append(g.toks, gTok{kind: "code", client: src.client, family: len(g.toks), redirect: src.redirect, verifier: v, altVerifier: alt, issuedAt: g.now, scopes: src.scopes})
					}
				}
			case "device_auth":
				if len(o.Minted) == 2 {
					g.toks = append(g.toks, gTok{kind: "device", client: op.BodyClient, family: len(g.toks), issuedAt: g.now, scopes: op.Scopes, aud: op.Aud},
						gTok{kind: "user", client: op.BodyClient, family: len(g.toks), issuedAt: g.now})
				}
			case "device_poll":
				if o.Err == "" && op.Tok.Ref >= 0 {
					g.toks[op.Tok.Ref].used = true
					src := g.toks[op.Tok.Ref]
					for _, m := range o.Minted {
						g.toks = append(g.toks, gTok{kind: m, client: src.client, family: src.family, issuedAt: g.now, scopes: src.scopes})
					}
				}
			case "password", "clientcreds":
				if o.Err == "" {
					for _, m := range o.Minted {
						g.toks = append(g.toks, gTok{kind: m, client: op.Auth, family: len(g.toks), issuedAt: g.now, scopes: op.Scopes})
					}
				}
			case "redeem", "refresh":
				if o.Err == "" && op.Tok.Ref >= 0 {
					g.toks[op.Tok.Ref].used = true
					src := g.toks[op.Tok.Ref]
					for _, m := range o.Minted {
						g.toks = append(g.toks, gTok{kind: m, client: src.client, family: src.family, issuedAt: g.now, scopes: src.scopes})
					}
				}
			case "advance":
				g.now += op.Ms
			case "setclient":
				g.h.Clients[op.Client] = *op.NewClient
			}
			for j := defer0; j < len(g.toks) && j < len(o.Probes); j++ {
				if o.Probes[j] != nil && o.Probes[j].Exp != nil {
					g.toks[j].exp = *o.Probes[j].Exp
				}
			}
			for j := 0; j < len(g.toks) && j < len(o.Probes); j++ {
				if k := g.toks[j].kind; k == "access" || k == "refresh" {
					g.toks[j].gone = o.Probes[j] == nil
				}
			}
		}
	})
	// HHistory.Clients must be the initial registrations for replay
	g.h.Clients = g.orig
	return g.h, res
}

func opHistogram(out *Out, h *HHistory, obs []HObs) {
	for i, op := range h.Ops {
		out.Count("op:" + op.Kind)
		if obs[i].Err != "" {
			out.Count("err:" + op.Kind + ":" + obs[i].Err)
		} else {
			out.Count("ok:" + op.Kind)
		}
	}
	out.Count(fmt.Sprintf("len:%02d-%02d", len(h.Ops)/10*10, len(h.Ops)/10*10+9))
}


// a table of lifetime overrides: each pair set with probability 45 %, values on the same scale as the server's
func (g *gen) randLife(c *HConfig) map[string]int64 {
	m := map[string]int64{}
	for _, k := range lifeKeys {
		pct := 45
		if c.LifeRT < 0 && strings.HasSuffix(k, "_rt") {
			pct = 75 // finite per-client refresh-token lifetimes under an unlimited server default
		}
		if !g.r.Chance(pct) {
			continue
		}
		if c.LifeAT < 10000 {
			m[k] = 1500 + int64(g.r.Intn(20))*250
		} else {
			m[k] = Pick(g.r, []int64{120000, 1800000, 7200000, 90000})
		}
		if strings.HasSuffix(k, "_rt") && g.r.Chance(12) {
			m[k] = -1
		}
	}
	return m
}


func hasStr(l []string, x string) bool {
	for _, y := range l {
		if y == x {
			return true
		}
	}
	return false
}
