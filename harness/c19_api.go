package hx

// C19 API-pair stream: the scenarios of the schedule stream (two or three API operations on
// overlapping tokens) run FREE, each operation in its own goroutine, under the race detector.
// The same harness package is built a second time with `go test -race` and run as a child
// process with HX_PROP=C19apirace; the parent parses the detector's reports.  Directed
// confirmation of races between whole requests (shared session objects, store tables).

import (
	"bytes"
	"context"
	"fmt"
	"os"
	"os/exec"
	"path/filepath"
	"sort"
	"strconv"
	"strings"
	"sync"
	"testing"
	"time"
)

func init() { Register("C19apirace", runC19ApiRaceChild) }

// child: runs inside the race-enabled binary
func runC19ApiRaceChild(t *testing.T, e Env) {
	skip, _ := strconv.Atoi(os.Getenv("C19R_SKIP"))
	onlyName := os.Getenv("C19R_ONLY")
	reps, _ := strconv.Atoi(os.Getenv("C19R_REPS"))
	if reps <= 0 {
		reps = 3
	}
	idx := 0
	for _, sc := range c19Scenarios() {
		for _, variant := range []int{0, 3} {
			for rep := 0; rep < reps; rep++ {
				cur := idx
				idx++
				if cur < skip || (onlyName != "" && onlyName != sc.Name) {
					continue
				}
				w := newC19World(variant)
				ops, err := sc.Build(w)
				if err != nil {
					t.Fatalf("%s: %v", sc.Name, err)
				}
				os.Stderr.WriteString(fmt.Sprintf("@@API %d %s %d BEGIN\n", cur, sc.Name, variant))
				var wg sync.WaitGroup
				start := make(chan struct{})
				for i, op := range ops {
					wg.Add(1)
					go func(i int, op c19Op) {
						defer wg.Done()
						defer func() {
							if p := recover(); p != nil {
								os.Stderr.WriteString(fmt.Sprintf("@@PANIC %v\n", p))
							}
						}()
						<-start
						// no stagger: the interesting races need both requests to pass their first
						// storage call before either finishes (timing dependent, hence repetitions)
						op.Run(context.Background())
					}(i, op)
				}
				close(start)
				done := make(chan struct{})
				go func() { wg.Wait(); close(done) }()
				select {
				case <-done:
				case <-time.After(20 * time.Second):
					os.Stderr.WriteString("@@DEADLOCK " + sc.Name + "\n")
					t.Fatalf("watchdog")
				}
				os.Stderr.WriteString(fmt.Sprintf("@@API %d %s %d END\n", cur, sc.Name, variant))
			}
		}
	}
	os.Stderr.WriteString(fmt.Sprintf("@@DONE %d\n", idx))
}

// parent
func c19ApiStream(t *testing.T, e Env, out *Out, only *c19Replay) {
	bin := filepath.Join(e.Out, "..", "bin", "hxrace.test")
	build := exec.Command("go1.26.8", "test", "-race", "-c", "-o", bin, ".")
	build.Env = append(os.Environ(), "CGO_ENABLED=1")
	if b, err := build.CombinedOutput(); err != nil {
		t.Fatalf("building the race-enabled harness failed: %v\n%s", err, b)
	}
	type key struct {
		sc string
		v  int
	}
	classes := map[key]map[string]string{} // scenario -> class pair -> report
	order := []key{}
	reps := 3
	if e.Tier == "thorough" {
		reps = 25
	}
	done, total := 0, len(c19Scenarios())*2*reps
	for restarts := 0; done < total; restarts++ {
		if restarts > 30 {
			t.Fatalf("race-enabled harness restarted too often")
		}
		cmd := exec.Command(bin, "-test.run", "^TestHX$", "-test.count=1", "-test.timeout=600s")
		cmd.Env = append(os.Environ(), "HX_PROP=C19apirace", "HX_REPLAY=", fmt.Sprintf("C19R_SKIP=%d", done), fmt.Sprintf("C19R_REPS=%d", reps), "GORACE=halt_on_error=0")
		if only != nil {
			cmd.Env = append(cmd.Env, "C19R_ONLY="+only.F)
		}
		var buf bytes.Buffer
		cmd.Stdout = &buf
		cmd.Stderr = &buf
		runErr := cmd.Run()
		var cur *key
		curIdx := -1
		finished, died := false, false
		for _, ev := range splitRaceOutput(buf.Bytes()) {
			switch {
			case strings.HasPrefix(ev.Marker, "DONE"):
				finished = true
			case strings.HasPrefix(ev.Marker, "DEADLOCK") && cur != nil:
				classes[*cur]["DEADLOCK|no operation made progress (watchdog)"] = ev.Marker
				done = curIdx + 1
				cur = nil
				died = true
			case strings.HasPrefix(ev.Marker, "API "):
				f := strings.Fields(ev.Marker)
				i, _ := strconv.Atoi(f[1])
				v, _ := strconv.Atoi(f[3])
				k := key{f[2], v}
				if f[4] == "BEGIN" {
					cur, curIdx = &k, i
					if classes[k] == nil {
						classes[k] = map[string]string{}
						order = append(order, k)
					}
				} else {
					cur, curIdx = nil, -1
					done = i + 1
				}
			case strings.HasPrefix(ev.Marker, "PANIC") && cur != nil:
				classes[*cur]["PANIC|"+strings.TrimPrefix(ev.Marker, "PANIC ")] = ev.Marker
			case ev.Report != nil && cur != nil:
				cl := []string{"?", "?"}
				for i := 0; i < 2 && i < len(ev.Report.Sites); i++ {
					cl[i] = raceClass(ev.Report.Sites[i])
				}
				if cl[0] == "?" {
					cl[0] = cl[1]
				} else if cl[1] == "?" {
					cl[1] = cl[0]
				}
				sort.Strings(cl)
				if _, ok := classes[*cur][cl[0]+"|"+cl[1]]; !ok {
					classes[*cur][cl[0]+"|"+cl[1]] = strings.Join(ev.Report.Sites, " <-> ") + "\n" + ev.Report.Text
				}
			case ev.Fatal != "" && cur != nil:
				msg := ev.Fatal
				if strings.Contains(msg, "concurrent map") {
					msg = "concurrent map access (runtime abort)"
				}
				classes[*cur]["FATAL|"+msg] = ev.Fatal
				done = curIdx + 1
				cur = nil
				died = true
			}
		}
		if finished || only != nil {
			break
		}
		if cur != nil {
			classes[*cur]["FATAL|child died"] = fmt.Sprint(runErr)
			done = curIdx + 1
		} else if runErr != nil && !finished && !died && done < total {
			tail := buf.String()
			if len(tail) > 2000 {
				tail = tail[len(tail)-2000:]
			}
			t.Fatalf("race-enabled harness failed outside a scenario: %v\n%s", runErr, tail)
		}
	}
	for _, k := range order {
		name := fmt.Sprintf("%s/v%d", k.sc, k.v)
		if len(classes[k]) == 0 {
			out.Add(Case{Coq: fmt.Sprintf("KStressClean %s 1", Q("api:"+name)),
				Replay: c19Replay{Kind: "api", F: k.sc, Stress: &c19Stress{Config: name}}, NonTrivial: true, Key: "api|" + name})
			out.Count("api-clean")
			continue
		}
		var cls []string
		for c := range classes[k] {
			cls = append(cls, c)
		}
		sort.Strings(cls)
		for _, c := range cls {
			ab := strings.SplitN(c, "|", 2)
			out.Add(Case{Coq: fmt.Sprintf("KApi %s %s %s", Q(k.sc), Q(ab[0]), Q(ab[1])),
				Replay: c19Replay{Kind: "api", F: k.sc, Stress: &c19Stress{Config: name, Site2: c, Report: classes[k][c]}}, NonTrivial: true, Key: "api|" + name + "|" + c})
			out.Count("api-raced")
		}
	}
}
