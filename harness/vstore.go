package hx

// By-value adapter around the unmodified reference store: requests are deep-copied on the way in and on
// the way out, which is what a persistent store does by serialising. The raw MemoryStore keeps the caller's
// pointers, so session objects are shared between records; the model (which has no pointers) corresponds to
// the by-value behaviour. Histories can be run on either (HConfig.RawStore).

import (
	"context"
	"net/url"
	"sync"

	"github.com/ory/fosite"
	"github.com/ory/fosite/storage"
)

type valueStore struct {
	*storage.MemoryStore
}

func cloneForm(f url.Values) url.Values {
	if f == nil {
		return nil
	}
	c := url.Values{}
	for k, v := range f {
		c[k] = append([]string{}, v...)
	}
	return c
}

func cloneRequest(v *fosite.Request) *fosite.Request {
	c := *v
	c.ID = v.GetID()
	if v.Session != nil {
		c.Session = v.Session.Clone()
	}
	c.Form = cloneForm(v.Form)
	c.RequestedScope = append(fosite.Arguments{}, v.RequestedScope...)
	c.GrantedScope = append(fosite.Arguments{}, v.GrantedScope...)
	c.RequestedAudience = append(fosite.Arguments{}, v.RequestedAudience...)
	c.GrantedAudience = append(fosite.Arguments{}, v.GrantedAudience...)
	return &c
}

func cloneRequester(r fosite.Requester) fosite.Requester {
	switch v := r.(type) {
	case *fosite.Request:
		return cloneRequest(v)
	case *fosite.AccessRequest:
		c := *v
		c.Request = *cloneRequest(&v.Request)
		return &c
	case *fosite.AuthorizeRequest:
		c := *v
		c.Request = *cloneRequest(&v.Request)
		return &c
	case *fosite.DeviceRequest:
		c := *v
		c.Request = *cloneRequest(&v.Request)
		return &c
	}
	return r
}

func (s *valueStore) CreateAuthorizeCodeSession(ctx context.Context, code string, req fosite.Requester) error {
	return s.MemoryStore.CreateAuthorizeCodeSession(ctx, code, cloneRequester(req))
}
func (s *valueStore) GetAuthorizeCodeSession(ctx context.Context, code string, sess fosite.Session) (fosite.Requester, error) {
	r, err := s.MemoryStore.GetAuthorizeCodeSession(ctx, code, sess)
	if err != nil || r == nil {
		return r, err
	}
	return cloneRequester(r), nil
}
func (s *valueStore) CreateAccessTokenSession(ctx context.Context, sig string, req fosite.Requester) error {
	return s.MemoryStore.CreateAccessTokenSession(ctx, sig, cloneRequester(req))
}
func (s *valueStore) GetAccessTokenSession(ctx context.Context, sig string, sess fosite.Session) (fosite.Requester, error) {
	r, err := s.MemoryStore.GetAccessTokenSession(ctx, sig, sess)
	if err != nil || r == nil {
		return r, err
	}
	return cloneRequester(r), nil
}
func (s *valueStore) CreateRefreshTokenSession(ctx context.Context, sig, atSig string, req fosite.Requester) error {
	return s.MemoryStore.CreateRefreshTokenSession(ctx, sig, atSig, cloneRequester(req))
}
func (s *valueStore) GetRefreshTokenSession(ctx context.Context, sig string, sess fosite.Session) (fosite.Requester, error) {
	r, err := s.MemoryStore.GetRefreshTokenSession(ctx, sig, sess)
	if err != nil || r == nil {
		return r, err
	}
	if rt, ok := r.(storage.StoreRefreshToken); ok {
		return cloneRequester(rt.Requester), nil
	}
	return cloneRequester(r), nil
}
func (s *valueStore) CreatePKCERequestSession(ctx context.Context, sig string, req fosite.Requester) error {
	return s.MemoryStore.CreatePKCERequestSession(ctx, sig, cloneRequester(req))
}
func (s *valueStore) GetPKCERequestSession(ctx context.Context, sig string, sess fosite.Session) (fosite.Requester, error) {
	r, err := s.MemoryStore.GetPKCERequestSession(ctx, sig, sess)
	if err != nil || r == nil {
		return r, err
	}
	return cloneRequester(r), nil
}
func (s *valueStore) CreateOpenIDConnectSession(ctx context.Context, code string, req fosite.Requester) error {
	return s.MemoryStore.CreateOpenIDConnectSession(ctx, code, cloneRequester(req))
}
func (s *valueStore) GetOpenIDConnectSession(ctx context.Context, code string, req fosite.Requester) (fosite.Requester, error) {
	r, err := s.MemoryStore.GetOpenIDConnectSession(ctx, code, req)
	if err != nil || r == nil {
		return r, err
	}
	return cloneRequester(r), nil
}
func (s *valueStore) GetDeviceCodeSession(ctx context.Context, sig string, sess fosite.Session) (fosite.DeviceRequester, error) {
	r, err := s.MemoryStore.GetDeviceCodeSession(ctx, sig, sess)
	if err != nil || r == nil {
		return r, err
	}
	if d, ok := cloneRequester(r).(fosite.DeviceRequester); ok {
		return d, nil
	}
	return r, nil
}


// contractStore: the device-code table as the storage contract documents it (handler/rfc8628/storage.go):
// InvalidateDeviceCodeSession keeps the record, and GetDeviceCodeSession answers an invalidated code with the
// stored request together with fosite.ErrInvalidatedDeviceCode. The reference store deletes instead.
type contractStore struct {
	*valueStore
	mu   sync.Mutex
	used map[string]fosite.DeviceRequester
}

func (s *contractStore) InvalidateDeviceCodeSession(ctx context.Context, sig string) error {
	if r, err := s.MemoryStore.GetDeviceCodeSession(ctx, sig, nil); err == nil && r != nil {
		s.mu.Lock()
		s.used[sig] = cloneRequester(r).(fosite.DeviceRequester)
		s.mu.Unlock()
	}
	return s.MemoryStore.InvalidateDeviceCodeSession(ctx, sig)
}

func (s *contractStore) GetDeviceCodeSession(ctx context.Context, sig string, sess fosite.Session) (fosite.DeviceRequester, error) {
	s.mu.Lock()
	r, ok := s.used[sig]
	s.mu.Unlock()
	if ok {
		return cloneRequester(r).(fosite.DeviceRequester), fosite.ErrInvalidatedDeviceCode
	}
	return s.valueStore.GetDeviceCodeSession(ctx, sig, sess)
}
