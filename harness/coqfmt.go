package hx

import (
	"fmt"
	"strings"
)

// Coq term printers. Strings that are plain printable ASCII are emitted as literals, anything
// else through Base.Str.s_of (a list of byte values), so the generated files are valid UTF-8.
func Q(s string) string {
	plain := true
	for i := 0; i < len(s); i++ {
		c := s[i]
		if c < 32 || c > 126 {
			plain = false
			break
		}
	}
	if plain {
		return `"` + strings.ReplaceAll(s, `"`, `""`) + `"`
	}
	var b strings.Builder
	b.WriteString("(s_of [")
	for i := 0; i < len(s); i++ {
		if i > 0 {
			b.WriteString(";")
		}
		fmt.Fprintf(&b, "%d", s[i])
	}
	b.WriteString("])")
	return b.String()
}

func QL(l []string) string {
	parts := make([]string, len(l))
	for i, s := range l {
		parts[i] = Q(s)
	}
	return "[" + strings.Join(parts, "; ") + "]"
}

func L(parts []string) string { return "[" + strings.Join(parts, "; ") + "]" }

func B(b bool) string {
	if b {
		return "true"
	}
	return "false"
}

func Z(n int64) string {
	if n < 0 {
		return fmt.Sprintf("(%d)%%Z", n)
	}
	return fmt.Sprintf("%d%%Z", n)
}

func N(n int) string { return fmt.Sprintf("%d", n) }

func Opt(s *string) string {
	if s == nil {
		return "None"
	}
	return "(Some " + *s + ")"
}
